//! C07 — checked packet views never panic on arbitrary bytes (bounded-exhaustive enumeration).
//!
//! Domain (all enumerated completely, nothing sampled):
//!  (a) every byte string of length 0, 1, 2; quick: every string of length 3 and 4 over a
//!      24-value boundary alphabet; thorough: every string of length 3, and every string of
//!      length 4 whose last two bytes are from a 41-value boundary alphabet (first two: any);
//!  (b) for every catalogue packet (`catalog.rs`: well-formed packets of every wire type built
//!      with `Repr::emit`, plus hand-assembled forms smoltcp cannot emit): every truncation,
//!      every single-byte corruption (position x all 255 other values), every pair of
//!      corruptions over the entry's <= 24 header/length/type positions with 11 boundary
//!      values; thorough: each of these also padded to 2048 bytes with a fixed pattern, plus
//!      the full 256x256 cross product of each entry's two layout-selecting key bytes.
//! Every distinct input is handed to every view type (`probes.rs`): `new_checked`, and on `Ok`
//! every applicable read accessor, `Repr::parse`, `Display`/`PrettyPrinter`, each under
//! `catch_unwind`. Oracle: no panic; name/option iterators stay within their byte budget; no
//! call hangs (watchdog).
//!
//! "Reading outside the buffer" cannot happen silently: smoltcp is `#![deny(unsafe_code)]`, an
//! out-of-range access is a panic.

use crate::core::*;
use serde_json::json;
use std::collections::{BTreeMap, HashSet};
use std::fmt::Write as _;
use std::hash::{BuildHasherDefault, Hasher};
use std::panic::{catch_unwind, AssertUnwindSafe};
use std::sync::atomic::{AtomicBool, AtomicU32, AtomicU64, AtomicUsize, Ordering};
use std::sync::{Arc, Mutex};

mod catalog;
mod probes;

use catalog::Entry;
use probes::PROBES;

// ------------------------------------------------------------------------------------------
// per-thread evaluation context
// ------------------------------------------------------------------------------------------

#[derive(Default, Clone)]
pub struct TStat {
    pub tried: u64,
    pub accepted: u64,
    pub calls: u64,
    pub panics: u64,
    pub loops: u64,
}

#[derive(Clone)]
pub struct Finding {
    pub sig: String,
    pub detail: String,
    pub ty: &'static str,
    pub call: String,
    pub input: Vec<u8>,
}

/// progress slot read by the watchdog
struct Slot {
    busy: AtomicBool,
    seq: AtomicU64,
    ty: AtomicUsize,
    ordinal: AtomicU32,
    spec: [AtomicU64; 2],
}

static SLOTS: Mutex<Vec<Arc<Slot>>> = Mutex::new(Vec::new());

/// view types whose `new_checked` accepts (almost) any non-empty buffer; not counted for `distinct_nontrivial`
const TRIVIAL_ACCEPTORS: &[&str] = &["Ipv6HopByHopHeader", "Ipv6RoutingHeader"];

pub struct Ctx {
    ty: usize,
    ordinal: u32,
    /// replay of a hang: execute calls before this ordinal, name the one at it, skip the rest
    dry_limit: Option<u32>,
    dry_name: Option<&'static str>,
    /// replay: print every call and its outcome
    verbose: bool,
    pub stats: Vec<TStat>,
    pub found: BTreeMap<String, Finding>,
    pub machinery: Vec<String>,
    scratch: String,
    slot: Arc<Slot>,
    seqno: u64,
    pub inputs: u64,
    pub inputs_a: u64,
    pub distinct: u64,
    pub distinct_nontrivial: u64,
    accepted_any: bool,
    pub max_len_accepted: usize,
}

impl Ctx {
    fn new() -> Ctx {
        let slot = Arc::new(Slot {
            busy: AtomicBool::new(false),
            seq: AtomicU64::new(0),
            ty: AtomicUsize::new(0),
            ordinal: AtomicU32::new(0),
            spec: [AtomicU64::new(0), AtomicU64::new(0)],
        });
        SLOTS.lock().unwrap().push(slot.clone());
        Ctx {
            ty: 0,
            ordinal: 0,
            dry_limit: None,
            dry_name: None,
            verbose: false,
            stats: vec![TStat::default(); PROBES.len()],
            found: BTreeMap::new(),
            machinery: vec![],
            scratch: String::with_capacity(4096),
            slot,
            seqno: 0,
            inputs: 0,
            inputs_a: 0,
            distinct: 0,
            distinct_nontrivial: 0,
            accepted_any: false,
            max_len_accepted: 0,
        }
    }

    fn begin_group(&mut self, ty: usize) {
        self.ty = ty;
        self.ordinal = 0;
        self.stats[ty].tried += 1;
        self.slot.ty.store(ty, Ordering::Relaxed);
    }

    pub fn accepted(&mut self) {
        self.stats[self.ty].accepted += 1;
        if !TRIVIAL_ACCEPTORS.contains(&PROBES[self.ty].0) {
            self.accepted_any = true;
        }
    }

    /// Run one call of the code under test under `catch_unwind`.
    #[inline]
    pub fn call<R>(&mut self, b: &[u8], name: &'static str, f: impl FnOnce() -> R) -> Option<R> {
        self.ordinal += 1;
        if let Some(l) = self.dry_limit {
            if self.ordinal >= l {
                if self.ordinal == l {
                    self.dry_name = Some(name);
                }
                return None;
            }
        }
        self.seqno += 1;
        self.slot.seq.store(self.seqno, Ordering::Relaxed);
        self.slot.ordinal.store(self.ordinal, Ordering::Relaxed);
        self.stats[self.ty].calls += 1;
        match catch_unwind(AssertUnwindSafe(f)) {
            Ok(r) => {
                if self.verbose {
                    println!("  {:>3} {:<36} returned", self.ordinal, name);
                }
                Some(std::hint::black_box(r))
            }
            Err(p) => {
                if self.verbose {
                    println!("  {:>3} {:<36} PANICKED at {}", self.ordinal, name, last_panic_loc());
                }
                self.record_panic(b, name, p);
                None
            }
        }
    }

    /// Format a value (Display / PrettyPrinter) into a scratch string.
    pub fn show(&mut self, b: &[u8], name: &'static str, v: &dyn std::fmt::Display) {
        let mut s = std::mem::take(&mut self.scratch);
        s.clear();
        self.call(b, name, || {
            let _ = write!(s, "{}", v);
        });
        std::hint::black_box(s.len());
        self.scratch = s;
    }

    fn keep(&mut self, f: Finding) {
        match self.found.get(&f.sig) {
            Some(old) if (old.input.len(), &old.input) <= (f.input.len(), &f.input) => {}
            _ => {
                self.found.insert(f.sig.clone(), f);
            }
        }
    }

    fn record_panic(&mut self, b: &[u8], name: &'static str, p: Box<dyn std::any::Any + Send>) {
        let tyname = PROBES[self.ty].0;
        let loc = last_panic_loc();
        let msg = panic_msg(p);
        // smoltcp is a path dependency (absolute /repo/... locations, as are std and registry
        // crates); this crate's own files have relative locations: a panic located there is a
        // harness bug, never a verdict.
        if !loc.starts_with('/') {
            self.machinery.push(format!("harness panic in {}::{} at {}: {}", tyname, name, loc, msg));
            return;
        }
        self.stats[self.ty].panics += 1;
        let sig = format!("C07/panic/{}/{}/{}", tyname, name, panic_site());
        let detail = format!(
            "{}::new_checked accepted {} bytes, then {} panicked: '{}' at {}; input = {}",
            tyname,
            b.len(),
            name,
            msg,
            loc,
            hex(b, 96)
        );
        self.keep(Finding { sig, detail, ty: tyname, call: name.to_string(), input: b.to_vec() });
    }

    /// An iterator / parser exceeded its byte budget (would not terminate in a caller).
    pub fn looped(&mut self, b: &[u8], name: &'static str, what: String) {
        let tyname = PROBES[self.ty].0;
        self.stats[self.ty].loops += 1;
        let sig = format!("C07/loop/{}/{}", tyname, name);
        let detail = format!("{} {}: {}; input = {}", tyname, name, what, hex(b, 96));
        self.keep(Finding { sig, detail, ty: tyname, call: name.to_string(), input: b.to_vec() });
    }

    fn merge(mut self, o: Ctx) -> Ctx {
        for (a, b) in self.stats.iter_mut().zip(o.stats.iter()) {
            a.tried += b.tried;
            a.accepted += b.accepted;
            a.calls += b.calls;
            a.panics += b.panics;
            a.loops += b.loops;
        }
        for (_, f) in o.found {
            self.keep(f);
        }
        self.machinery.extend(o.machinery);
        self.inputs += o.inputs;
        self.inputs_a += o.inputs_a;
        self.distinct += o.distinct;
        self.distinct_nontrivial += o.distinct_nontrivial;
        self.max_len_accepted = self.max_len_accepted.max(o.max_len_accepted);
        self
    }
}

fn hex(b: &[u8], max: usize) -> String {
    let mut s = String::with_capacity(2 * b.len().min(max) + 16);
    for x in b.iter().take(max) {
        let _ = write!(s, "{:02x}", x);
    }
    if b.len() > max {
        let _ = write!(s, "..(+{} bytes)", b.len() - max);
    }
    s
}
fn hex_full(b: &[u8]) -> String {
    hex(b, usize::MAX)
}
fn unhex(s: &str) -> Option<Vec<u8>> {
    if s.len() % 2 != 0 {
        return None;
    }
    (0..s.len() / 2).map(|i| u8::from_str_radix(s.get(2 * i..2 * i + 2)?, 16).ok()).collect()
}

// ------------------------------------------------------------------------------------------
// input domain
// ------------------------------------------------------------------------------------------

/// boundary byte alphabets for the length-3 / length-4 strings: field extremes plus the
/// dispatch / type / length values the short view types (IPv6 option, routing header, IPHC,
/// NHC, 6LoWPAN fragment, 802.15.4 frame control + security control, TCP option) key on
const ALPHA_QUICK: &[u8] = &[
    0x00, 0x01, 0x02, 0x03, 0x04, 0x05, 0x08, 0x09, 0x0f, 0x10, 0x20, 0x23, 0x3b, 0x40, 0x41, 0x60, 0x7a, 0x7f, 0x80, 0xc0, 0xe1, 0xf0, 0xf3, 0xff,
];
const ALPHA_THOROUGH: &[u8] = &[
    0x00, 0x01, 0x02, 0x03, 0x04, 0x05, 0x06, 0x07, 0x08, 0x09, 0x0a, 0x0f, 0x10, 0x18, 0x1f, 0x20, 0x23, 0x28, 0x3b, 0x3f, 0x40, 0x41,
    0x49, 0x60, 0x7a, 0x7f, 0x80, 0x88, 0xa0, 0xc0, 0xc8, 0xcc, 0xe0, 0xe1, 0xe3, 0xee, 0xf0, 0xf3, 0xf7, 0xfe, 0xff,
];
const PAIR_VALUES: &[u8] = &[0x00, 0x01, 0x07, 0x08, 0x0f, 0x3f, 0x40, 0x7f, 0x80, 0xf0, 0xff];
const PAD_TO: usize = 2048;
const PAD_PATTERN: [u8; 16] = [0x01, 0x00, 0x02, 0x04, 0xff, 0x03, 0x08, 0x0a, 0xc0, 0x0c, 0x05, 0x12, 0x7f, 0x80, 0x06, 0x3f];
/// quick tier: entries longer than this get single-byte corruptions only on their first LONG_HEAD bytes and last 4
const LONG_ENTRY: usize = 400;
const LONG_HEAD: usize = 96;

#[derive(Clone, Copy, Debug)]
enum Item {
    /// all strings of length <= 2 with first byte = a (len 1: the string [a]; plus the empty string when a == 0)
    Small2(u8),
    /// quick: strings of length 3 and 4 over the alphabet whose first symbol index = a
    SmallA(u16),
    /// thorough: all strings [a, *, *] and all strings [a, *, x, y] with x, y from the alphabet
    SmallT(u8),
    Trunc(u32),
    Mut1(u32, u16),
    Mut2(u32, u16, u16),
    /// thorough: key position 1 = a, key position 2 = every value
    Key2(u32, u8),
}

/// identifies one input for the watchdog (kind, entry, two 32-bit parameters)
#[derive(Clone, Copy, Default)]
struct Spec {
    kind: u8,
    pad: bool,
    entry: u32,
    a: u32,
    b: u32,
}
impl Spec {
    fn pack(self) -> [u64; 2] {
        [self.kind as u64 | (self.pad as u64) << 8 | (self.entry as u64) << 32, self.a as u64 | (self.b as u64) << 32]
    }
    fn unpack(w: [u64; 2]) -> Spec {
        Spec { kind: w[0] as u8, pad: (w[0] >> 8) & 1 == 1, entry: (w[0] >> 32) as u32, a: w[1] as u32, b: (w[1] >> 32) as u32 }
    }
}

struct Domain {
    tier: Tier,
    cat: Vec<Entry>,
    alpha: &'static [u8],
}

impl Domain {
    fn new(tier: Tier) -> Result<Domain, String> {
        let cat = catch_unwind(catalog::build).map_err(|e| format!("catalogue construction panicked: {} at {}", panic_msg(e), last_panic_loc()))?;
        Ok(Domain { tier, cat, alpha: if tier == Tier::Quick { ALPHA_QUICK } else { ALPHA_THOROUGH } })
    }

    fn mut_positions(&self, e: &Entry) -> Vec<u16> {
        let n = e.bytes.len();
        if n <= LONG_ENTRY || self.tier == Tier::Thorough {
            (0..n as u16).collect()
        } else {
            (0..LONG_HEAD as u16).chain((n - 4) as u16..n as u16).collect()
        }
    }

    fn items(&self) -> Vec<Item> {
        let mut v = vec![];
        for a in 0..=255u8 {
            v.push(Item::Small2(a));
        }
        if self.tier == Tier::Quick {
            for a in 0..self.alpha.len() {
                v.push(Item::SmallA(a as u16));
            }
        } else {
            for a in 0..=255u8 {
                v.push(Item::SmallT(a));
            }
        }
        for (i, e) in self.cat.iter().enumerate() {
            v.push(Item::Trunc(i as u32));
            for p in self.mut_positions(e) {
                v.push(Item::Mut1(i as u32, p));
            }
            for x in 0..e.hot.len() {
                for y in x + 1..e.hot.len() {
                    v.push(Item::Mut2(i as u32, e.hot[x], e.hot[y]));
                }
            }
            if self.tier == Tier::Thorough && e.key2.is_some() {
                for a in 0..=255u8 {
                    v.push(Item::Key2(i as u32, a));
                }
            }
        }
        v
    }

    /// Enumerate every input of a work item, calling `f(spec, bytes)`.
    fn for_each(&self, item: Item, buf: &mut Vec<u8>, f: &mut dyn FnMut(Spec, &[u8])) {
        let pad = self.tier == Tier::Thorough;
        match item {
            Item::Small2(a) => {
                if a == 0 {
                    buf.clear();
                    f(Spec { kind: 0, a: 0, ..Default::default() }, buf);
                }
                buf.clear();
                buf.push(a);
                f(Spec { kind: 0, a: 1, b: a as u32, ..Default::default() }, buf);
                for x in 0..=255u8 {
                    buf.clear();
                    buf.extend_from_slice(&[a, x]);
                    f(Spec { kind: 0, a: 2, b: (a as u32) << 8 | x as u32, ..Default::default() }, buf);
                }
            }
            Item::SmallA(ai) => {
                let al = self.alpha;
                for &x in al {
                    for &y in al {
                        buf.clear();
                        buf.extend_from_slice(&[al[ai as usize], x, y]);
                        f(Spec { kind: 1, a: 3, b: u32::from_be_bytes([0, al[ai as usize], x, y]), ..Default::default() }, buf);
                        for &z in al {
                            buf.clear();
                            buf.extend_from_slice(&[al[ai as usize], x, y, z]);
                            f(Spec { kind: 1, a: 4, b: u32::from_be_bytes([al[ai as usize], x, y, z]), ..Default::default() }, buf);
                        }
                    }
                }
            }
            Item::SmallT(a) => {
                let al = self.alpha;
                for x in 0..=255u8 {
                    for y in 0..=255u8 {
                        buf.clear();
                        buf.extend_from_slice(&[a, x, y]);
                        f(Spec { kind: 1, a: 3, b: u32::from_be_bytes([0, a, x, y]), ..Default::default() }, buf);
                    }
                    for &y in al {
                        for &z in al {
                            buf.clear();
                            buf.extend_from_slice(&[a, x, y, z]);
                            f(Spec { kind: 1, a: 4, b: u32::from_be_bytes([a, x, y, z]), ..Default::default() }, buf);
                        }
                    }
                }
            }
            Item::Trunc(ei) => {
                let e = &self.cat[ei as usize];
                for n in 0..=e.bytes.len() {
                    buf.clear();
                    buf.extend_from_slice(&e.bytes[..n]);
                    f(Spec { kind: 2, entry: ei, a: n as u32, ..Default::default() }, buf);
                    if pad && n < PAD_TO {
                        pad_to(buf);
                        f(Spec { kind: 2, entry: ei, a: n as u32, pad: true, ..Default::default() }, buf);
                    }
                }
            }
            Item::Mut1(ei, pos) => {
                let e = &self.cat[ei as usize];
                let orig = e.bytes[pos as usize];
                let mut one = |v: u8, buf: &mut Vec<u8>| {
                    if v == orig {
                        return;
                    }
                    buf.clear();
                    buf.extend_from_slice(&e.bytes);
                    buf[pos as usize] = v;
                    let a = (pos as u32) << 8 | v as u32;
                    f(Spec { kind: 3, entry: ei, a, ..Default::default() }, buf);
                    if pad && buf.len() < PAD_TO {
                        pad_to(buf);
                        f(Spec { kind: 3, entry: ei, a, pad: true, ..Default::default() }, buf);
                    }
                };
                for v in 0..=255u8 {
                    one(v, buf);
                }
            }
            Item::Key2(ei, v1) => {
                let e = &self.cat[ei as usize];
                let (p1, p2) = e.key2.expect("Key2 item for entry without key positions");
                for v2 in 0..=255u8 {
                    if v1 == e.bytes[p1 as usize] && v2 == e.bytes[p2 as usize] {
                        continue;
                    }
                    buf.clear();
                    buf.extend_from_slice(&e.bytes);
                    buf[p1 as usize] = v1;
                    buf[p2 as usize] = v2;
                    let (a, b) = ((p1 as u32) << 8 | v1 as u32, (p2 as u32) << 8 | v2 as u32);
                    f(Spec { kind: 4, entry: ei, a, b, ..Default::default() }, buf);
                }
            }
            Item::Mut2(ei, p1, p2) => {
                let e = &self.cat[ei as usize];
                let (o1, o2) = (e.bytes[p1 as usize], e.bytes[p2 as usize]);
                for &v1 in PAIR_VALUES {
                    if v1 == o1 {
                        continue;
                    }
                    for &v2 in PAIR_VALUES {
                        if v2 == o2 {
                            continue;
                        }
                        buf.clear();
                        buf.extend_from_slice(&e.bytes);
                        buf[p1 as usize] = v1;
                        buf[p2 as usize] = v2;
                        let (a, b) = ((p1 as u32) << 8 | v1 as u32, (p2 as u32) << 8 | v2 as u32);
                        f(Spec { kind: 4, entry: ei, a, b, ..Default::default() }, buf);
                        if pad && buf.len() < PAD_TO {
                            pad_to(buf);
                            f(Spec { kind: 4, entry: ei, a, b, pad: true }, buf);
                        }
                    }
                }
            }
        }
    }

    /// Is this byte string a member of domain (a)? (catalogue-derived inputs that are, are
    /// skipped: they are enumerated there)
    fn in_small_domain(&self, b: &[u8]) -> bool {
        let al = |x: &u8| self.alpha.contains(x);
        match (b.len(), self.tier) {
            (0..=2, _) => true,
            (3, Tier::Thorough) => true,
            (4, Tier::Thorough) => al(&b[2]) && al(&b[3]),
            (3 | 4, Tier::Quick) => b.iter().all(al),
            _ => false,
        }
    }

    fn small_domain_size(&self) -> u64 {
        let a = self.alpha.len() as u64;
        match self.tier {
            Tier::Quick => 65793 + a * a * a + a * a * a * a,
            Tier::Thorough => 65793 + (1 << 24) + 65536 * a * a,
        }
    }

    /// Rebuild the bytes of one input from its spec (watchdog report).
    #[allow(clippy::identity_op)]
    fn materialize(&self, s: Spec) -> Vec<u8> {
        let mut v = match s.kind {
            0 => match s.a {
                0 => vec![],
                1 => vec![s.b as u8],
                _ => vec![(s.b >> 8) as u8, s.b as u8],
            },
            1 => {
                let x = s.b.to_be_bytes();
                if s.a == 3 {
                    x[1..].to_vec()
                } else {
                    x.to_vec()
                }
            }
            2 => self.cat[s.entry as usize].bytes[..s.a as usize].to_vec(),
            3 | 4 => {
                let mut v = self.cat[s.entry as usize].bytes.clone();
                v[(s.a >> 8) as usize] = s.a as u8;
                if s.kind == 4 {
                    v[(s.b >> 8) as usize] = s.b as u8;
                }
                v
            }
            _ => vec![],
        };
        if s.pad {
            pad_to(&mut v);
        }
        v
    }
}

fn pad_to(buf: &mut Vec<u8>) {
    let mut i = buf.len();
    while i < PAD_TO {
        buf.push(PAD_PATTERN[i % 16]);
        i += 1;
    }
}

// ------------------------------------------------------------------------------------------
// dedup set (128-bit fingerprints; each distinct input is evaluated exactly once)
// ------------------------------------------------------------------------------------------

#[derive(Default)]
struct FpHasher(u64);
impl Hasher for FpHasher {
    fn finish(&self) -> u64 {
        self.0
    }
    fn write(&mut self, bytes: &[u8]) {
        for &b in bytes {
            self.0 = self.0.rotate_left(8) ^ b as u64;
        }
    }
    fn write_u128(&mut self, i: u128) {
        self.0 = (i as u64) ^ ((i >> 64) as u64).rotate_left(17);
    }
}
type FpSet = HashSet<u128, BuildHasherDefault<FpHasher>>;
const SHARDS: usize = 1024;

struct Seen {
    shards: Vec<Mutex<FpSet>>,
}
impl Seen {
    fn new() -> Seen {
        Seen { shards: (0..SHARDS).map(|_| Mutex::new(FpSet::default())).collect() }
    }
    /// true if this input was not seen before
    fn insert(&self, b: &[u8]) -> bool {
        // short strings are their own fingerprint (exact); longer ones use the 128-bit hash
        let fp: u128 = if b.len() <= 15 {
            let mut x = [0u8; 16];
            x[..b.len()].copy_from_slice(b);
            x[15] = b.len() as u8 + 1;
            u128::from_le_bytes(x)
        } else {
            fp128(b) | 1 << 127 | 1 << 126 // top byte >= 0xc0: cannot collide with a short string's length tag (<= 16)
        };
        let sh = ((fp >> 64) as u64 ^ fp as u64).wrapping_mul(0x9e3779b97f4a7c15) >> 54;
        self.shards[sh as usize % SHARDS].lock().unwrap().insert(fp)
    }
}

// ------------------------------------------------------------------------------------------
// evaluation
// ------------------------------------------------------------------------------------------

fn eval_input(cx: &mut Ctx, spec: Spec, b: &[u8]) {
    cx.slot.spec[0].store(spec.pack()[0], Ordering::Relaxed);
    cx.slot.spec[1].store(spec.pack()[1], Ordering::Relaxed);
    cx.slot.busy.store(true, Ordering::Release);
    cx.accepted_any = false;
    for ty in 0..PROBES.len() {
        cx.begin_group(ty);
        (PROBES[ty].1)(cx, b);
    }
    cx.slot.busy.store(false, Ordering::Release);
    if cx.accepted_any {
        cx.distinct_nontrivial += 1;
        cx.max_len_accepted = cx.max_len_accepted.max(b.len());
    }
}

struct Outcome {
    cx: Ctx,
    items: usize,
}

fn explore(dom: &Domain) -> Outcome {
    use rayon::prelude::*;
    let items = dom.items();
    let seen = Seen::new();
    // Self-scheduling workers: one context per worker, items handed out through a shared
    // counter (heavy items come first in `items`, so the tail is fine-grained). All counts are
    // sums over inputs, each distinct input is evaluated exactly once by whichever worker gets
    // it, so the totals do not depend on the schedule.
    let next = AtomicUsize::new(0);
    let workers = rayon::current_num_threads().max(1);
    let cx = (0..workers)
        .into_par_iter()
        .map(|_| {
            let mut cx = Ctx::new();
            let mut buf: Vec<u8> = Vec::with_capacity(PAD_TO);
            loop {
                let i = next.fetch_add(1, Ordering::Relaxed);
                if i >= items.len() {
                    break;
                }
                dom.for_each(items[i], &mut buf, &mut |spec, b| {
                    cx.inputs += 1;
                    cx.inputs_a += (spec.kind <= 1) as u64;
                    // domain (a) is duplicate-free by construction; a catalogue-derived input is
                    // new iff it is not a member of (a) and its fingerprint was not seen before
                    let fresh = if spec.kind <= 1 { true } else { !dom.in_small_domain(b) && seen.insert(b) };
                    if fresh {
                        cx.distinct += 1;
                        eval_input(&mut cx, spec, b);
                    }
                });
            }
            cx
        })
        .reduce_with(|a, b| a.merge(b))
        .unwrap_or_else(Ctx::new);
    Outcome { cx, items: items.len() }
}

/// What the watchdog found: a call that made no progress for STALL_SECS.
struct Hang {
    ty: usize,
    ordinal: u32,
    input: Vec<u8>,
}
const STALL_SECS: u64 = 30;

fn run_with_watchdog(dom: Arc<Domain>) -> Result<Outcome, Hang> {
    let (tx, rx) = std::sync::mpsc::channel();
    let d2 = dom.clone();
    std::thread::Builder::new()
        .name("c07-explore".into())
        .spawn(move || {
            let _ = tx.send(explore(&d2));
        })
        .expect("spawn");
    // (slot index) -> (seq last seen, consecutive stalled polls)
    let mut last: Vec<(u64, u64)> = vec![];
    loop {
        match rx.recv_timeout(std::time::Duration::from_secs(1)) {
            Ok(o) => return Ok(o),
            Err(std::sync::mpsc::RecvTimeoutError::Disconnected) => panic!("explorer thread died"),
            Err(std::sync::mpsc::RecvTimeoutError::Timeout) => {}
        }
        let slots: Vec<Arc<Slot>> = SLOTS.lock().unwrap().clone();
        last.resize(slots.len(), (0, 0));
        for (i, s) in slots.iter().enumerate() {
            let seq = s.seq.load(Ordering::Relaxed);
            if s.busy.load(Ordering::Acquire) && seq == last[i].0 {
                last[i].1 += 1;
                if last[i].1 >= STALL_SECS {
                    let spec = Spec::unpack([s.spec[0].load(Ordering::Relaxed), s.spec[1].load(Ordering::Relaxed)]);
                    return Err(Hang { ty: s.ty.load(Ordering::Relaxed), ordinal: s.ordinal.load(Ordering::Relaxed), input: dom.materialize(spec) });
                }
            } else {
                last[i] = (seq, 0);
            }
        }
    }
}

/// Name the call with the given ordinal without executing it (everything before it is
/// executed; it terminated when the explorer ran it).
fn name_call(ty: usize, ordinal: u32, input: &[u8]) -> String {
    let mut cx = Ctx::new();
    cx.dry_limit = Some(ordinal);
    cx.begin_group(ty);
    (PROBES[ty].1)(&mut cx, input);
    cx.dry_name.unwrap_or("?").to_string()
}

// ------------------------------------------------------------------------------------------
// entry points
// ------------------------------------------------------------------------------------------

pub fn run(tier: Tier) -> i32 {
    let mut rep = Report::new("C07", tier);
    rep.assumptions.push("panics are observable: release profile with debug-assertions + overflow-checks, unwinding; smoltcp is #![deny(unsafe_code)], so an out-of-buffer read is a panic".into());
    rep.assumptions.push("applicability of accessors per message type follows each module's doc comments and the dispatch in the corresponding Repr::parse (table in probes.rs); setters / *_mut / emit are not read accessors".into());
    rep.assumptions.push("Repr::parse extra arguments fixed: 192.168.1.1/2, fe80::1/2 (same family per call), 802.15.4 link addresses short/extended/none, two 6LoWPAN contexts; checksum capabilities default and ignored".into());
    rep.assumptions.push(format!("non-termination inside a smoltcp call is detected by a watchdog (no progress for {} s)", STALL_SECS));
    let dom = match Domain::new(tier) {
        Ok(d) => Arc::new(d),
        Err(e) => {
            rep.machinery_errors.push(e);
            return rep.finish();
        }
    };
    let cat_bytes: usize = dom.cat.iter().map(|e| e.bytes.len()).sum();
    let quick = tier == Tier::Quick;
    rep.cov(
        "rule",
        json!(format!(
            "E2 input enumeration. (a) all 65793 byte strings of length 0..=2; {}. \
             (b) {} catalogue packets ({} bytes; Repr::emit output of every wire type and message kind + hand-assembled forms): every truncation; every single-byte corruption \
             (position x all 255 other values{}); every pair of corruptions over each entry's <=24 hot positions (length/type/offset/count fields) with values {:02x?}{}. \
             Inputs of (b) that are members of (a) are skipped, the rest are de-duplicated (exact bytes for len<=15, 128-bit fingerprint above); every distinct input is given to all {} view types: \
             new_checked, then every applicable read accessor, Repr::parse (default + ignored checksum caps), Display and PrettyPrinter, each call under catch_unwind. \
             states = distinct (type,input) pairs accepted by new_checked (for TcpOption / DnsQuestion / DnsRecord / dispatch functions: parse returned Ok); \
             transitions = evaluations = calls into smoltcp (new_checked + accessor + parse + formatting); \
             distinct_nontrivial = distinct inputs accepted by at least one type other than Ipv6HopByHopHeader / Ipv6RoutingHeader (which accept almost any buffer of >=1 / >=2 bytes).",
            if quick {
                format!("all strings of length 3 and 4 over a {}-value boundary alphabet", dom.alpha.len())
            } else {
                format!("all 2^24 strings of length 3; all strings of length 4 whose bytes 2,3 are from a {}-value boundary alphabet (bytes 0,1: all 65536)", dom.alpha.len())
            },
            dom.cat.len(),
            cat_bytes,
            if quick { format!("; entries longer than {} bytes: first {} and last 4 positions only", LONG_ENTRY, LONG_HEAD) } else { String::new() },
            PAIR_VALUES,
            if quick {
                String::new()
            } else {
                format!(
                    "; each truncation / corruption / pair additionally padded to {} bytes with a fixed 16-byte pattern; for the {} entries with layout-selecting key bytes (type/dispatch/flags + length/code: bytes 0,1; TCP 12,13; DHCP 243,244; DNS 12,13) the full 256x256 cross product of those two bytes",
                    PAD_TO,
                    dom.cat.iter().filter(|e| e.key2.is_some()).count()
                )
            },
            PROBES.len()
        )),
    );
    rep.cov("domain_a_size", json!(dom.small_domain_size()));
    rep.cov("alphabet_len3_len4", json!(dom.alpha.iter().map(|b| format!("{:02x}", b)).collect::<Vec<_>>()));
    rep.cov("catalogue", json!(dom.cat.iter().map(|e| json!({"name": e.name, "len": e.bytes.len(), "pair_positions": e.hot.len(), "key_bytes": e.key2.map(|k| vec![k.0, k.1])})).collect::<Vec<_>>()));
    rep.cov("view_types", json!(PROBES.iter().map(|p| p.0).collect::<Vec<_>>()));

    // a few concrete cases, evaluated here on the main thread (not part of the counts)
    for (name, ty) in [("tcp/syn-all-options", "TcpPacket"), ("icmpv6/ra-lladdr-mtu-prefix", "Icmpv6Packet"), ("dns/response-cname-a-aaaa", "DnsPacket"), ("nhc-ext/routing", "SixlowpanExtHeaderPacket")] {
        if let Some(e) = dom.cat.iter().find(|e| e.name == name) {
            let tyi = PROBES.iter().position(|p| p.0 == ty).unwrap();
            for cut in [e.bytes.len(), e.bytes.len() / 2] {
                let mut cx = Ctx::new();
                cx.begin_group(tyi);
                (PROBES[tyi].1)(&mut cx, &e.bytes[..cut]);
                rep.samples.push(json!({"catalogue": name, "truncated_to": cut, "of": e.bytes.len(), "type": ty,
                    "bytes": hex(&e.bytes[..cut], 48), "accepted_by_new_checked": cx.stats[tyi].accepted == 1,
                    "calls": cx.stats[tyi].calls, "panics": cx.stats[tyi].panics}));
                rep.machinery_errors.extend(cx.machinery);
            }
        }
    }

    match run_with_watchdog(dom.clone()) {
        Ok(out) => {
            let cx = out.cx;
            let mut per_type = serde_json::Map::new();
            let (mut states, mut trans, mut panics, mut loops) = (0u64, 0u64, 0u64, 0u64);
            for (i, st) in cx.stats.iter().enumerate() {
                per_type.insert(
                    PROBES[i].0.to_string(),
                    json!({"inputs_tried": st.tried, "accepted_by_new_checked": st.accepted, "calls": st.calls, "panics": st.panics, "budget_exceeded": st.loops}),
                );
                states += st.accepted;
                trans += st.calls;
                panics += st.panics;
                loops += st.loops;
                if st.accepted == 0 {
                    rep.machinery_errors.push(format!("vacuous: no input was accepted by {}", PROBES[i].0));
                }
            }
            rep.cov("per_type", serde_json::Value::Object(per_type));
            rep.cov("work_items", json!(out.items));
            rep.add_count("inputs_enumerated", cx.inputs);
            rep.add_count("inputs_domain_a", cx.inputs_a);
            if cx.inputs_a != dom.small_domain_size() {
                rep.machinery_errors.push(format!("domain (a): enumerated {} strings, expected {}", cx.inputs_a, dom.small_domain_size()));
            }
            rep.add_count("distinct_inputs", cx.distinct);
            rep.add_count("states", states);
            rep.add_count("transitions", trans);
            rep.add_count("evaluations", trans);
            rep.add_count("distinct_nontrivial", cx.distinct_nontrivial);
            rep.add_count("panicking_calls", panics);
            rep.add_count("budget_exceeded_calls", loops);
            rep.cov("max_len_accepted", json!(cx.max_len_accepted));
            rep.machinery_errors.extend(cx.machinery.into_iter().take(8));
            // re-execute every reported case from its recorded bytes (the artefact must reproduce)
            let mut validated = 0u64;
            for f in cx.found.values() {
                let sigs = replay_sigs(f.ty, &f.input);
                if sigs.iter().any(|s| s == &f.sig) {
                    validated += 1;
                } else {
                    rep.machinery_errors.push(format!("recorded case for {} did not reproduce on re-execution", f.sig));
                }
                rep.violation(
                    f.sig.clone(),
                    f.detail.clone(),
                    json!({"type": f.ty, "call": f.call, "len": f.input.len(), "input_hex": hex_full(&f.input)}),
                );
            }
            rep.add_count("traces_validated_against_impl", validated);
            rep.and_exhaustive(true);
        }
        Err(h) => {
            let ty = PROBES[h.ty].0;
            let call = name_call(h.ty, h.ordinal, &h.input);
            rep.violation(
                format!("C07/loop/{}/{}", ty, call),
                format!("{}: call #{} ({}) made no progress for {} s; input = {}", ty, h.ordinal, call, STALL_SECS, hex(&h.input, 96)),
                json!({"type": ty, "call": call, "len": h.input.len(), "input_hex": hex_full(&h.input), "hang": true}),
            );
            rep.cov("aborted", json!("a call under test did not return; the enumeration was abandoned at that point (counts not available)"));
            rep.and_exhaustive(false);
        }
    }
    rep.finish()
}

/// Run one type's probe on one input; return the signatures it produces.
fn replay_sigs(ty: &str, input: &[u8]) -> Vec<String> {
    let Some(tyi) = PROBES.iter().position(|p| p.0 == ty) else { return vec![] };
    let mut cx = Ctx::new();
    cx.begin_group(tyi);
    (PROBES[tyi].1)(&mut cx, input);
    cx.found.keys().cloned().collect()
}

pub fn replay(art: &serde_json::Value) -> i32 {
    let r = &art["replay"];
    let want = art["signature"].as_str().unwrap_or("").to_string();
    let ty = r["type"].as_str().unwrap_or("").to_string();
    let Some(input) = r["input_hex"].as_str().and_then(unhex) else {
        eprintln!("MACHINERY ERROR: artefact has no input_hex");
        return 2;
    };
    let Some(tyi) = PROBES.iter().position(|p| p.0 == ty) else {
        eprintln!("MACHINERY ERROR: unknown type {}", ty);
        return 2;
    };
    println!("type {}  input ({} bytes) {}", ty, input.len(), hex(&input, 128));
    // run in a helper thread so that a non-terminating call is reported instead of hanging
    let (tx, rx) = std::sync::mpsc::channel();
    let inp = input.clone();
    std::thread::spawn(move || {
        let mut cx = Ctx::new();
        cx.verbose = true;
        cx.begin_group(tyi);
        (PROBES[tyi].1)(&mut cx, &inp);
        let _ = tx.send((cx.stats[tyi].clone(), cx.found, cx.machinery));
    });
    match rx.recv_timeout(std::time::Duration::from_secs(STALL_SECS)) {
        Ok((st, found, mach)) => {
            println!("new_checked: {}  calls made: {}  panics: {}  budget exceeded: {}", if st.accepted > 0 { "Ok" } else { "Err (rejected)" }, st.calls, st.panics, st.loops);
            for m in &mach {
                eprintln!("MACHINERY ERROR: {}", m);
            }
            for f in found.values() {
                println!("violation: {} :: {}", f.sig, f.detail);
            }
            if !mach.is_empty() {
                2
            } else if !found.is_empty() {
                if !found.contains_key(&want) {
                    println!("(the recorded signature {} did not recur; this input still violates the property with the signatures above)", want);
                }
                1
            } else {
                println!("no violation on replay");
                0
            }
        }
        Err(_) => {
            println!("violation: {} :: the probe did not return within {} s", want, STALL_SECS);
            1
        }
    }
}
