//! C05 sender monitor: checks every segment a socket emits against what the application
//! wrote and what the peer has told the socket (windows, MSS, scale), using only the
//! independent parser. Shared by tcp2 (both endpoints real) and tcp1 sender mode (peer =
//! explorer).

use crate::core::Viol;
use crate::wirecheck as wc;

#[derive(Default)]
pub struct SenderMon {
    pub iss: Option<u32>,
    pub own_syn_ws: Option<u8>,
    pub own_syn_seen: bool,
    pub peer_syn_mss: Option<Option<u16>>, // Some(None) = SYN seen without MSS option
    pub peer_syn_ws: Option<u8>,
    pub peer_syn_seen: bool,
    pub peer_syn_win: Option<u16>,
    pub max_edge: Option<u32>,
    /// right edge given by the segment delivered LAST (ACK number + window)
    pub last_edge: Option<u32>,
    /// highest acknowledgment number the peer has delivered to this endpoint
    pub max_ack: Option<u32>,
    pub highest_sent: Option<u32>,
    pub fin_seq: Option<u32>,
    pub segs: u64,
    pub data_segs: u64,
    pub retrans_segs: u64,
    pub probes: u64,
}

pub struct EmitCtx<'a> {
    pub who: &'a str,
    pub mtu: usize,
    /// bytes accepted by send() so far
    pub written: usize,
    /// close() has been called (after everything was written)
    pub closed: bool,
    /// the application's byte string (its first `written` bytes are in the stream)
    pub data: &'a [u8],
    pub rx_cap: usize,
    pub recv_queue_after: usize,
    pub only_frame_of_poll: bool,
    pub keep_alive: bool,
    pub expect_isn: Option<u32>,
    /// the device limits bursts (DeviceCapabilities::max_burst_size): the stack clamps the window
    /// it advertises, so the field may be SMALLER than the free space (never larger)
    pub window_clamped_by_device: bool,
    /// the peer's segments reach the socket in the order the peer made them and every one is
    /// acceptable (tcp1 sender mode without stale replays): NEW data must then lie within the
    /// window of the segment delivered last, not just within the highest edge ever given
    pub strict_latest_window: bool,
}

impl SenderMon {
    /// What the monitored endpoint learns from a segment its peer really sent to it.
    pub fn learn(&mut self, f: &[u8]) {
        let Ok(ip) = wc::parse_ip(f) else { return };
        if ip.proto != 6 {
            return;
        }
        let Ok(t) = wc::parse_tcp(&ip, f) else { return };
        self.learn_seg(&t);
    }
    pub fn learn_seg(&mut self, t: &wc::TcpInfo) {
        let m = self;
        if t.has(wc::TCP_RST) {
            return;
        }
        if t.has(wc::TCP_SYN) {
            m.peer_syn_seen = true;
            m.peer_syn_mss = Some(t.mss);
            m.peer_syn_ws = t.wscale;
            if !t.has(wc::TCP_ACK) {
                m.peer_syn_win = Some(t.win);
            }
        }
        if t.has(wc::TCP_ACK) {
            let shift = if t.has(wc::TCP_SYN) {
                0
            } else {
                match (m.own_syn_ws, m.peer_syn_ws) {
                    (Some(_), Some(s)) => s.min(14) as u32,
                    _ => 0,
                }
            };
            m.max_ack = Some(match m.max_ack {
                Some(a) if wc::seq_lt(t.ack, a) => a,
                _ => t.ack,
            });
            let edge = t.ack.wrapping_add((t.win as u32) << shift);
            m.last_edge = Some(edge);
            m.max_edge = Some(match m.max_edge {
                Some(e) if wc::seq_lt(edge, e) => e,
                _ => edge,
            });
        }
    }

    pub fn check_emit(&mut self, f: &[u8], c: &EmitCtx) -> Vec<Viol> {
        let who = c.who;
        let mut v: Vec<Viol> = vec![];
        let ip = match wc::parse_ip(f) {
            Ok(ip) => ip,
            Err(e) => {
                v.push(Viol::new("C10/malformed-ip/tcp", format!("{} emitted: {}", who, e)));
                return v;
            }
        };
        if ip.total_len > c.mtu {
            v.push(Viol::new("C05/exceeds-mtu", format!("{} emitted IP packet of {} bytes, MTU {}", who, ip.total_len, c.mtu)));
        }
        if ip.proto != 6 {
            return v;
        }
        let t = match wc::parse_tcp(&ip, f) {
            Ok(t) => t,
            Err(e) => {
                v.push(Viol::new("C10/malformed-tcp/tcp", format!("{} emitted: {}", who, e)));
                return v;
            }
        };
        if !t.checksum_ok {
            v.push(Viol::new("C08/emitted-bad-checksum/tcp", format!("{} emitted {}", who, wc::describe_ip_frame(f))));
        }
        let (written, closed, datalen) = (c.written, c.closed, c.data.len());
        let data = c.data;
        let rx_cap = c.rx_cap;
        let m = self;
        m.segs += 1;
        if t.has(wc::TCP_RST) {
            // resets carry no data and no window promise
            if !t.payload.is_empty() {
                v.push(Viol::new("C05/rst-with-payload", format!("{} emitted RST with {} bytes", who, t.payload.len())));
            }
            return v;
        }
        if t.has(wc::TCP_SYN) {
            match m.iss {
                None => m.iss = Some(t.seq),
                Some(i) if i != t.seq => {
                    v.push(Viol::new("C05/syn-seq-changed", format!("{} retransmitted SYN with seq {} (first was {})", who, t.seq, i)));
                }
                _ => {}
            }
            m.own_syn_seen = true;
            m.own_syn_ws = t.wscale;
            if let Some(isn) = c.expect_isn {
                if t.seq != isn {
                    v.push(Viol::new("MACHINERY/isn-not-as-requested", format!("{} SYN seq {} wanted {}", who, t.seq, isn)));
                }
            }
            // (f) SYN windows are unscaled: the field itself is the window, min(free, 65535)
            let free = rx_cap - c.recv_queue_after;
            let expect = free.min(65535) as u16;
            if c.only_frame_of_poll && t.win != expect && !(c.window_clamped_by_device && t.win < expect) {
                v.push(Viol::new(
                    "C05/syn-window-not-unscaled",
                    format!("{} SYN window field {} but free receive space is {} (expected {})", who, t.win, free, expect),
                ));
            }
            if !t.payload.is_empty() {
                v.push(Viol::new("C05/syn-with-payload", format!("{} SYN carries {} bytes", who, t.payload.len())));
            }
            m.highest_sent = Some(t.seq.wrapping_add(1));
            return v;
        }
        let Some(iss) = m.iss else {
            v.push(Viol::new("C05/segment-before-syn", format!("{} emitted {} before any SYN", who, wc::describe_ip_frame(f))));
            return v;
        };
        // (f) later windows are scaled as negotiated: scaling is in effect only if BOTH SYNs
        // carried the option (RFC 7323); the shift is the one this endpoint announced
        let shift = match (m.own_syn_ws, m.peer_syn_ws) {
            (Some(s), Some(_)) => s.min(14) as u32,
            _ => 0,
        };
        if ((t.win as usize) << shift) > rx_cap {
            v.push(Viol::new(
                "C05/window-exceeds-buffer",
                format!("{} advertises window {}<<{} = {} > receive buffer {}", who, t.win, shift, (t.win as usize) << shift, rx_cap),
            ));
        }
        if c.only_frame_of_poll && m.peer_syn_seen {
            let free = rx_cap - c.recv_queue_after;
            let expect = (free >> shift).min(65535) as u16;
            if t.win != expect && !(c.window_clamped_by_device && t.win < expect) {
                v.push(Viol::new(
                    "C05/window-not-scaled-as-negotiated",
                    format!("{} window field {} but free space {} >> shift {} = {}", who, t.win, free, shift, expect),
                ));
            }
        }
        let plen = t.payload.len() as u32;
        let rel = t.seq.wrapping_sub(iss.wrapping_add(1)); // offset of first payload byte in the stream
        let is_keepalive = c.keep_alive
            && t.payload.len() == 1
            && t.payload[0] == 0
            && m.highest_sent.map_or(false, |h| t.seq.wrapping_add(1) == h || wc::seq_lt(t.seq, h))
            // a keep-alive's garbage octet sits on a sequence number the peer has already
            // acknowledged; on an unacknowledged one it would be a retransmission with altered data
            && m.max_ack.map_or(false, |a| !wc::seq_lt(a, t.seq.wrapping_add(1)));
        if plen > 0 && !is_keepalive {
            m.data_segs += 1;
            // (a) payload equals the application's bytes for those sequence numbers
            let r = rel as usize;
            if (rel as i32) < 0 || r + t.payload.len() > written {
                v.push(Viol::new(
                    "C05/payload-outside-written-stream",
                    format!("{} sent stream offsets {}..{} but the application wrote only {} bytes", who, rel as i32, rel as i64 + plen as i64, written),
                ));
            } else if data[r..r + t.payload.len()] != t.payload[..] {
                v.push(Viol::new(
                    "C05/payload-altered",
                    format!("{} sent bytes at stream offset {} that differ from what the application wrote", who, r),
                ));
            }
            // (b) MSS (absent or zero => default 536; the documented lower clamp is 48)
            let peer_mss = match m.peer_syn_mss {
                Some(Some(0)) | Some(None) | None => 536usize,
                Some(Some(x)) => (x as usize).max(48),
            };
            if t.payload.len() > peer_mss {
                v.push(Viol::new(
                    "C05/exceeds-peer-mss",
                    format!("{} sent {} payload bytes, peer announced MSS {:?} (effective {})", who, t.payload.len(), m.peer_syn_mss, peer_mss),
                ));
            }
            // (c) window
            let mut edges: Vec<u32> = vec![];
            if let Some(e) = m.max_edge {
                edges.push(e);
            }
            if let Some(w) = m.peer_syn_win {
                edges.push(iss.wrapping_add(1).wrapping_add(w as u32));
            }
            let end = t.seq.wrapping_add(plen);
            if edges.is_empty() {
                v.push(Viol::new("C05/data-before-any-window", format!("{} sent data before learning any window", who)));
            } else {
                let edge = edges.iter().copied().fold(edges[0], |a, b| if wc::seq_lt(a, b) { b } else { a });
                let is_probe = plen == 1 && t.seq == edge;
                if is_probe {
                    m.probes += 1;
                } else if wc::seq_lt(edge, end) {
                    let retx = m.highest_sent.map_or(false, |h| wc::seq_lt(t.seq, h));
                    v.push(Viol::new(
                        format!("C05/beyond-window/{}", if retx { "retransmission" } else { "new-data" }),
                        format!(
                            "{} sent seq {}..{} (stream {}..{}) but the highest right edge it was ever given is {} (stream {}): {} bytes beyond the window",
                            who,
                            t.seq,
                            end,
                            rel,
                            rel.wrapping_add(plen),
                            edge,
                            edge.wrapping_sub(iss.wrapping_add(1)),
                            wc::seq_diff(end, edge)
                        ),
                    ));
                }
            }
            // (c') with an in-order peer: new data within the LATEST window
            if c.strict_latest_window {
                if let (Some(le), Some(h)) = (m.last_edge, m.highest_sent) {
                    let is_new = !wc::seq_lt(t.seq, h);
                    // a zero-window probe is one octet at SND.NXT, which lies AT or (after the
                    // peer shrank its window over data in flight) BEYOND the latest edge
                    let is_probe = plen == 1 && !wc::seq_lt(t.seq, le);
                    if !is_new && !is_probe && wc::seq_lt(le, end) {
                        // the peer's segments all arrived in order, so the window learned last is
                        // the only one in force: a retransmission (fast or timed) of octets the
                        // peer has meanwhile shrunk out of its window must stop at the new edge
                        v.push(Viol::new(
                            "C05/beyond-latest-window/retransmission",
                            format!("{} retransmitted seq {}..{} but the segment delivered last gave the right edge {} ({} bytes beyond; the peer shrank its window)", who, t.seq, end, le, wc::seq_diff(end, le)),
                        ));
                    }
                    if is_new && !is_probe && wc::seq_lt(le, end) {
                        v.push(Viol::new(
                            "C05/beyond-latest-window/new-data",
                            format!("{} sent new data seq {}..{} but the segment delivered last gave the right edge {} ({} bytes beyond)", who, t.seq, end, le, wc::seq_diff(end, le)),
                        ));
                    }
                }
            }
            // (d) contiguity of new data
            if let Some(h) = m.highest_sent {
                if wc::seq_lt(h, t.seq) {
                    v.push(Viol::new("C05/gap-in-new-data", format!("{} sent seq {} but highest sequence sent so far is {}", who, t.seq, h)));
                }
                if wc::seq_lt(t.seq, h) {
                    m.retrans_segs += 1;
                }
            }
        }
        // (e) FIN
        let seg_end = t.seq.wrapping_add(plen);
        if t.has(wc::TCP_FIN) {
            let expect = iss.wrapping_add(1).wrapping_add(datalen as u32);
            if !closed || written != datalen {
                v.push(Viol::new("C05/fin-before-close", format!("{} sent FIN although the application has not closed (written {}/{})", who, written, datalen)));
            } else if seg_end != expect {
                v.push(Viol::new(
                    "C05/fin-not-after-all-data",
                    format!("{} sent FIN at stream offset {} but {} bytes were written", who, seg_end.wrapping_sub(iss.wrapping_add(1)), datalen),
                ));
            }
            m.fin_seq = Some(seg_end);
        } else if let Some(fs) = m.fin_seq {
            if plen > 0 && !is_keepalive && wc::seq_lt(fs, seg_end) {
                v.push(Viol::new("C05/data-after-fin", format!("{} sent seq up to {} after FIN at {}", who, seg_end, fs)));
            }
        }
        if !is_keepalive {
            let new_high = seg_end.wrapping_add(t.has(wc::TCP_FIN) as u32);
            m.highest_sent = Some(match m.highest_sent {
                Some(h) if wc::seq_lt(new_high, h) => h,
                _ => new_high,
            });
        }
        v
    }
}
