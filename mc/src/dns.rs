//! C19 — "DNS answers are only taken from matching responses; queries terminate".
//!
//! Explicit-state BFS (core::bfs). A state is a choice history replayed on a fresh REAL
//! `Interface` (Medium::Ip, IPv4 + an IPv6 address) with one `dns::Socket`, 1..=DNS_MAX_SERVER_COUNT
//! configured servers and one or two concurrent queries. The explorer plays the servers, the
//! network (loss = not answering) and the clock (`Tick` = advance exactly to `Interface::poll_at`).
//! Responses are built from the query AS SEEN ON THE WIRE (own parser in dns/msg.rs) and deviate
//! from a good response in the dimensions of the statement (see `alphabet`).
//!
//! Oracle (demands no more than the statement):
//!  matching    - get_query_result -> Ok(addrs) only directly after delivery of a response that
//!                came from port 53 of a configured server or from port 5353 (any address: the
//!                statement says "or from the mDNS port", and `dns::Socket::accepts` matches mDNS
//!                responses by port only), to the query's source port, with the query's txid, with a
//!                question repeating a (name, type) that the query put on the wire (LENIENT: smoltcp
//!                re-asks with the CNAME target after a half-processed CNAME response, a response
//!                repeating THAT retransmitted question is taken as "repeating its question"; only a
//!                question that was never on the wire for this query is a violation); every returned
//!                address is the rdata of an A/AAAA record of that response whose owner is on the
//!                CNAME chain started at the queried name (chain edges may come from this or from
//!                earlier matching responses, in any order: lenient). Record family vs. query type
//!                is not demanded by the statement (AAAA records are returned for A queries): counted
//!                as an observation only. Failures (NXDOMAIN etc.) are not constrained by the
//!                statement's first sentence and are only counted.
//!  foreign     - "records for other names are ignored ...": a matching response that carries the
//!                wanted records completes the query with exactly the wanted addresses (in order, up
//!                to the result capacity) whatever records owned by an unrelated name stand before,
//!                between or after them: bounded-exhaustive sweep of small answer sections in
//!                dns/sweep.rs (C19/foreign-record/not-ignored/<position>); with no foreign record
//!                at all, and for the good responses used as controls (large, after an idle gap,
//!                after ARP / back-pressure is lifted), C19/good-response/not-completed/<kind>.
//!  API calls   - *-update-servers configurations: the application calls dns::Socket::update_servers
//!                (empty list / first server only / same list / a list with one different server) up
//!                to twice at any point of a pending query, then polls. Never a panic, the query still
//!                terminates within the bound (failure is fine); a response's source counts as a
//!                configured server if it is in the CURRENT list or was in the list in effect when a
//!                datagram of that query was sent (lenient; smoltcp checks the current list). The
//!                per-server timing clauses are not applied after an update (the server index stays
//!                while the list under it changes).
//!                On the unimpaired link a query that is pending but has no datagram on the wire after
//!                the poll that follows start_query is a verdict
//!                (termination/query-not-transmitted-by-the-poll-after-start_query).
//!  late polls  - "polled no later than poll_at" is not a premise of the timing clauses as far as
//!                lateness only delays things: in the *-late-poll configurations the explorer lets one
//!                (thorough: two) polls per history come 1 s or 3 s AFTER poll_at. A late poll may
//!                delay, never shorten, a server's window: the 10 s window clauses apply unchanged,
//!                the schedule comparisons allow each instant to be later by at most the lateness
//!                accumulated before it, the termination bound is extended by the total lateness.
//!  termination - while a query is pending `poll_at` is Some; polling exactly at `poll_at` every
//!                query reaches Ok/Failed within servers x (10 s + 10 s max back-off) + 1 s of
//!                simulated time; every poll returns (device-call budget + wall-clock watchdog) and
//!                nothing panics.
//!  timing      - per query on the wire: gaps between transmissions to one server never shrink
//!                (back-off) and the next server is first addressed >= 10 s after the previous one;
//!                a query is not failed by time-out earlier than 10 s after the FIRST transmission to
//!                the server it was last sent to; the send times towards server k, relative to the
//!                first transmission to it, repeat those towards the first server, and server k has
//!                received as many datagrams as the first one when the query leaves it by time.

pub mod msg;
pub mod sweep;
pub mod watch;

use crate::core::*;
use crate::sim::{hex, SimDevice, SimRx, SimTx};
use msg::*;
use serde_json::{json, Value};
use smoltcp::config::{DNS_MAX_NAME_SIZE, DNS_MAX_RESULT_COUNT, DNS_MAX_SERVER_COUNT};
use smoltcp::iface::{Config, Interface, SocketHandle, SocketSet};
use smoltcp::phy::{Device, DeviceCapabilities, Medium};
use smoltcp::socket::dns::{self, GetQueryResultError, QueryHandle};
use smoltcp::time::Instant;
use smoltcp::wire::{DnsQueryType, HardwareAddress, IpAddress, IpCidr};
use std::collections::{BTreeMap, BTreeSet, HashMap};
use std::panic::{catch_unwind, AssertUnwindSafe};
use std::sync::{Arc, Mutex, OnceLock};

const SEC: i64 = 1_000_000;
/// dns.rs: RETRANSMIT_TIMEOUT (per server) and MAX_RETRANSMIT_DELAY; the statement names the 10 s.
const PER_SERVER_S: i64 = 10;
const MAX_BACKOFF_S: i64 = 10;
const SLACK_S: i64 = 1;
const IFACE_IP: [u8; 4] = [10, 0, 0, 1];
const OTHER_IP: [u8; 4] = [10, 0, 0, 99];
const ALT_IP: [u8; 4] = [10, 0, 0, 60];
const GATEWAY_IP: [u8; 4] = [10, 0, 0, 254];
const IFACE_MAC: [u8; 6] = [2, 0, 0, 0, 0, 1];
/// one datagram must be able to carry the > 2 KiB responses of alphabet group g8
const MTU: usize = 4096;
fn mac_of(ip: [u8; 4]) -> [u8; 6] {
    [2, 0, 0, 0, 1, ip[3]]
}
const WATCHDOG_MSG: &str = "C19-watchdog: device call budget exceeded in one poll";
const DEV_BUDGET: u64 = 4000;
/// idle time (no poll) before a later start_query
const START_GAPS_MS: [u32; 6] = [0, 500, 5_000, 10_000, 11_000, 60_000];

// ---------------------------------------------------------------------------------------
// device with a call budget (a poll that keeps calling the device forever is a loop)
// ---------------------------------------------------------------------------------------

struct CountDev {
    inner: SimDevice,
    calls: u64,
}
impl CountDev {
    fn bump(&mut self) {
        self.calls += 1;
        if self.calls > DEV_BUDGET {
            panic!("{}", WATCHDOG_MSG);
        }
    }
}
impl Device for CountDev {
    type RxToken<'a> = SimRx;
    type TxToken<'a> = SimTx<'a>;
    fn capabilities(&self) -> DeviceCapabilities {
        self.inner.capabilities()
    }
    fn receive(&mut self, ts: Instant) -> Option<(SimRx, SimTx<'_>)> {
        self.bump();
        self.inner.receive(ts)
    }
    fn transmit(&mut self, ts: Instant) -> Option<SimTx<'_>> {
        self.bump();
        self.inner.transmit(ts)
    }
}

// ---------------------------------------------------------------------------------------
// configuration
// ---------------------------------------------------------------------------------------

/// Network impairment of a configuration.
#[derive(Clone, Copy, Debug, PartialEq, Eq)]
pub enum Net {
    /// Medium::Ip, every frame gets out (timing clauses apply)
    Ip,
    /// Medium::Ip, the device refuses `transmit()` from the start (tx_budget = Some(0)); the
    /// explorer lifts it (`Unblock`) once, at any point
    IpBackPressure,
    /// Medium::Ip, the device accepts frames at first; the explorer imposes back-pressure once
    /// (`Block`) and lifts it once (`Unblock`)
    IpBackPressureLater,
    /// Medium::Ethernet, servers on-link. ARP is answered only by the explorer event `ArpReply`,
    /// never before the given second; None = never answered
    EthOnLink(Option<u8>),
    /// Medium::Ethernet, servers off-link behind a default gateway whose ARP behaves as above
    EthGateway(Option<u8>),
}
#[derive(Clone, Copy, Debug, PartialEq, Eq)]
pub enum Alpha {
    Full,
    Reduced,
    /// a dozen responses (good, wrong txid, CNAME, NXDOMAIN, truncated, large): the impaired
    /// configurations are about the clock and the link, not about response content
    Mini,
}

pub struct CfgInner {
    label: String,
    net: Net,
    alpha: Alpha,
    /// queries after the first `n0` are started by the explorer at a later instant
    staggered: bool,
    n0: usize,
    /// number of LATE polls (1 s or 3 s beyond poll_at) the explorer may insert per history
    late_budget: u8,
    /// per query, on the unimpaired link: send instants and failure instant relative to its start
    /// when the query runs ALONE and unanswered on this tree, polled at poll_at
    alone: Vec<(Vec<i64>, i64)>,
    servers: Vec<[u8; 4]>,
    /// (name, qtype)
    queries: Vec<(String, u16)>,
    names: Vec<NameSet>,
    mdns: bool,
    thorough: bool,
    alphabet: Vec<Vec<RSpec>>,
    groups: BTreeMap<String, usize>,
    dbg: Arc<str>,
}
#[derive(Clone)]
pub struct DnsCfg(Arc<CfgInner>);
impl std::fmt::Debug for DnsCfg {
    fn fmt(&self, f: &mut std::fmt::Formatter<'_>) -> std::fmt::Result {
        f.write_str(&self.0.dbg)
    }
}

fn make_cfg(label: &str, n_servers: usize, queries: &[(&str, u16)], thorough: bool) -> DnsCfg {
    make_cfg_net(label, n_servers, queries, if thorough { Alpha::Full } else { Alpha::Reduced }, Net::Ip)
}

fn make_cfg_net(label: &str, n_servers: usize, queries: &[(&str, u16)], alpha: Alpha, net: Net) -> DnsCfg {
    make_cfg_full(label, n_servers, queries, alpha, net, false)
}

/// Reference for the per-query schedule clause: the same query run alone (no answers), RunOut.
fn run_alone(n_servers: usize, q: (&str, u16)) -> (Vec<i64>, i64) {
    let c = make_cfg_full("alone", n_servers, &[q], Alpha::Mini, Net::Ip, false);
    let mut h = DnsH::new(&c);
    let mut v = vec![];
    h.apply(&Ev::RunOut, &mut v);
    (h.qs[0].txlog.iter().map(|x| x.0).collect(), h.now)
}

fn make_cfg_full(label: &str, n_servers: usize, queries: &[(&str, u16)], alpha: Alpha, net: Net, staggered: bool) -> DnsCfg {
    let thorough = alpha == Alpha::Full;
    let servers: Vec<[u8; 4]> = (0..n_servers)
        .map(|i| if matches!(net, Net::EthGateway(_)) { [192, 0, 2, 53 + i as u8] } else { [10, 0, 0, 53 + i as u8] })
        .collect();
    let mdns = queries.iter().any(|(n, _)| n.ends_with(".local"));
    let mut names = vec![];
    for (i, (n, _)) in queries.iter().enumerate() {
        let q = name_from_str(n);
        let suffix = q.last().cloned().unwrap_or_default();
        let mk = |l: &str| -> Name { vec![l.as_bytes().to_vec(), suffix.clone()] };
        let mut o = mk("zz");
        if queries.len() == 2 {
            let other = name_from_str(queries[1 - i].0);
            if !name_eq(&other, &q) {
                o = other;
            }
        }
        let mut long: Name = (0..4).map(|k| vec![b'k' + k as u8; 63]).collect();
        long.push(suffix.clone());
        names.push(NameSet { q, o, t: mk("t"), u: mk("u"), v: mk("v"), long });
    }
    let late_budget: u8 = if label.contains("late-poll") { if label.contains("x2") { 2 } else { 1 } } else { 0 };
    let mut inner = CfgInner {
        label: label.to_string(),
        net,
        alpha,
        staggered,
        late_budget,
        n0: if staggered { queries.len() - 1 } else { queries.len() },
        alone: if net == Net::Ip && (queries.len() > 1 || staggered || late_budget > 0) { queries.iter().map(|q| run_alone(n_servers, *q)).collect() } else { vec![] },
        servers,
        queries: queries.iter().map(|(n, t)| (n.to_string(), *t)).collect(),
        names,
        mdns,
        thorough,
        alphabet: vec![],
        groups: BTreeMap::new(),
        dbg: Arc::from(""),
    };
    for qi in 0..queries.len() {
        let (a, g) = alphabet(&inner, qi);
        inner.alphabet.push(a);
        if qi == 0 {
            inner.groups = g;
        }
    }
    inner.dbg = Arc::from(format!(
        "DnsCfg {{ label: {:?}, net: {:?}, staggered: {}, late_polls: {}, servers: {}, queries: {:?}, alphabet: {:?}, thorough: {}, limits(srv,res,name): ({},{},{}) }}",
        inner.label,
        inner.net,
        inner.staggered,
        inner.late_budget,
        inner.servers.len(),
        inner.queries,
        inner.alphabet.iter().map(|a| a.len()).collect::<Vec<_>>(),
        thorough,
        DNS_MAX_SERVER_COUNT,
        DNS_MAX_RESULT_COUNT,
        DNS_MAX_NAME_SIZE
    ));
    DnsCfg(Arc::new(inner))
}

fn base_spec(ci: &CfgInner) -> RSpec {
    RSpec {
        src: if ci.mdns { Src::Other } else { Src::Srv(0) },
        sport: if ci.mdns { SPort::Mdns5353 } else { SPort::Dns53 },
        dport: Sel::Own,
        txid: Sel::Own,
        hdr: Hdr::Ok,
        q: QSec::Name(Nm::Q),
        ans: Ans::AFor(Nm::Q),
        enc: Enc::Back,
        cut: None,
        cnt: Cnt::Honest,
    }
}

/// The response alphabet for query `qi` (static per configuration: lengths do not depend on
/// txid/port). Returns the specs and the size of each group for the evidence.
fn alphabet(ci: &CfgInner, qi: usize) -> (Vec<RSpec>, BTreeMap<String, usize>) {
    let base = base_spec(ci);
    let mut v: Vec<RSpec> = vec![];
    let mut seen: BTreeSet<RSpec> = BTreeSet::new();
    let mut groups: BTreeMap<String, usize> = BTreeMap::new();
    let mut add = |g: &str, s: RSpec, v: &mut Vec<RSpec>| {
        if seen.insert(s) {
            v.push(s);
            *groups.entry(g.to_string()).or_insert(0) += 1;
        }
    };
    let qtype = ci.queries[qi].1;
    let len_of = |s: &RSpec| build_payload(&ci.names[qi], qtype, s, 0, DNS_MAX_RESULT_COUNT).len();

    if ci.alpha == Alpha::Mini {
        add("mini", base, &mut v);
        add("mini", RSpec { txid: Sel::Other, ..base }, &mut v);
        add("mini", RSpec { src: Src::Other, ..base }, &mut v);
        if ci.label.contains("update-servers") {
            // (only there: on Ethernet every further on-link source multiplies the ARP states)
            add("mini", RSpec { src: Src::Alt, ..base }, &mut v);
        }
        add("mini", RSpec { ans: Ans::Cname1In, ..base }, &mut v);
        add("mini", RSpec { ans: Ans::AFor(Nm::V), ..base }, &mut v);
        add("mini", RSpec { hdr: Hdr::NxDomain, ..base }, &mut v);
        let c1 = RSpec { ans: Ans::Cname1In, ..base };
        add("mini", RSpec { cut: Some(len_of(&c1) as u16 - 1), ..c1 }, &mut v);
        add("mini", RSpec { enc: Enc::SelfQ, ..base }, &mut v);
        add("mini", RSpec { ans: Ans::BigForeign, ..base }, &mut v);
        add("mini", RSpec { ans: Ans::BigCname, ..base }, &mut v);
        add("mini", RSpec { cnt: Cnt::Qd(0), enc: Enc::Plain, ..base }, &mut v);
        add("mini", RSpec { cnt: Cnt::Qd(2), ..base }, &mut v);
        return (v, groups);
    }
    // G1: matching dimensions (source address x source port x destination port x txid x question)
    let mut srcs: Vec<Src> = (0..ci.servers.len()).map(|i| Src::Srv(i as u8)).collect();
    srcs.push(Src::Other);
    let sports = [SPort::Dns53, SPort::Mdns5353, SPort::P1053];
    let sels = [Sel::Own, Sel::Other];
    let qs = [QSec::Name(Nm::Q), QSec::Name(Nm::O), QSec::OtherType, QSec::None];
    add("g0_good", base, &mut v);
    for &src in &srcs {
        for &sport in &sports {
            for &dport in &sels {
                for &txid in &sels {
                    for &q in &qs {
                        let s = RSpec { src, sport, dport, txid, q, ..base };
                        let dev = (src != base.src) as u32
                            + (sport != base.sport) as u32
                            + (dport != base.dport) as u32
                            + (txid != base.txid) as u32
                            + (q != base.q) as u32;
                        if ci.thorough || dev <= 2 {
                            add("g1_match_dims", s, &mut v);
                        }
                    }
                }
            }
        }
    }
    // G2: answer sections, compressed and uncompressed
    let all_ans = [
        Ans::AFor(Nm::Q),
        Ans::AFor(Nm::V),
        Ans::OtherThenName,
        Ans::Cname1In,
        Ans::Cname1Out,
        Ans::Cname2In,
        Ans::Cname2Out,
        Ans::Cname2Mixed,
        Ans::CnameDangling,
        Ans::CnameUnrelated,
        Ans::AThenCname,
        Ans::ManyA,
        Ans::WrongFamily,
        Ans::Empty,
        Ans::CnameTooLong,
    ];
    for &ans in &all_ans {
        for enc in [Enc::Back, Enc::Plain] {
            add("g2_answers", RSpec { ans, enc, ..base }, &mut v);
        }
    }
    // G3: header deviations
    for hdr in [Hdr::NxDomain, Hdr::ServFail, Hdr::Tc, Hdr::NotResponse, Hdr::OpStatus] {
        add("g3_header", RSpec { hdr, ..base }, &mut v);
    }
    add("g3_header", RSpec { hdr: Hdr::ServFail, ans: Ans::Empty, ..base }, &mut v);
    add("g3_header", RSpec { hdr: Hdr::NxDomain, q: QSec::Name(Nm::O), ..base }, &mut v);
    add("g3_header", RSpec { hdr: Hdr::NxDomain, q: QSec::None, ..base }, &mut v);
    add("g3_header", RSpec { hdr: Hdr::NxDomain, txid: Sel::Other, ..base }, &mut v);
    add("g3_header", RSpec { hdr: Hdr::NxDomain, dport: Sel::Other, ..base }, &mut v);
    add("g3_header", RSpec { q: QSec::Two, ..base }, &mut v);
    // G4: forward / self / loop pointers
    for enc in [Enc::FwdQ, Enc::SelfQ, Enc::SelfOwner, Enc::Loop2] {
        add("g4_pointers", RSpec { enc, ..base }, &mut v);
        add("g4_pointers", RSpec { enc, ans: Ans::Cname1In, ..base }, &mut v);
    }
    add("g4_pointers", RSpec { enc: Enc::SelfRdata, ans: Ans::Cname1In, ..base }, &mut v);
    add("g4_pointers", RSpec { enc: Enc::SelfRdata, ans: Ans::CnameDangling, ..base }, &mut v);
    // G5: every truncation of two good responses
    for ans in [Ans::AFor(Nm::Q), Ans::Cname1In] {
        let s = RSpec { ans, ..base };
        for cut in 0..len_of(&s) {
            add("g5_truncations", RSpec { cut: Some(cut as u16), ..s }, &mut v);
        }
    }
    // G6: responses whose question is a CNAME target (never asked unless smoltcp re-asks)
    for ans in [Ans::AFor(Nm::T), Ans::ChainFromT, Ans::AFor(Nm::Q), Ans::AFor(Nm::U)] {
        add("g6_question_is_cname_target", RSpec { q: QSec::Name(Nm::T), ans, ..base }, &mut v);
    }
    add("g6_question_is_cname_target", RSpec { q: QSec::Name(Nm::U), ans: Ans::AFor(Nm::U), ..base }, &mut v);
    add(
        "g6_question_is_cname_target",
        RSpec { q: QSec::Name(Nm::T), ans: Ans::AFor(Nm::T), sport: SPort::Mdns5353, src: Src::Other, ..base },
        &mut v,
    );
    // G7: a pointer at a name position to every offset of a small response
    for (ans, poss) in [
        (Ans::Cname1In, &[Pos::QName, Pos::Owner0, Pos::Rdata0, Pos::Owner1][..]),
        (Ans::AFor(Nm::Q), &[Pos::QName, Pos::Owner0][..]),
    ] {
        let s = RSpec { ans, ..base };
        let len = len_of(&s) as u16;
        for &p in poss {
            let offs: Vec<u16> = if ci.thorough {
                (0..=len).chain([0x3fff]).collect()
            } else {
                // header start, question name, its 2nd label, the answer area, last octet, one past
                // the end, maximum
                let mut o = vec![0, 2, 12, 12 + 1 + ci.names[qi].q[0].len() as u16, len / 2, len - 1, len, 0x3fff];
                if ans != Ans::Cname1In {
                    o.truncate(4);
                }
                o
            };
            for off in offs {
                add("g7_pointer_to_every_offset", RSpec { enc: Enc::PtrAt(p, off), ..s }, &mut v);
            }
        }
    }
    g8_large(&base, &len_of, &mut |s| add("g8_large_responses_pointers_beyond_0x400", s, &mut v));
    // G9: header counts that disagree with the body. A query may only complete from a response
    // with QDCOUNT = 1 whose one question matches.
    for ans in [Ans::AFor(Nm::Q), Ans::Cname1In] {
        for enc in [Enc::Back, Enc::Plain] {
            for cnt in [Cnt::Qd(0), Cnt::Qd(2), Cnt::Qd(0xffff), Cnt::An0, Cnt::AnMore] {
                add("g9_header_counts", RSpec { ans, enc, cnt, ..base }, &mut v);
            }
            // the question really removed: answers directly after the header, owner = queried name
            for cnt in [Cnt::Honest, Cnt::Qd(1), Cnt::An0] {
                add("g9_header_counts", RSpec { ans, enc, cnt, q: QSec::None, ..base }, &mut v);
            }
        }
    }
    (v, groups)
}

/// G8: responses larger than 1 KiB / 2 KiB (one datagram; the device MTU is 4096) whose names sit
/// beyond offset 0x400 and are referred to by 14-bit compression pointers: three address records
/// for foreign names only (nothing may be returned), a GOOD CNAME chain whose target name is
/// stored beyond 0x400 (must be usable), and the last owner name replaced by pointers around
/// 0x3ff/0x400/0x7ff/0x800/0x3fff (0x00c = the question name: a good answer).
fn g8_large(base: &RSpec, len_of: &dyn Fn(&RSpec) -> usize, add: &mut dyn FnMut(RSpec)) {
    let bf = RSpec { ans: Ans::BigForeign, ..*base };
    let bc = RSpec { ans: Ans::BigCname, ..*base };
    add(bf);
    add(bc);
    let lf = len_of(&bf) as u16;
    for off in [0x00c, 0x3ff, 0x400, 0x40c, 0x40d, 0x7ff, 0x800, 0x80c, lf - 1, lf, 0x3fff] {
        add(RSpec { enc: Enc::PtrAt(Pos::OwnerLast, off), ..bf });
    }
    let lc = len_of(&bc) as u16;
    for off in [0x00c, 0x3ff, 0x400, 0x7ff, lc, 0x3fff] {
        add(RSpec { enc: Enc::PtrAt(Pos::OwnerLast, off), ..bc });
    }
}

/// (configuration, BFS depth). Quick: reduced alphabet, depth 6 (4 for two queries). Thorough: the
/// full alphabet (full product of the matching dimensions, a pointer to EVERY offset) and the
/// reduced alphabet, every configuration to its fixpoint (depth bound 24 is never reached on the
/// unchanged tree) under the state cap explained in `run`.
fn configs(tier: Tier) -> Vec<(DnsCfg, usize)> {
    let ns = DNS_MAX_SERVER_COUNT.min(2);
    let a = ("ab.c", T_A);
    let mut v = vec![];
    if tier == Tier::Quick {
        v.push((make_cfg("1q-A/reduced", ns, &[a], false), 6));
        v.push((make_cfg("1q-AAAA/reduced", ns, &[("ab.c", T_AAAA)], false), 6));
        v.push((make_cfg("2q-A+A/reduced", ns, &[a, ("de.c", T_A)], false), 4));
        v.push((make_cfg("1q-mdns-A/reduced", ns, &[("ab.local", T_A)], false), 6));
        if ns > 1 {
            // also the single-server case under the `small` build
            v.push((make_cfg("1q-A-1srv/reduced", 1, &[a], false), 6));
        }
        v.push((make_cfg_net("bp-ip-1q-A/mini", ns, &[a], Alpha::Mini, Net::IpBackPressure), 14));
        v.push((make_cfg_net("eth-onlink-arp-never/mini", ns, &[a], Alpha::Mini, Net::EthOnLink(None)), 14));
        v.push((make_cfg_net("eth-gw-arp-never/mini", ns, &[a], Alpha::Mini, Net::EthGateway(None)), 14));
        v.push((make_cfg_net("eth-onlink-arp-after-3s/mini", ns, &[a], Alpha::Mini, Net::EthOnLink(Some(3))), 14));
        v.push((make_cfg_net("bp-later-ip-1q-A/mini", ns, &[a], Alpha::Mini, Net::IpBackPressureLater), 8));
        v.push((make_cfg_full("2q-staggered-A+A/mini", ns, &[a, ("de.c", T_A)], Alpha::Mini, Net::Ip, true), 8));
        if ns > 1 {
            v.push((make_cfg_full("2q-staggered-A+A-1srv/mini", 1, &[a, ("de.c", T_A)], Alpha::Mini, Net::Ip, true), 8));
        }
        // the application replaces the server list (update_servers) under the pending query, up to
        // twice per history
        v.push((make_cfg_full("1q-update-servers-A/mini", ns, &[a], Alpha::Mini, Net::Ip, false), 8));
        // one poll per history comes 1 s or 3 s AFTER poll_at (a late poll may delay, never shorten,
        // a server's window); the mDNS walk (IPv6 group, then IPv4 group) is a two-server walk in
        // the default build too
        v.push((make_cfg_full("1q-late-poll-A/mini", ns, &[a], Alpha::Mini, Net::Ip, false), 8));
        v.push((make_cfg_full("1q-mdns-late-poll-A/mini", ns, &[("ab.local", T_A)], Alpha::Mini, Net::Ip, false), 8));
        // the interface sits idle (no poll) for 0 / 0.5 / 5 / 10 / 11 / 60 s before start_query
        v.push((make_cfg_full("1q-idle-gap-A/mini", ns, &[a], Alpha::Mini, Net::Ip, true), 8));
        if ns > 1 {
            v.push((make_cfg_full("1q-idle-gap-A-1srv/mini", 1, &[a], Alpha::Mini, Net::Ip, true), 8));
        }
    } else {
        v.push((make_cfg_full("2q-staggered-A+A/mini", ns, &[a, ("de.c", T_A)], Alpha::Mini, Net::Ip, true), 48));
        v.push((make_cfg_full("2q-staggered-A+A/reduced", ns, &[a, ("de.c", T_A)], Alpha::Reduced, Net::Ip, true), 5));
        v.push((make_cfg_full("1q-idle-gap-A/mini", ns, &[a], Alpha::Mini, Net::Ip, true), 48));
        v.push((make_cfg_full("1q-update-servers-A/mini", ns, &[a], Alpha::Mini, Net::Ip, false), 48));
        v.push((make_cfg_full("2q-update-servers-A+A/mini", ns, &[a, ("de.c", T_A)], Alpha::Mini, Net::Ip, false), 48));
        v.push((make_cfg_full("1q-late-poll-x2-A/mini", ns, &[a], Alpha::Mini, Net::Ip, false), 48));
        v.push((make_cfg_full("1q-mdns-late-poll-x2-A/mini", ns, &[("ab.local", T_A)], Alpha::Mini, Net::Ip, false), 48));
        v.push((make_cfg_full("2q-late-poll-A+A/mini", ns, &[a, ("de.c", T_A)], Alpha::Mini, Net::Ip, false), 48));
        v.push((make_cfg_full("2q-staggered-late-poll-A+A/mini", ns, &[a, ("de.c", T_A)], Alpha::Mini, Net::Ip, true), 48));
        v.push((make_cfg_full("1q-idle-gap-A/reduced", ns, &[a], Alpha::Reduced, Net::Ip, true), 5));
        if ns > 1 {
            v.push((make_cfg_full("1q-idle-gap-A-1srv/mini", 1, &[a], Alpha::Mini, Net::Ip, true), 48));
        }
        if ns > 1 {
            v.push((make_cfg_full("2q-staggered-A+A-1srv/mini", 1, &[a, ("de.c", T_A)], Alpha::Mini, Net::Ip, true), 48));
        }
        // impaired links: to the fixpoint (every tick is 1 s while ARP is outstanding / the device
        // refuses, so the reachable space is as deep as the 11 s / 22 s until failure)
        v.push((make_cfg_net("bp-ip-1q-A/mini", ns, &[a], Alpha::Mini, Net::IpBackPressure), 48));
        v.push((make_cfg_net("bp-ip-2q-A+A/mini", ns, &[a, ("de.c", T_A)], Alpha::Mini, Net::IpBackPressure), 48));
        v.push((make_cfg_net("eth-onlink-arp-never/mini", ns, &[a], Alpha::Mini, Net::EthOnLink(None)), 48));
        v.push((make_cfg_net("eth-gw-arp-never/mini", ns, &[a], Alpha::Mini, Net::EthGateway(None)), 48));
        v.push((make_cfg_net("eth-onlink-arp-after-3s/mini", ns, &[a], Alpha::Mini, Net::EthOnLink(Some(3))), 48));
        v.push((make_cfg_net("eth-gw-arp-after-3s/mini", ns, &[a], Alpha::Mini, Net::EthGateway(Some(3))), 48));
        v.push((make_cfg_net("eth-onlink-arp-any-time/mini", ns, &[a], Alpha::Mini, Net::EthOnLink(Some(0))), 48));
        v.push((make_cfg_net("eth-onlink-arp-any-time/reduced", ns, &[a], Alpha::Reduced, Net::EthOnLink(Some(0))), 5));
        v.push((make_cfg_net("bp-later-ip-1q-A/mini", ns, &[a], Alpha::Mini, Net::IpBackPressureLater), 48));
        v.push((make_cfg_net("eth-onlink-arp-never-2q/mini", ns, &[a, ("de.c", T_A)], Alpha::Mini, Net::EthOnLink(None)), 48));
        v.push((make_cfg("1q-A/full", ns, &[a], true), 24));
        v.push((make_cfg("1q-AAAA/full", ns, &[("ab.c", T_AAAA)], true), 24));
        v.push((make_cfg("2q-A+A/full", ns, &[a, ("de.c", T_A)], true), 24));
        v.push((make_cfg("2q-A+AAAA-same-name/full", ns, &[a, ("ab.c", T_AAAA)], true), 24));
        v.push((make_cfg("1q-mdns-A/full", ns, &[("ab.local", T_A)], true), 24));
        v.push((make_cfg("1q-A/reduced", ns, &[a], false), 24));
        v.push((make_cfg("1q-mdns-A/reduced", ns, &[("ab.local", T_A)], false), 24));
        v.push((make_cfg("2q-A+A/reduced", ns, &[a, ("de.c", T_A)], false), 24));
        if ns > 1 {
            v.push((make_cfg("1q-A-1srv/full", 1, &[a], true), 24));
            v.push((make_cfg("1q-A-1srv/reduced", 1, &[a], false), 24));
        }
    }
    v
}

// ---------------------------------------------------------------------------------------
// harness
// ---------------------------------------------------------------------------------------

#[derive(Clone, Copy, Debug, PartialEq, Eq, Hash)]
pub enum Ev {
    /// advance the clock to Interface::poll_at and poll
    Tick,
    /// a LATE poll: the clock moves this many ms beyond Interface::poll_at before the poll
    TickLate(u32),
    /// the application calls dns::Socket::update_servers (0 = empty list, 1 = the first server only,
    /// 2 = the same list again, 3 = a list with one different server), then polls
    UpdateServers(u8),
    /// no more responses: tick until every query has a result (terminal)
    RunOut,
    /// deliver a response built from query n's data as seen on the wire
    Resp(u8, RSpec),
    /// (Ethernet) answer the outstanding ARP request for this address
    ArpReply([u8; 4]),
    /// (back-pressure) the device accepts frames again / refuses them again
    Unblock,
    Block,
    /// (staggered / idle-gap configurations) the clock advances by this many milliseconds WITHOUT a
    /// poll (only allowed while no poll is due before), then the application starts the next
    /// not-yet-started query and polls
    StartNext(u32),
}

#[derive(Clone, Debug, PartialEq, Eq)]
enum Status {
    /// (staggered configurations) start_query not called yet
    NotStarted,
    Pending,
    Ok(Vec<String>),
    Failed,
}

struct QModel {
    orig: Name,
    qtype: u16,
    handle: Option<QueryHandle>,
    status: Status,
    started: i64,
    deadline: i64,
    port: u16,
    /// distinct (txid, question) seen on the wire for this query
    wire: Vec<(u16, Option<(Name, u16)>)>,
    /// CNAME edges learnt from matching responses (lower-cased)
    edges: BTreeSet<(Name, Name)>,
    // timing model
    cur_dst: Vec<u8>,
    cur_dst_first: i64,
    last_tx: i64,
    last_gap: i64,
    /// per server (in order of first use): send times relative to the first transmission to it
    sched: Vec<Vec<(i64, i64)>>,
    /// total lateness (us) of late polls since the query's start / since the first datagram to the
    /// current server: a poll d after poll_at may delay everything after it by up to d, never
    /// make anything happen earlier
    late_q: i64,
    late_srv: i64,
    /// union of the server lists in effect whenever a datagram of this query was sent
    srv_seen: BTreeSet<[u8; 4]>,
    /// evidence only (not part of the fingerprint)
    txlog: Vec<(i64, String)>,
}

pub struct Msg {
    src: [u8; 4],
    sport: u16,
    dport: u16,
    payload: Vec<u8>,
}

pub struct DnsH {
    cfg: DnsCfg,
    dev: CountDev,
    iface: Interface,
    sockets: SocketSet<'static>,
    h: SocketHandle,
    now: i64,
    next_poll: Option<i64>,
    qs: Vec<QModel>,
    evs: Vec<Ev>,
    key: u128,
    dead: bool,
    /// evidence: what the last applied event did
    last_class: u8,
    notes: Vec<String>,
    /// (Ethernet) addresses smoltcp has sent ARP requests for / that the explorer has answered
    arp_asked: BTreeSet<[u8; 4]>,
    arp_answered: BTreeSet<[u8; 4]>,
    /// (back-pressure) device currently refuses transmit()
    blocked: bool,
    was_blocked: bool,
    /// evidence only
    n_arp: u64,
    /// late polls still allowed in this history / lateness of the poll being executed
    late_left: u8,
    poll_late: i64,
    /// server list currently installed in the socket / update_servers calls still allowed / made
    servers_now: Vec<[u8; 4]>,
    updates_left: u8,
    updates_done: u8,
}

// transition classes (evidence)
const C_TICK: u8 = 0;
const C_RUNOUT: u8 = 1;
const C_RESP_NOT_FOR_SOCKET: u8 = 2;
const C_RESP_NO_VERDICT: u8 = 3;
const C_RESP_COMPLETED: u8 = 4;
const C_RESP_FAILED: u8 = 5;
const C_DEAD: u8 = 6;
const C_LINK: u8 = 7;
const CLASS_NAMES: [&str; 8] = [
    "tick",
    "run_out",
    "response_refused_by_accepts(icmp_unreachable)",
    "response_processed_query_still_pending",
    "response_completed_a_query",
    "response_failed_a_query",
    "panic_or_watchdog",
    "link_or_application_event(arp_reply/unblock/block/start_query)",
];

struct Shards<V> {
    s: Vec<Mutex<HashMap<u128, V>>>,
}
impl<V: Clone> Shards<V> {
    fn new() -> Self {
        Shards { s: (0..64).map(|_| Mutex::new(HashMap::new())).collect() }
    }
    fn put(&self, k: u128, v: V) {
        self.s[(k as usize) & 63].lock().unwrap().entry(k).or_insert(v);
    }
    fn drain(&self) -> Vec<V> {
        let mut out = vec![];
        for m in &self.s {
            out.extend(m.lock().unwrap().drain().map(|(_, v)| v));
        }
        out
    }
}
struct Globals {
    classes: Shards<u8>,
    outcomes: Shards<String>,
    /// observation name -> history key set (distinct transitions)
    obs: Mutex<BTreeMap<String, BTreeSet<u128>>>,
    obs_sample: Mutex<BTreeMap<String, ((usize, u128), String)>>,
    mach: Mutex<Vec<String>>,
}
fn globals() -> &'static Globals {
    static G: OnceLock<Globals> = OnceLock::new();
    G.get_or_init(|| Globals {
        classes: Shards::new(),
        outcomes: Shards::new(),
        obs: Mutex::new(BTreeMap::new()),
        obs_sample: Mutex::new(BTreeMap::new()),
        mach: Mutex::new(vec![]),
    })
}

fn qtype_of(t: u16) -> DnsQueryType {
    if t == T_AAAA {
        DnsQueryType::Aaaa
    } else {
        DnsQueryType::A
    }
}

fn ip_bytes(a: &IpAddress) -> Vec<u8> {
    match a {
        IpAddress::Ipv4(x) => x.octets().to_vec(),
        IpAddress::Ipv6(x) => x.octets().to_vec(),
    }
}

impl DnsH {
    fn ci(&self) -> &CfgInner {
        &self.cfg.0
    }

    fn observe(&self, what: &str, sample: impl FnOnce() -> String) {
        let g = globals();
        let mut o = g.obs.lock().unwrap();
        o.entry(what.to_string()).or_default().insert(self.key);
        // deterministic sample: the one with the smallest (history length, history key)
        let rank = (self.evs.len(), self.key);
        let mut smp = g.obs_sample.lock().unwrap();
        match smp.get(what) {
            Some((r, _)) if *r <= rank => {}
            _ => {
                smp.insert(what.to_string(), (rank, sample()));
            }
        }
    }

    /// The response the spec denotes in the current state.
    pub fn build(&self, qi: usize, spec: &RSpec) -> Msg {
        let ci = self.ci();
        let q = &self.qs[qi];
        let own_txid = q.wire.first().map(|w| w.0).unwrap_or(0);
        let (oport, otxid) = if self.qs.len() == 2 {
            let o = &self.qs[1 - qi];
            (o.port, o.wire.first().map(|w| w.0).unwrap_or(0))
        } else {
            (if q.port == 65535 { q.port - 1 } else { q.port + 1 }, own_txid.wrapping_add(1))
        };
        let txid = if spec.txid == Sel::Own { own_txid } else { otxid };
        let dport = if spec.dport == Sel::Own { q.port } else { oport };
        let src = match spec.src {
            Src::Srv(i) => ci.servers[i as usize],
            Src::Other => OTHER_IP,
            Src::Alt => ALT_IP,
        };
        let sport = match spec.sport {
            SPort::Dns53 => 53,
            SPort::Mdns5353 => 5353,
            SPort::P1053 => 1053,
        };
        Msg { src, sport, dport, payload: build_payload(&ci.names[qi], q.qtype, spec, txid, DNS_MAX_RESULT_COUNT) }
    }

    fn fail(&mut self, out: &mut Vec<Viol>, sig: &str, detail: String) {
        // The timing clauses (back-off schedule, 10 s window per server measured from the first
        // datagram to it) presuppose that every datagram gets out when smoltcp wants to send it.
        // With unanswered ARP or a refusing device the first datagram to a server leaves late or
        // never while the server's 10 s window runs from the first ATTEMPT (dns.rs dispatch arms
        // timeout_at before emit), so only the termination and matching clauses apply there.
        if sig.starts_with("timing/") && self.ci().net != Net::Ip {
            return;
        }
        // update_servers() replaces the list under the pending queries while their server index and
        // timers stay: the per-server walk the timing clauses describe no longer exists (the same
        // index can mean another address mid-window). Termination, matching and no-panic still apply.
        if sig.starts_with("timing/") && self.updates_done > 0 {
            return;
        }
        out.push(Viol::new(format!("C19/{}", sig), detail));
    }

    /// The link impairment is part of the cause of an unbounded wait.
    fn bound_sig(&self) -> String {
        match self.ci().net {
            Net::Ip => "termination/pending-beyond-bound".into(),
            Net::IpBackPressure | Net::IpBackPressureLater => "termination/pending-beyond-bound/device-back-pressure".into(),
            Net::EthOnLink(_) | Net::EthGateway(_) => "termination/pending-beyond-bound/ethernet-arp".into(),
        }
    }

    fn eth(&self) -> bool {
        matches!(self.ci().net, Net::EthOnLink(_) | Net::EthGateway(_))
    }

    /// Frame a stimulus IPv4 packet for the medium. Off-link sources arrive from the gateway's MAC.
    fn l2(&self, src_ip: [u8; 4], ip: Vec<u8>) -> Vec<u8> {
        if !self.eth() {
            return ip;
        }
        let src_mac = if src_ip[..3] == IFACE_IP[..3] { mac_of(src_ip) } else { mac_of(GATEWAY_IP) };
        let mut f = Vec::with_capacity(14 + ip.len());
        f.extend_from_slice(&IFACE_MAC);
        f.extend_from_slice(&src_mac);
        f.extend_from_slice(&[0x08, 0x00]);
        f.extend_from_slice(&ip);
        f
    }

    /// One `Interface::poll` under panic capture and device-call budget.
    fn poll_once(&mut self, out: &mut Vec<Viol>, ctx: &str) -> Option<Vec<(i64, Vec<u8>)>> {
        self.dev.calls = 0;
        let now = Instant::from_micros(self.now);
        let (iface, dev, sockets) = (&mut self.iface, &mut self.dev, &mut self.sockets);
        let r = catch_unwind(AssertUnwindSafe(|| {
            iface.poll(now, dev, sockets);
        }));
        match r {
            Ok(()) => Some(self.dev.inner.take_tx()),
            Err(e) => {
                let m = panic_msg(e);
                self.dead = true;
                if m.contains("C19-watchdog") {
                    self.fail(out, "termination/poll-spins-on-device", format!("one Interface::poll made more than {} device calls ({})", DEV_BUDGET, ctx));
                } else {
                    let site = panic_site();
                    self.fail(out, &format!("panic/{}", site), format!("panic in Interface::poll: {} at {} ({})", m, last_panic_loc(), ctx));
                }
                None
            }
        }
    }

    /// Poll to quiescence at the current time, feed the wire model. Returns (#dns queries seen,
    /// #icmp frames seen) or None if dead.
    fn settle(&mut self, out: &mut Vec<Viol>, ctx: &str) -> Option<(usize, usize)> {
        let mut nq = 0;
        let mut nicmp = 0;
        let mut narp = 0;
        let mut round = 0;
        loop {
            let tx = self.poll_once(out, ctx)?;
            if tx.is_empty() && self.dev.inner.rx.is_empty() {
                break;
            }
            for (ts, f) in tx {
                let f: Vec<u8> = if self.eth() {
                    if f.len() < 14 {
                        globals().mach.lock().unwrap().push(format!("runt ethernet frame: {}", hex(&f)));
                        continue;
                    }
                    if f[12..14] == [0x08, 0x06] {
                        // ARP (RFC 826): oper at 20..22, target protocol address at 38..42
                        if f.len() >= 42 && f[20..22] == [0, 1] {
                            let mut t = [0u8; 4];
                            t.copy_from_slice(&f[38..42]);
                            self.arp_asked.insert(t);
                            self.n_arp += 1;
                            narp += 1;
                        }
                        continue;
                    }
                    f[14..].to_vec()
                } else {
                    f
                };
                match parse_tx(&f) {
                    TxFrame::Icmp => nicmp += 1,
                    TxFrame::Other => globals().mach.lock().unwrap().push(format!("unexpected frame on the wire: {}", hex(&f))),
                    q @ TxFrame::Query { .. } => {
                        nq += 1;
                        self.on_query(ts, q, out);
                    }
                }
            }
            round += 1;
            if round > 16 {
                self.dead = true;
                self.fail(out, "termination/egress-never-quiesces", format!("17 consecutive polls at the same instant all emitted frames ({})", ctx));
                return None;
            }
        }
        let now = Instant::from_micros(self.now);
        let (iface, sockets) = (&mut self.iface, &self.sockets);
        match catch_unwind(AssertUnwindSafe(|| iface.poll_at(now, sockets))) {
            Ok(p) => self.next_poll = p.map(|i| i.total_micros()),
            Err(e) => {
                self.dead = true;
                let m = panic_msg(e);
                self.fail(out, &format!("panic/{}", panic_site()), format!("panic in poll_at: {} at {}", m, last_panic_loc()));
                return None;
            }
        }
        Some((nq + narp, nicmp))
    }

    fn on_query(&mut self, ts: i64, q: TxFrame, out: &mut Vec<Viol>) {
        let TxFrame::Query { dst, sport, dport, txid, question, qraw, .. } = q else { return };
        // attribute to a query: known port, else the first query without a port (slot order)
        let k = match self.qs.iter().position(|m| m.port == sport && !m.wire.is_empty()) {
            Some(k) => k,
            None => match self.qs.iter().position(|m| m.wire.is_empty()) {
                Some(k) => {
                    self.qs[k].port = sport;
                    k
                }
                None => {
                    globals().mach.lock().unwrap().push(format!("query from unknown source port {} on the wire", sport));
                    return;
                }
            },
        };
        let cfg = self.cfg.clone();
        let poll_late = self.poll_late;
        let mdns = self.ci().mdns;
        let expected_dport = if mdns { 5353 } else { 53 };
        if dport != expected_dport {
            self.observe("query_to_unexpected_port", || format!("dport {}", dport));
        }
        if question.is_none() {
            self.observe("malformed_question_emitted_on_wire", || format!("question bytes {}", hex(&qraw)));
        }
        let servers_now = self.servers_now.clone();
        let m = &mut self.qs[k];
        m.srv_seen.extend(servers_now);
        let w = (txid, question);
        if !m.wire.contains(&w) {
            m.wire.push(w);
        }
        let mut viol: Option<(&str, String)> = None;
        if m.cur_dst == dst {
            let gap = ts - m.last_tx;
            if gap < m.last_gap {
                viol = Some(("timing/backoff-gap-shrinks", format!("query {}: gap {} us after a (scheduled) gap of at least {} us to the same server", k, gap, m.last_gap)));
            }
            // lower bound of the delay smoltcp scheduled: the observed gap minus the lateness of the
            // poll that sent this datagram
            m.last_gap = (gap - poll_late).max(0);
            let rel = ts - m.cur_dst_first;
            let slack = m.late_srv;
            if let Some(cur) = m.sched.last_mut() {
                cur.push((rel, slack));
            }
        } else {
            if !m.cur_dst.is_empty() && ts - m.cur_dst_first < PER_SERVER_S * SEC {
                viol = Some(("timing/failover-before-10s", format!("query {}: next server first addressed {} us after the previous one", k, ts - m.cur_dst_first)));
            }
            // the server being left (if it is not the first one) must have been sent as many
            // datagrams as the first one
            if viol.is_none() {
                viol = Self::schedule_short(m, k, "moving to the next server");
            }
            // "moving to the next server after 10 s": a query starts with the first configured server
            if viol.is_none() && m.cur_dst.is_empty() && !mdns && dst[..] != cfg.0.servers[0][..] {
                viol = Some((
                    "timing/first-server-skipped",
                    format!("query {} (started at {} us): its first datagram (t={} us) goes to {:?}, not to the first configured server {:?}", k, m.started, ts, dst, cfg.0.servers[0]),
                ));
            }
            m.cur_dst = dst.clone();
            m.cur_dst_first = ts;
            m.last_gap = 0;
            m.late_srv = 0;
            m.sched.push(vec![(0, 0)]);
        }
        // "retransmitting with back-off ... moving to the next server": the schedule towards server
        // k repeats the schedule towards the first server (same relative send times; on the
        // unchanged tree 0, 1, 3, 7 s when polled exactly at poll_at). Only entries the first
        // server also has are compared (lenient).
        if viol.is_none() && m.sched.len() >= 2 {
            let s = m.sched.len() - 1;
            let i = m.sched[s].len() - 1;
            if let Some(&(want, wslack)) = m.sched[0].get(i) {
                let (got, gslack) = m.sched[s][i];
                // each side is known up to the lateness of the late polls before it: the intervals
                // [t - slack, t] must meet (no late poll: plain equality)
                if got - gslack > want || want - wslack > got {
                    viol = Some((
                        "timing/server-schedule-differs-from-first-server",
                        format!(
                            "query {}: transmission #{} to server #{} goes out {} us after the first one to that server, towards the first server it was {} us (schedules {:?})",
                            k, i + 1, s + 1, got, want, m.sched
                        ),
                    ));
                }
            }
        }
        m.last_tx = ts;
        m.txlog.push((ts, format!("{}:{}", dst.iter().map(|b| b.to_string()).collect::<Vec<_>>().join("."), dport)));
        // Per-query schedule, counted from the query's OWN start (unimpaired link, several queries):
        // no datagram leaves later than the same datagram of the same query run alone on this
        // tree (earlier is allowed: polls caused by another query's timers may notice a server's
        // time-out sooner). A query must not be starved by another query's timer.
        if viol.is_none() {
            if let Some((ref_tx, _)) = cfg.0.alone.get(k) {
                let i = m.txlog.len() - 1;
                let rel = ts - m.started;
                if let Some(&r) = ref_tx.get(i) {
                    // (index-wise comparison is only meaningful while no poll was late: a late poll can
                    // push a datagram past the end of a server's window, which shifts the numbering)
                    if m.late_q == 0 && rel > r {
                        viol = Some((
                            "timing/query-schedule-later-than-when-run-alone",
                            format!(
                                "query {} (started at {} us): datagram #{} leaves {} us after the query's start; the same query run alone sends it after {} us (alone: {:?}; this run, absolute: {:?})",
                                k, m.started, i + 1, rel, r, ref_tx, m.txlog
                            ),
                        ));
                    }
                }
            }
        }
        if let Some((s, d)) = viol {
            self.fail(out, s, d);
        }
    }

    /// A server other than the first got fewer datagrams than the first one before the query
    /// left it (fail-over or failure by time-out).
    fn schedule_short(m: &QModel, k: usize, when: &str) -> Option<(&'static str, String)> {
        // (a late poll may delay a datagram beyond the end of the server's window: only judged when
        // no poll was late during this server's window)
        if m.sched.len() >= 2 && m.late_srv == 0 {
            let s = m.sched.len() - 1;
            if m.sched[s].len() < m.sched[0].len() {
                return Some((
                    "timing/server-schedule-differs-from-first-server",
                    format!(
                        "query {}: server #{} was sent {} datagram(s) before {}, the first server {} (relative send times per server, us: {:?})",
                        k,
                        s + 1,
                        m.sched[s].len(),
                        when,
                        m.sched[0].len(),
                        m.sched
                    ),
                ));
            }
        }
        None
    }

    /// Does `msg` match query k on the criteria of the statement? Ok(matched question name) or
    /// Err(cause).
    fn matches(&self, k: usize, msg: &Msg, view: &Option<RView>) -> Result<Name, &'static str> {
        let q = &self.qs[k];
        // update_servers(): LENIENT reading - the source is a configured server if it is in the
        // CURRENT list or was in the list in effect when some datagram of this query was sent
        // (smoltcp itself checks the current list only, which is stricter)
        let from_server = msg.sport == 53 && (self.servers_now.contains(&msg.src) || q.srv_seen.contains(&msg.src));
        // mDNS: lenient, any address (statement: "or from the mDNS port")
        if !(from_server || msg.sport == 5353) {
            return Err("source-not-port-53-of-configured-server-nor-mdns-port");
        }
        if msg.dport != q.port {
            return Err("wrong-destination-port");
        }
        let Some(v) = view else { return Err("no-dns-header") };
        if !q.wire.iter().any(|w| w.0 == v.txid) {
            return Err("wrong-transaction-id");
        }
        if v.qdcount != 1 {
            // the response says by its own header that it carries no / several questions
            return Err("question-count-not-1");
        }
        if v.questions.is_empty() {
            return Err("no-question");
        }
        let mut name_ok_type_bad = false;
        for (n, t, c) in &v.questions {
            let Some(n) = n else { continue };
            for (_, wq) in &q.wire {
                let Some((wn, wt)) = wq else { continue };
                if name_eq(n, wn) {
                    if *t == *wt && *c == 1 {
                        return Ok(n.clone());
                    }
                    name_ok_type_bad = true;
                }
            }
        }
        if name_ok_type_bad {
            Err("question-type-or-class-differs")
        } else {
            Err("question-name-never-asked")
        }
    }

    fn chain(&self, k: usize, view: &RView) -> BTreeSet<Name> {
        let q = &self.qs[k];
        let mut edges: Vec<(Name, Name)> = q.edges.iter().cloned().collect();
        for r in &view.records {
            if r.typ == T_CNAME {
                if let (Some(o), Some(t)) = (&r.owner, &r.cname) {
                    edges.push((lower(o), lower(t)));
                }
            }
        }
        let mut c: BTreeSet<Name> = BTreeSet::new();
        c.insert(lower(&q.orig));
        loop {
            let before = c.len();
            for (a, b) in &edges {
                if c.contains(a) {
                    c.insert(b.clone());
                }
            }
            if c.len() == before {
                break;
            }
        }
        c
    }

    /// Harvest query results; run the matching oracle on completions.
    fn check_results(&mut self, msg: Option<&Msg>, out: &mut Vec<Viol>) -> (usize, usize) {
        let view = msg.and_then(|m| parse_response(&m.payload));
        let mut n_ok = 0;
        let mut n_fail = 0;
        for k in 0..self.qs.len() {
            if self.qs[k].status != Status::Pending {
                continue;
            }
            let Some(handle) = self.qs[k].handle else { continue };
            let sock = self.sockets.get_mut::<dns::Socket>(self.h);
            let r = match catch_unwind(AssertUnwindSafe(|| sock.get_query_result(handle))) {
                Ok(r) => r,
                Err(e) => {
                    self.dead = true;
                    let m = panic_msg(e);
                    self.fail(out, &format!("panic/{}", panic_site()), format!("panic in get_query_result: {}", m));
                    return (n_ok, n_fail);
                }
            };
            // learn CNAME edges from matching responses while the query is pending
            let matched = msg.map(|m| self.matches(k, m, &view));
            match r {
                Err(GetQueryResultError::Pending) => {
                    if let (Some(Ok(_)), Some(v)) = (&matched, &view) {
                        for rr in &v.records {
                            if rr.typ == T_CNAME {
                                if let (Some(o), Some(t)) = (&rr.owner, &rr.cname) {
                                    self.qs[k].edges.insert((lower(o), lower(t)));
                                }
                            }
                        }
                    }
                }
                Err(GetQueryResultError::Failed) => {
                    n_fail += 1;
                    self.qs[k].status = Status::Failed;
                    self.qs[k].edges.clear();
                    if msg.is_none() && self.qs[k].cur_dst.is_empty() {
                        // failed by time without ever transmitting: on the unimpaired link the first
                        // datagram leaves in the poll that follows start_query and the first server
                        // has 10 s from then
                        let d = format!(
                            "query {} (start_query at t={} us) reported Failed at t={} us without a single datagram on the wire",
                            k, self.qs[k].started, self.now
                        );
                        self.fail(out, "timing/failed-by-timeout-without-any-transmission", d);
                    }
                    if msg.is_none() && !self.qs[k].cur_dst.is_empty() {
                        // Failure without a response in this step = failure by time-out (the other
                        // paths to Failure in dispatch - unspecified server address, no source
                        // address - cannot occur in these configurations). "moving to the next
                        // server after 10 s": every server, the last one included, gets its 10 s
                        // window and the same schedule as the first one.
                        let window = self.now - self.qs[k].cur_dst_first;
                        if window < PER_SERVER_S * SEC {
                            let d = format!(
                                "query {} reported Failed by time-out at t={} us, only {} us after the first transmission to the server it was last sent to (transmissions {:?})",
                                k, self.now, window, self.qs[k].txlog
                            );
                            self.fail(out, "timing/failed-by-timeout-before-10s-on-last-server", d);
                        }
                        if let Some((sg, d)) = Self::schedule_short(&self.qs[k], k, "the query was failed by time-out") {
                            self.fail(out, sg, d);
                        }
                        if let Some((ref_tx, ref_fail)) = self.cfg.0.alone.get(k).cloned() {
                            let rel = self.now - self.qs[k].started;
                            if rel > ref_fail + self.qs[k].late_q {
                                let d = format!(
                                    "query {} (started at {} us) is failed by time-out {} us after its start; run alone it fails after {} us (alone it sends at {:?}; this run, absolute: {:?})",
                                    k, self.qs[k].started, rel, ref_fail, ref_tx, self.qs[k].txlog
                                );
                                self.fail(out, "timing/query-schedule-later-than-when-run-alone", d);
                            }
                        }
                    }
                    if let (Some(Err(cause)), Some(m)) = (&matched, msg) {
                        // not constrained by the statement (it speaks of completing with addresses)
                        let cause = *cause;
                        self.observe(&format!("query_FAILED_by_non_matching_response/{}", cause), || {
                            format!("{}:{} -> :{} {}", ipstr(&m.src), m.sport, m.dport, describe_response(&m.payload))
                        });
                    }
                }
                Ok(addrs) => {
                    n_ok += 1;
                    let list: Vec<String> = addrs.iter().map(|a| a.to_string()).collect();
                    self.qs[k].status = Status::Ok(list.clone());
                    let ctx = |m: &Msg| {
                        format!(
                            "query {} ({} type {}, port {}, wire {:?}) completed with {:?} on response {}:{} -> :{} {} bytes={}",
                            k,
                            show(&self.qs[k].orig),
                            self.qs[k].qtype,
                            self.qs[k].port,
                            self.qs[k].wire.iter().map(|w| format!("{:04x}/{}", w.0, w.1.as_ref().map(|q| format!("{} type{}", show(&q.0), q.1)).unwrap_or("<malformed>".into()))).collect::<Vec<_>>(),
                            list,
                            ipstr(&m.src),
                            m.sport,
                            m.dport,
                            describe_response(&m.payload),
                            if m.payload.len() > 256 { format!("{}...({} octets, complete in replay.steps)", hex(&m.payload[..256]), m.payload.len()) } else { hex(&m.payload) }
                        )
                    };
                    match (msg, matched) {
                        (None, _) | (_, None) => {
                            let d = format!("query {} completed with {:?} although no response was delivered in this step", k, list);
                            self.fail(out, "matching/completed-without-response", d);
                        }
                        (Some(m), Some(Err(cause))) => {
                            let d = ctx(m);
                            self.fail(out, &format!("matching/{}", cause), d);
                        }
                        (Some(m), Some(Ok(qname))) => {
                            let v = view.as_ref().unwrap();
                            if !name_eq(&qname, &self.qs[k].orig) {
                                // lenient reading, see module doc
                                self.observe("completed_on_question_for_cname_target_after_retransmission(lenient)", || ctx(m));
                            }
                            let chain = self.chain(k, v);
                            let mut bad: Option<&str> = None;
                            for a in addrs.iter() {
                                let ab = ip_bytes(a);
                                let want_t = if ab.len() == 4 { T_A } else { T_AAAA };
                                if (want_t == T_A) != (self.qs[k].qtype == T_A) {
                                    self.observe("returned_address_family_differs_from_query_type(not_demanded)", || ctx(m));
                                }
                                let mut in_resp = false;
                                let mut on_chain = false;
                                for rr in &v.records {
                                    if rr.typ == want_t && rr.rdata == ab {
                                        in_resp = true;
                                        if let Some(o) = &rr.owner {
                                            if chain.contains(&lower(o)) {
                                                on_chain = true;
                                            }
                                        }
                                    }
                                }
                                if !in_resp {
                                    bad = Some("address-not-in-the-response");
                                } else if !on_chain && bad.is_none() {
                                    bad = Some("address-of-a-name-off-the-cname-chain");
                                }
                            }
                            if let Some(b) = bad {
                                let d = ctx(m);
                                self.fail(out, &format!("matching/{}", b), d);
                            }
                        }
                    }
                    self.qs[k].edges.clear();
                }
            }
        }
        (n_ok, n_fail)
    }

    /// On the unimpaired link the first datagram of a query leaves in the poll that follows
    /// start_query (smoltcp's behaviour, hence a verdict): a pending query without any datagram on
    /// the wire after that poll is being starved.
    fn check_transmitted(&mut self, k: usize, out: &mut Vec<Viol>) {
        if self.ci().net == Net::Ip && self.qs[k].status == Status::Pending && self.qs[k].txlog.is_empty() && !self.dead {
            let d = format!(
                "query {} ({}) started at t={} us is pending but the poll that followed start_query put no datagram for it on the wire (poll_at now {:?}; state: {})",
                k,
                show(&self.qs[k].orig),
                self.qs[k].started,
                self.next_poll,
                self.qs.iter().map(|q| format!("{:?}/{} datagrams", q.status, q.txlog.len())).collect::<Vec<_>>().join(", ")
            );
            self.fail(out, "termination/query-not-transmitted-by-the-poll-after-start_query", d);
        }
    }

    fn any_pending(&self) -> bool {
        self.qs.iter().any(|q| q.status == Status::Pending)
    }

    /// State invariants of the termination clause.
    fn post(&mut self, out: &mut Vec<Viol>) {
        if self.dead {
            return;
        }
        if self.any_pending() && self.next_poll.is_none() {
            let d = format!("a query is pending but Interface::poll_at returned None at t={} us", self.now);
            self.fail(out, "termination/poll_at-none-while-pending", d);
        }
        for k in 0..self.qs.len() {
            if self.qs[k].status == Status::Pending && self.now > self.qs[k].deadline + self.qs[k].late_q {
                let d = format!(
                    "query {} still pending at t={} us, bound {} us (started {} us; polled exactly at poll_at); transmissions {:?}",
                    k, self.now, self.qs[k].deadline, self.qs[k].started, self.qs[k].txlog
                );
                let sg = self.bound_sig();
                self.fail(out, &sg, d);
                self.dead = true;
            }
        }
    }

    fn tick(&mut self, out: &mut Vec<Viol>) -> bool {
        let Some(p) = self.next_poll else { return false };
        let before = (self.now, self.statuses());
        if self.poll_late > 0 {
            self.now = p.max(self.now) + self.poll_late;
            for q in self.qs.iter_mut().filter(|q| q.status == Status::Pending) {
                q.late_q += self.poll_late;
                q.late_srv += self.poll_late;
            }
        } else if p > self.now {
            self.now = p;
        } else if self.blocked {
            // The device refuses frames and smoltcp asks to be polled "now": a real caller polls
            // again and again while time passes. Modelled as one poll per second of simulated time
            // (time has to pass for the per-server time-out to run).
            self.now += SEC;
        }
        let Some((nq, _)) = self.settle(out, "tick") else { return false };
        self.check_results(None, out);
        if self.now == before.0 && nq == 0 && self.statuses() == before.1 {
            let d = format!("poll_at = {} us <= now = {} us but polling changes nothing: the caller spins", p, self.now);
            self.fail(out, "termination/poll_at-in-the-past-without-progress", d);
            self.dead = true;
            return false;
        }
        true
    }

    fn statuses(&self) -> Vec<Status> {
        self.qs.iter().map(|q| q.status.clone()).collect()
    }

    fn outcome_label(&self, sock_dbg: &str) -> String {
        if self.dead {
            return "dead".into();
        }
        self.qs
            .iter()
            .map(|q| match &q.status {
                Status::Ok(_) => "completed".to_string(),
                Status::Failed => "failed".to_string(),
                Status::NotStarted => "not-started".to_string(),
                Status::Pending => {
                    // evidence only: is the socket's current question name still the original?
                    let orig = format!("name: {:?}", flat(&q.orig));
                    if sock_dbg.contains(&orig) {
                        "pending".to_string()
                    } else {
                        "pending(name-rewritten)".to_string()
                    }
                }
            })
            .collect::<Vec<_>>()
            .join("+")
    }
}

fn ipstr(a: &[u8; 4]) -> String {
    format!("{}.{}.{}.{}", a[0], a[1], a[2], a[3])
}

/// `ipv4_id` only feeds the Identification field of emitted IPv4 headers
/// (iface/interface/mod.rs dispatch_ip: `next_ipv4_frag_ident`, used when fragmenting); this
/// harness never looks at that field and never emits a datagram that needs fragmenting, and it is
/// bumped by every ICMP port-unreachable answer to a refused response, which would make every
/// refused response a new state. Stripped from the fingerprint.
fn strip_ipv4_id(d: &str) -> String {
    match d.find(" ipv4_id=") {
        Some(i) => {
            let rest = &d[i + 9..];
            let j = rest.find(' ').unwrap_or(rest.len());
            format!("{}{}", &d[..i], &rest[j..])
        }
        None => d.to_string(),
    }
}

impl Harness for DnsH {
    type Cfg = DnsCfg;
    type Ev = Ev;

    fn new(cfg: &DnsCfg) -> DnsH {
        let ci = &cfg.0;
        let eth = matches!(ci.net, Net::EthOnLink(_) | Net::EthGateway(_));
        let mut dev = if eth {
            CountDev { inner: SimDevice::new(Medium::Ethernet, MTU + 14), calls: 0 }
        } else {
            CountDev { inner: SimDevice::new(Medium::Ip, MTU), calls: 0 }
        };
        if ci.net == Net::IpBackPressure {
            dev.inner.tx_budget = Some(0);
        }
        let mut c = Config::new(if eth {
            HardwareAddress::Ethernet(smoltcp::wire::EthernetAddress(IFACE_MAC))
        } else {
            HardwareAddress::Ip
        });
        c.random_seed = 0x19c19 + ci.queries.len() as u64;
        let mut iface = Interface::new(c, &mut dev, Instant::from_micros(0));
        iface.update_ip_addrs(|a| {
            a.push(IpCidr::new(IpAddress::v4(IFACE_IP[0], IFACE_IP[1], IFACE_IP[2], IFACE_IP[3]), 24)).unwrap();
            if !eth {
                // (no IPv6 address on Ethernet: keeps NDISC/MLD traffic out of these configurations)
                a.push(IpCidr::new(IpAddress::v6(0xfd00, 0, 0, 0, 0, 0, 0, 1), 64)).unwrap();
            }
        });
        if matches!(ci.net, Net::EthGateway(_)) {
            iface
                .routes_mut()
                .add_default_ipv4_route(smoltcp::wire::Ipv4Address::new(GATEWAY_IP[0], GATEWAY_IP[1], GATEWAY_IP[2], GATEWAY_IP[3]))
                .unwrap();
        }
        let servers: Vec<IpAddress> = ci.servers.iter().map(|s| IpAddress::v4(s[0], s[1], s[2], s[3])).collect();
        let slots: Vec<Option<dns::DnsQuery>> = (0..ci.queries.len()).map(|_| None).collect();
        let sock = dns::Socket::new(&servers, slots);
        let mut sockets = SocketSet::new(vec![]);
        let h = sockets.add(sock);
        let mut qs = vec![];
        for (i, (name, t)) in ci.queries.iter().enumerate() {
            let later = i >= ci.n0;
            let handle = if later {
                None
            } else {
                Some(sockets.get_mut::<dns::Socket>(h).start_query(iface.context(), name, qtype_of(*t)).expect("start_query"))
            };
            // mDNS queries go to the IPv6 group, then the IPv4 group (dns.rs dispatch): 2 "servers"
            let n_srv = if name.ends_with(".local") { 2 } else { ci.servers.len() } as i64;
            qs.push(QModel {
                orig: ci.names[i].q.clone(),
                qtype: *t,
                handle,
                status: if later { Status::NotStarted } else { Status::Pending },
                started: 0,
                // Impaired links (unchanged-tree behaviour): `dispatch` returns at the first query whose
                // emit fails, so while nothing gets out a later query's per-server window is only
                // armed once the queries before it have failed (1 server, 2 queries, ARP never
                // answered: Failed at 11 s and 22 s). The bound therefore scales with the number of
                // concurrent queries there.
                // (a query started later gets `started` added when it is started: the bound counts from
                // the query's own start)
                deadline: (if ci.net == Net::Ip { 1 } else { ci.queries.len() as i64 }) * n_srv * (PER_SERVER_S + MAX_BACKOFF_S) * SEC + SLACK_S * SEC,
                port: 0,
                wire: vec![],
                edges: BTreeSet::new(),
                cur_dst: vec![],
                cur_dst_first: 0,
                last_tx: 0,
                last_gap: 0,
                sched: vec![],
                late_q: 0,
                late_srv: 0,
                srv_seen: BTreeSet::new(),
                txlog: vec![],
            });
        }
        let mut me = DnsH {
            cfg: cfg.clone(),
            dev,
            iface,
            sockets,
            h,
            now: 0,
            next_poll: None,
            qs,
            evs: vec![],
            key: 0,
            dead: false,
            last_class: C_TICK,
            notes: vec![],
            arp_asked: BTreeSet::new(),
            arp_answered: BTreeSet::new(),
            blocked: ci.net == Net::IpBackPressure,
            was_blocked: ci.net == Net::IpBackPressure,
            n_arp: 0,
            late_left: ci.late_budget,
            poll_late: 0,
            servers_now: ci.servers.clone(),
            updates_left: if ci.label.contains("update-servers") { 2 } else { 0 },
            updates_done: 0,
        };
        let mut out = vec![];
        me.settle(&mut out, "initial poll");
        me.check_results(None, &mut out);
        me.post(&mut out);
        for v in out {
            // violations in the initial state are attached to the first event applied
            me.notes.push(format!("{} :: {}", v.sig, v.detail));
        }
        let mut out2 = vec![];
        for k in 0..me.qs.len() {
            me.check_transmitted(k, &mut out2);
        }
        for v in out2 {
            me.notes.push(format!("{} :: {}", v.sig, v.detail));
        }
        if me.qs.len() == 2 && me.qs[0].port == me.qs[1].port && me.qs[0].port != 0 {
            globals().mach.lock().unwrap().push(format!("[{}] both queries drew the same source port; change the seed", ci.label));
        }
        me
    }

    fn enabled(&self) -> Vec<(Ev, u32)> {
        let unstarted = self.qs.iter().any(|q| q.status == Status::NotStarted);
        if self.dead || !(self.any_pending() || unstarted) {
            return vec![];
        }
        let mut v = Vec::with_capacity(600);
        if self.any_pending() {
            if self.next_poll.is_some() {
                v.push((Ev::Tick, 0));
                if self.late_left > 0 {
                    v.push((Ev::TickLate(1000), 1));
                    v.push((Ev::TickLate(3000), 1));
                }
            }
            v.push((Ev::RunOut, 1));
        }
        if self.updates_left > 0 && self.any_pending() {
            for code in 0..4u8 {
                v.push((Ev::UpdateServers(code), 1));
            }
        }
        if unstarted {
            // an idle gap is only possible while no poll is due before its end (time passes without
            // a poll only up to poll_at; with no pending query poll_at is None: arbitrary idle time)
            for gap_ms in START_GAPS_MS {
                if gap_ms == 0 || self.next_poll.map_or(true, |p| self.now + gap_ms as i64 * 1000 < p) {
                    v.push((Ev::StartNext(gap_ms), 1));
                }
            }
        }
        match self.ci().net {
            Net::IpBackPressure | Net::IpBackPressureLater => {
                if self.blocked {
                    v.push((Ev::Unblock, 1));
                } else if self.ci().net == Net::IpBackPressureLater && !self.was_blocked {
                    v.push((Ev::Block, 1));
                }
            }
            Net::EthOnLink(Some(after)) | Net::EthGateway(Some(after)) if self.now >= after as i64 * SEC => {
                for ip in self.arp_asked.difference(&self.arp_answered) {
                    v.push((Ev::ArpReply(*ip), 1));
                }
            }
            _ => {}
        }
        for (k, q) in self.qs.iter().enumerate() {
            if q.status == Status::Pending && !q.wire.is_empty() {
                for s in &self.ci().alphabet[k] {
                    v.push((Ev::Resp(k as u8, *s), 1));
                }
            }
        }
        v
    }

    fn apply(&mut self, ev: &Ev, out: &mut Vec<Viol>) {
        self.evs.push(*ev);
        self.key = fp128(&(self.key, ev));
        {
            let evs = self.evs.clone();
            watch::enter(&self.ci().dbg, Box::new(move || evs.iter().map(|e| format!("{:?}", e)).collect()));
        }
        for n in std::mem::take(&mut self.notes) {
            if let Some((s, d)) = n.split_once(" :: ") {
                out.push(Viol::new(s, d));
            }
        }
        let class = match ev {
            Ev::Tick => {
                self.tick(out);
                C_TICK
            }
            Ev::TickLate(ms) => {
                self.late_left = self.late_left.saturating_sub(1);
                self.poll_late = *ms as i64 * 1000;
                self.tick(out);
                self.poll_late = 0;
                C_TICK
            }
            Ev::RunOut => {
                let mut n = 0;
                while self.any_pending() && !self.dead {
                    if self.next_poll.is_none() {
                        break; // reported by post()
                    }
                    if !self.tick(out) {
                        break;
                    }
                    self.post(out);
                    n += 1;
                    if n > 200 {
                        let d = format!("200 polls at poll_at did not finish the queries (t={} us)", self.now);
                        let sg = self.bound_sig();
                self.fail(out, &sg, d);
                        self.dead = true;
                    }
                }
                C_RUNOUT
            }
            Ev::ArpReply(ip) => {
                // RFC 826 reply: Ethernet II header + htype 1, ptype 0x0800, hlen 6, plen 4, oper 2
                let mac = mac_of(*ip);
                let mut f = vec![];
                f.extend_from_slice(&IFACE_MAC);
                f.extend_from_slice(&mac);
                f.extend_from_slice(&[0x08, 0x06, 0, 1, 0x08, 0x00, 6, 4, 0, 2]);
                f.extend_from_slice(&mac);
                f.extend_from_slice(ip);
                f.extend_from_slice(&IFACE_MAC);
                f.extend_from_slice(&IFACE_IP);
                self.dev.inner.rx.push_back(f);
                self.arp_answered.insert(*ip);
                if self.settle(out, "arp reply").is_some() {
                    self.check_results(None, out);
                }
                C_LINK
            }
            Ev::UpdateServers(code) => {
                let ci = self.cfg.clone();
                let list: Vec<[u8; 4]> = match code {
                    0 => vec![],
                    1 => ci.0.servers[..1].to_vec(),
                    2 => ci.0.servers.clone(),
                    _ => vec![ALT_IP],
                };
                let addrs: Vec<IpAddress> = list.iter().map(|s| IpAddress::v4(s[0], s[1], s[2], s[3])).collect();
                self.updates_left = self.updates_left.saturating_sub(1);
                self.updates_done += 1;
                let sock = self.sockets.get_mut::<dns::Socket>(self.h);
                match catch_unwind(AssertUnwindSafe(|| sock.update_servers(&addrs))) {
                    Ok(()) => {
                        self.servers_now = list;
                        // the application polls after the API call
                        if self.settle(out, "poll after update_servers").is_some() {
                            self.check_results(None, out);
                        }
                    }
                    Err(e) => {
                        self.dead = true;
                        let m = panic_msg(e);
                        self.fail(out, &format!("panic/{}", panic_site()), format!("panic in update_servers({:?}): {} at {}", addrs, m, last_panic_loc()));
                    }
                }
                C_LINK
            }
            Ev::StartNext(gap_ms) => {
                self.now += *gap_ms as i64 * 1000;
                if let Some(k) = self.qs.iter().position(|q| q.status == Status::NotStarted) {
                    let (name, t) = self.ci().queries[k].clone();
                    let r = self.sockets.get_mut::<dns::Socket>(self.h).start_query(self.iface.context(), &name, qtype_of(t));
                    match r {
                        Ok(hd) => {
                            self.qs[k].handle = Some(hd);
                            self.qs[k].status = Status::Pending;
                            self.qs[k].started = self.now;
                            self.qs[k].deadline += self.now;
                        }
                        Err(e) => globals().mach.lock().unwrap().push(format!("start_query failed: {:?}", e)),
                    }
                    // the application polls after the API call (the usual smoltcp loop)
                    if self.settle(out, "poll after start_query").is_some() {
                        self.check_results(None, out);
                        self.check_transmitted(k, out);
                    }
                }
                C_LINK
            }
            Ev::Unblock | Ev::Block => {
                self.blocked = *ev == Ev::Block;
                self.was_blocked |= self.blocked;
                self.dev.inner.tx_budget = if self.blocked { Some(0) } else { None };
                if self.settle(out, "device back-pressure change").is_some() {
                    self.check_results(None, out);
                }
                C_LINK
            }
            Ev::Resp(k, spec) => {
                let m = self.build(*k as usize, spec);
                let frame = self.l2(m.src, udp4_frame(m.src, IFACE_IP, m.sport, m.dport, &m.payload));
                self.dev.inner.rx.push_back(frame);
                let ctx = format!("delivering {:?}: {}", spec, hex(&m.payload));
                match self.settle(out, &ctx) {
                    None => C_DEAD,
                    Some((_, nicmp)) => {
                        let (n_ok, n_fail) = self.check_results(Some(&m), out);
                        if n_ok > 0 {
                            C_RESP_COMPLETED
                        } else if n_fail > 0 {
                            C_RESP_FAILED
                        } else if nicmp > 0 {
                            C_RESP_NOT_FOR_SOCKET
                        } else {
                            C_RESP_NO_VERDICT
                        }
                    }
                }
            }
        };
        self.post(out);
        self.last_class = if self.dead { C_DEAD } else { class };
        watch::leave();
        globals().classes.put(self.key, self.last_class);
    }

    fn fingerprint(&self) -> u128 {
        // No frame is ever pending between events: settle() polls until the device rx queue is
        // empty and a poll emits nothing, and all emitted frames are consumed by the wire model;
        // so "pending-frame state" is empty by construction.
        let socks = format!("{:?}", self.sockets);
        let dig = strip_ipv4_id(&self.iface.verif_digest());
        let mut model = String::new();
        for q in &self.qs {
            use std::fmt::Write;
            let _ = write!(
                model,
                "[{:?} started={} port={} wire={:?} edges={:?} dst={:?} first={} last={} gap={} sched={:?}]",
                q.status, q.started, q.port, q.wire, q.edges, q.cur_dst, q.cur_dst_first, q.last_tx, q.last_gap, q.sched
            );
        }
        {
            use std::fmt::Write;
            let _ = write!(model, "arp={:?}/{:?} blocked={}/{} late_left={} late={:?} srv={:?}/{}/{} seen={:?}", self.arp_asked, self.arp_answered, self.blocked, self.was_blocked, self.late_left, self.qs.iter().map(|q| (q.late_q, q.late_srv)).collect::<Vec<_>>(), self.servers_now, self.updates_left, self.updates_done, self.qs.iter().map(|q| q.srv_seen.clone()).collect::<Vec<_>>());
        }
        let fp = fp128(&(socks.as_str(), dig.as_str(), self.now, self.next_poll, model.as_str(), self.dead));
        globals().outcomes.put(fp, self.outcome_label(&socks));
        fp
    }

    fn outcome(&self) -> String {
        self.outcome_label(&format!("{:?}", self.sockets))
    }
}

// ---------------------------------------------------------------------------------------
// run / replay
// ---------------------------------------------------------------------------------------

fn describe_event(h: &DnsH, ev: &Ev) -> String {
    match ev {
        Ev::Tick => format!("Tick -> poll at {:?} us", h.next_poll),
        Ev::UpdateServers(code) => format!("update_servers({}), then poll", ["[] (empty)", "[first server]", "[same list]", "[10.0.0.60]"][(*code).min(3) as usize]),
        Ev::TickLate(ms) => format!("TickLate -> poll {} ms AFTER poll_at = {:?} us", ms, h.next_poll),
        Ev::RunOut => "RunOut (tick until all queries are done)".into(),
        Ev::ArpReply(ip) => format!("ArpReply {} is-at {}", ipstr(ip), hex(&mac_of(*ip))),
        Ev::Unblock => "Unblock (device accepts frames again)".into(),
        Ev::Block => "Block (device refuses transmit)".into(),
        Ev::StartNext(gap_ms) => format!("idle for {} ms without a poll, start_query at t={} us, then poll", gap_ms, h.now + *gap_ms as i64 * 1000),
        Ev::Resp(k, s) => {
            let m = h.build(*k as usize, s);
            format!(
                "Resp(q{}) {:?}\n       {}:{} -> {}:{}  {}\n       dns={}",
                k,
                s,
                ipstr(&m.src),
                m.sport,
                ipstr(&IFACE_IP),
                m.dport,
                describe_response(&m.payload),
                hex(&m.payload)
            )
        }
    }
}

fn state_line(h: &DnsH) -> String {
    let qs: Vec<String> = h
        .qs
        .iter()
        .enumerate()
        .map(|(k, q)| {
            format!(
                "q{} {} type{} port={} {:?} wire={:?} tx={:?}",
                k,
                show(&q.orig),
                q.qtype,
                q.port,
                q.status,
                q.wire.iter().map(|w| format!("{:04x}/{}", w.0, w.1.as_ref().map(|x| format!("{} type{}", show(&x.0), x.1)).unwrap_or("<malformed>".into()))).collect::<Vec<_>>(),
                q.txlog
            )
        })
        .collect();
    let link = if h.ci().net == Net::Ip { String::new() } else { format!(" [arp requests {} for {:?}, answered {:?}, device blocked {}]", h.n_arp, h.arp_asked.iter().map(ipstr).collect::<Vec<_>>(), h.arp_answered.iter().map(ipstr).collect::<Vec<_>>(), h.blocked) };
    format!("t={} us poll_at={:?}{} {}", h.now, h.next_poll, link, qs.join(" | "))
}

/// Run a list of events given as closures choosing from enabled(); used for evidence samples.
fn scripted(cfg: &DnsCfg, pick: &[&dyn Fn(&Ev) -> bool]) -> Value {
    let mut h = DnsH::new(cfg);
    let mut lines = vec![format!("init: {}", state_line(&h))];
    let mut viols = vec![];
    for p in pick {
        let en = h.enabled();
        let Some((ev, _)) = en.into_iter().find(|(e, _)| p(e)) else {
            lines.push("<event not enabled>".into());
            break;
        };
        lines.push(describe_event(&h, &ev));
        h.apply(&ev, &mut viols);
        lines.push(format!("  => {}", state_line(&h)));
    }
    json!({"config": cfg.0.label, "script": lines, "violations": viols.iter().map(|v| v.sig.clone()).collect::<Vec<_>>()})
}

pub fn run(tier: Tier) -> i32 {
    watch::start_monitor(tier.name());
    let mut rep = Report::new("C19", tier);
    rep.assumptions.push("IPv4 transport for responses (mDNS queries also leave over IPv6 and are observed); one dns::Socket; queries started at t=0. Links: Medium::Ip where every frame gets out; Medium::Ip with device back-pressure (tx_budget 0, lifted/re-imposed by the explorer; while smoltcp asks to be polled 'now' one poll per simulated second); Medium::Ethernet with servers on-link or behind a gateway whose ARP is never answered / answered by the explorer not before 3 s / at any time. Timing clauses only on the unimpaired link; matching and termination clauses everywhere".into());
    rep.assumptions.push("update_servers: in the *-update-servers configurations up to two calls per history (empty / first server / same / one different server), each followed by a poll; source matching is lenient (current list or list in effect at a transmission of the query); timing clauses are dropped after an update".into());
    rep.assumptions.push("late polls: in the *-late-poll configurations one (thorough: two) polls per history come 1 s or 3 s after poll_at; every other poll is exactly at poll_at".into());
    rep.assumptions.push("time advances only to Interface::poll_at (statement: 'polled according to poll_at'); bound = servers x (10 s + 10 s max back-off) + 1 s from dns.rs constants".into());
    rep.assumptions.push("'records for other names are ignored' is judged as an obligation: a matching response carrying the wanted records must complete the query with exactly those addresses (coverage.answer_section_sweep); good responses that are not accepted (coverage.positive_controls) are verdicts too, not machinery errors".into());
    rep.assumptions.push("matching oracle uses its own tolerant DNS parser (dns/msg.rs); lenient readings are listed in coverage.lenient_readings and counted in coverage.observations".into());
    rep.assumptions.push(format!(
        "build limits in effect: DNS_MAX_SERVER_COUNT={} DNS_MAX_RESULT_COUNT={} DNS_MAX_NAME_SIZE={} (run under both the default and the small variant)",
        DNS_MAX_SERVER_COUNT, DNS_MAX_RESULT_COUNT, DNS_MAX_NAME_SIZE
    ));
    let cfgs = configs(tier);
    let depth = cfgs.iter().map(|c| c.1).max().unwrap_or(0);
    let mut per_cfg = vec![];
    let mut all_obs: BTreeMap<String, (u64, String)> = BTreeMap::new();
    for (cfg, d) in &cfgs {
        let d = *d;
        let g = globals();
        g.classes.drain();
        g.outcomes.drain();
        g.obs.lock().unwrap().clear();
        g.obs_sample.lock().unwrap().clear();
        // Thorough runs every configuration to its fixpoint (empty frontier). Memory guard: the search
        // stops after the first level that brings the state count above 8000 (reported as a cap,
        // exhaustive=false) - on a tree where responses can rewrite the stored query name every
        // distinct name multiplies the states and a further level would not fit in memory.
        let lim = Limits { max_states: if tier == Tier::Quick { 3_000_000 } else if cfg.0.alpha == Alpha::Mini { 400_000 } else { 8_000 }, max_wall_s: if tier == Tier::Quick { 12.0 } else { 200.0 } };
        let mut samples = vec![];
        let t_cfg = std::time::Instant::now();
        let r = bfs::<DnsH>("dns", cfg, d, &lim, &mut rep.found, &mut samples);
        if std::env::var("VERIF_VERBOSE").is_ok() {
            eprintln!("[C19] {} depth {} took {:.1}s", cfg.0.label, d, t_cfg.elapsed().as_secs_f64());
        }
        match r {
            Ok(st) => {
                rep.absorb(&format!("{:?} depth<={}", cfg, d), &st);
                let mut classes: BTreeMap<&str, u64> = BTreeMap::new();
                for c in g.classes.drain() {
                    *classes.entry(CLASS_NAMES[c as usize]).or_insert(0) += 1;
                }
                let n_class: u64 = classes.values().sum();
                if n_class != st.transitions {
                    // each BFS transition is a distinct event history, so the two must agree
                    rep.machinery_errors.push(format!("[{}] class tally {} != transitions {}", cfg.0.label, n_class, st.transitions));
                }
                let mut outcomes: BTreeMap<String, u64> = BTreeMap::new();
                for o in g.outcomes.drain() {
                    *outcomes.entry(o).or_insert(0) += 1;
                }
                let obs: BTreeMap<String, u64> = g.obs.lock().unwrap().iter().map(|(k, v)| (k.clone(), v.len() as u64)).collect();
                for (k, n) in &obs {
                    let s = g.obs_sample.lock().unwrap().get(k).map(|x| x.1.clone()).unwrap_or_default();
                    let e = all_obs.entry(k.clone()).or_insert((0, s));
                    e.0 += n;
                }
                per_cfg.push(json!({
                    "config": cfg.0.label, "depth": d, "states": st.states, "transitions": st.transitions,
                    "per_level": st.per_level, "fixpoint_reached(whole reachable space explored)": st.per_level.last() == Some(&0), "exhaustive": st.exhaustive, "cap": st.cap_note,
                    "alphabet_per_query": cfg.0.alphabet.iter().map(|a| a.len()).collect::<Vec<_>>(),
                    "alphabet_groups_query0": cfg.0.groups,
                    "transition_classes": classes, "state_outcomes": outcomes, "observations": obs,
                }));
                if cfg.0.label.starts_with("1q-A/") || cfg.0.label.starts_with("2q-A+A/") {
                    rep.samples.extend(samples);
                }
            }
            Err(e) => rep.machinery_errors.push(format!("[{}] {}", cfg.0.label, e)),
        }
    }
    // enrich bfs artefacts with the response bytes of each step
    for f in rep.found.iter_mut() {
        if let Some((cfg, _)) = cfgs.iter().find(|c| Some(format!("{:?}", c.0).as_str()) == f.replay["config"].as_str()) {
            let choices: Vec<u16> = f.replay["choices"].as_array().map(|a| a.iter().map(|x| x.as_u64().unwrap_or(0) as u16).collect()).unwrap_or_default();
            f.replay["steps"] = json!(narrate(cfg, &choices).0);
        }
    }
    for e in globals().mach.lock().unwrap().drain(..) {
        if !rep.machinery_errors.contains(&e) && rep.machinery_errors.len() < 20 {
            rep.machinery_errors.push(e);
        }
    }
    rep.cov("per_config", json!(per_cfg));
    rep.cov("observations", json!(all_obs.iter().map(|(k, (n, s))| json!({"what": k, "distinct_transitions": n, "first_sample": s})).collect::<Vec<_>>()));
    rep.cov("lenient_readings", json!([
        "responses from source port 5353 are accepted from ANY address (statement: 'or from the mDNS port'; dns::Socket::accepts matches mDNS by port only)",
        "a response whose question repeats a (name,type) that THIS query put on the wire in any (re)transmission counts as repeating its question - smoltcp re-asks with the CNAME target after a CNAME in a response it then rejected; only a question never on the wire is reported",
        "CNAME chain = closure over CNAME records of the accepted response and of earlier matching responses, any order",
        "record family need not equal the query type (AAAA record answers an A query): counted only",
        "failure verdicts (NXDOMAIN before the question check, empty answers) are not constrained by the statement: counted only",
        "names compare case-insensitively in the oracle"
    ]));
    rep.cov("rule", json!(format!(
        "BFS over event histories (depth <= {}, per configuration see per_config), state merged on fingerprint = SocketSet Debug + Interface::verif_digest (minus ipv4_id) + time + poll_at + oracle model; from every state: Tick, RunOut, and for every pending query every response of its alphabet built from the query seen on the wire; RunOut decides bounded termination from EVERY reached state; distinct = distinct fingerprints; transition classes say how many deliveries were refused / processed / completed / failed",
        depth
    )));
    // positive controls (non-vacuity of the 'only if' oracle): good responses, small and larger than
    // 1 KiB / 2 KiB, and good responses after the link impairment is lifted, DO complete the query
    let controls = positive_controls(&cfgs);
    let failed: Vec<String> = controls.iter().filter(|c| c["completed"] != json!(true)).map(|c| c["control"].as_str().unwrap_or("").to_string()).collect();
    rep.cov("positive_controls", json!(controls));
    let _ = failed;
    // A good response (matching on every criterion, carrying the wanted records) that does not
    // complete the query is smoltcp's behaviour, hence a verdict, not a machinery problem.
    for c in &controls {
        if c["completed"] != json!(true) {
            let kind = c["kind"].as_str().unwrap_or("");
            rep.violation(
                control_sig(kind),
                format!("good response not accepted: {} -> {}", c["control"].as_str().unwrap_or(""), c["result"].as_str().unwrap_or("")),
                json!({"type": "control", "config": c["config"], "kind": kind}),
            );
        }
    }
    run_sweep(&mut rep, tier);
    // evidence samples: timeline without answers, the CNAME-rewrite scenario, a good answer
    if let Some((c, _)) = cfgs.first() {
        rep.samples.push(json!({"what": "no answers: retransmission/fail-over timeline", "run": scripted(c, &[&|e| *e == Ev::RunOut])}));
        for (ci, _) in cfgs.iter().filter(|c| c.0 .0.label.starts_with("eth-onlink-arp-never/") || c.0 .0.label.starts_with("bp-ip-1q")) {
            rep.samples.insert(0, json!({"what": "impaired link, nothing ever gets out: time to failure", "run": scripted(ci, &[&|e| *e == Ev::RunOut])}));
        }
        let base = base_spec(&c.0);
        let cut_after_cname = {
            // cut inside the second record of [Q->T, T A]: the CNAME has been processed, then parsing fails
            let full = build_payload(&c.0.names[0], T_A, &RSpec { ans: Ans::Cname1In, ..base }, 0, DNS_MAX_RESULT_COUNT).len() as u16;
            full - 1
        };
        let r1 = RSpec { ans: Ans::Cname1In, cut: Some(cut_after_cname), ..base };
        let r2 = RSpec { q: QSec::Name(Nm::T), ans: Ans::AFor(Nm::T), ..base };
        let good = RSpec { ans: Ans::Cname2In, ..base };
        rep.samples.push(json!({"what": "good CNAME chain answer", "run": scripted(c, &[&move |e| *e == Ev::Resp(0, good)])}));
        rep.samples.push(json!({"what": "CNAME then truncated record, then a response whose question is the CNAME target",
            "run": scripted(c, &[&move |e| *e == Ev::Resp(0, r1), &move |e| *e == Ev::Resp(0, r2)])}));
    }
    rep.finish()
}

/// Drive a fresh harness with the first enabled event satisfying each predicate; Some(status of
/// query 0) at the end.
fn drive(cfg: &DnsCfg, pick: &[&dyn Fn(&DnsH, &Ev) -> bool]) -> Option<Status> {
    let mut h = DnsH::new(cfg);
    let mut viols = vec![];
    for p in pick {
        let en = h.enabled();
        let (ev, _) = en.into_iter().find(|(e, _)| p(&h, e))?;
        h.apply(&ev, &mut viols);
    }
    Some(h.qs[0].status.clone())
}

fn positive_controls(cfgs: &[(DnsCfg, usize)]) -> Vec<Value> {
    let mut out = vec![];
    for (c, _) in cfgs {
        out.extend(controls_of(c));
    }
    out
}

/// Good responses that must complete the query. `kind` names the signature on failure.
fn controls_of(c: &DnsCfg) -> Vec<Value> {
    let mut out = vec![];
    let cfg_dbg = format!("{:?}", c);
    let mut rec = |name: String, st: Option<Status>| {
        let kind = if name.contains(">2KiB") {
            "large-wanted-record-after-foreign-records"
        } else if name.contains(">1KiB") {
            "large-cname-target-beyond-0x400"
        } else if name.contains("idle") {
            "after-idle-gap"
        } else if name.contains("unblock") {
            "after-back-pressure-is-lifted"
        } else if name.contains("ARP") {
            "after-arp-reply"
        } else {
            "small"
        };
        out.push(json!({"control": name, "kind": kind, "config": cfg_dbg, "completed": matches!(st, Some(Status::Ok(_))), "result": format!("{:?}", st)}));
    };
    {
        let base = base_spec(&c.0);
        let good = Ev::Resp(0, base);
        match c.0.net {
            Net::Ip if c.0.n0 == 0 => {
                // idle-gap configuration: 11 s without a poll, start_query, poll, good answer
                rec(
                    format!("{}: 11 s idle, start_query, good answer", c.0.label),
                    drive(c, &[&|_, e| *e == Ev::StartNext(11_000), &move |_, e| *e == good]),
                );
            }
            Net::Ip => {
                if c.0.alpha == Alpha::Mini {
                    return vec![];
                }
                rec(format!("{}: good small answer", c.0.label), drive(c, &[&move |_, e| *e == good]));
                let big = Ev::Resp(0, RSpec { ans: Ans::BigCname, ..base });
                rec(format!("{}: good >1KiB answer, CNAME target and owner pointer beyond 0x400", c.0.label), drive(c, &[&move |_, e| *e == big]));
                let big2 = Ev::Resp(0, RSpec { ans: Ans::BigForeign, enc: Enc::PtrAt(Pos::OwnerLast, 0x00c), ..base });
                rec(format!("{}: >2KiB answer whose last record is owned by the queried name", c.0.label), drive(c, &[&move |_, e| *e == big2]));
            }
            Net::IpBackPressureLater => {}
            Net::IpBackPressure => {
                rec(
                    format!("{}: tick, tick, unblock, good answer", c.0.label),
                    drive(c, &[&|_, e| *e == Ev::Tick, &|_, e| *e == Ev::Tick, &|_, e| *e == Ev::Unblock, &move |_, e| *e == good]),
                );
            }
            Net::EthOnLink(Some(_)) | Net::EthGateway(Some(_)) => {
                rec(
                    format!("{}: 3 ticks, ARP reply, good answer", c.0.label),
                    drive(
                        c,
                        &[&|_, e| *e == Ev::Tick, &|_, e| *e == Ev::Tick, &|_, e| *e == Ev::Tick, &|_, e| matches!(e, Ev::ArpReply(_)), &move |_, e| *e == good],
                    ),
                );
            }
            _ => {}
        }
    }
    out
}

fn control_sig(kind: &str) -> String {
    if kind == "large-wanted-record-after-foreign-records" {
        "C19/foreign-record/not-ignored/large-response".into()
    } else {
        format!("C19/good-response/not-completed/{}", kind)
    }
}

/// The answer-section sweep (dns/sweep.rs): violations + evidence.
fn run_sweep(rep: &mut Report, tier: Tier) {
    use rayon::prelude::*;
    let cases = sweep::enumerate(tier == Tier::Thorough);
    let outs: Vec<sweep::Outcome> = cases.par_iter().map(sweep::run_case).collect();
    let mut per_shape: BTreeMap<String, (u64, u64)> = BTreeMap::new();
    let mut per_kind: BTreeMap<String, u64> = BTreeMap::new();
    let mut sample_done = 0;
    for (c, o) in cases.iter().zip(outs.iter()) {
        let e = per_shape.entry(o.shape.to_string()).or_insert((0, 0));
        e.0 += 1;
        *per_kind.entry(format!("{} type{}", c.qname, c.qtype)).or_insert(0) += 1;
        if o.ok {
            e.1 += 1;
            if sample_done < 2 && c.foreign.len() == 2 && c.skel == sweep::Skel::C2A1 && c.foreign[0].0 != c.foreign[1].0 {
                sample_done += 1;
                rep.samples.insert(0, json!({"what": "answer-section sweep case (foreign records ignored, wanted addresses returned)",
                    "case": sweep::case_json(c), "response": o.response, "result": o.got}));
            }
        } else {
            let sig = if o.shape == "none" {
                format!("C19/good-response/not-completed/small-{:?}", c.skel).to_lowercase().replace("c19/", "C19/")
            } else {
                format!("C19/foreign-record/not-ignored/{}", o.shape)
            };
            let detail = format!(
                "query {} type {}: a matching response (configured server / mDNS port, own port, own txid, question repeated) with answer section {} must complete the query with {:?} (records owned by the unrelated name v.* ignored); result {}. dns={}",
                c.qname, c.qtype, o.response, o.expected, o.got, o.hex
            );
            rep.violation(sig, detail, sweep::case_json(c));
        }
        for v in &o.other {
            rep.violation(v.sig.clone(), v.detail.clone(), sweep::case_json(c));
        }
    }
    rep.add_count("evaluations", cases.len() as u64);
    rep.add_count("transitions", cases.len() as u64);
    rep.cov(
        "answer_section_sweep",
        json!({
            "rule": "query kind {A,AAAA} x {unicast, mDNS}; skeleton {[Q a],[Q a,Q a],[Q->T,T a],[Q->T,T a,T a],[Q->T,T->U,U a]}; 0..=2 records owned by an unrelated name, each {address same family, address other family, CNAME to T}, at every combination of gaps (both orders); compressed (thorough: also uncompressed); each case = one response delivered to the just-transmitted query on a fresh real interface; expected = Ok(addresses of the skeleton in order, cut at DNS_MAX_RESULT_COUNT)",
            "cases": cases.len(),
            "per_query_kind": per_kind,
            "per_position_of_first_foreign_record(cases, as_expected)": per_shape.iter().map(|(k, v)| (k.clone(), json!([v.0, v.1]))).collect::<BTreeMap<_, _>>(),
        }),
    );
}

/// Replay choices with a full narrative; returns (lines, violations).
fn narrate(cfg: &DnsCfg, choices: &[u16]) -> (Vec<String>, Vec<Viol>) {
    let mut lines = vec![];
    let mut viols = vec![];
    let mut h = DnsH::new(cfg);
    lines.push(format!("init: {}", state_line(&h)));
    for (i, &c) in choices.iter().enumerate() {
        let en = h.enabled();
        if c as usize >= en.len() {
            lines.push(format!("step {}: choice {} out of range ({} enabled)", i, c, en.len()));
            break;
        }
        let ev = en[c as usize].0;
        lines.push(format!("step {}: {}", i, describe_event(&h, &ev)));
        let r = catch_unwind(AssertUnwindSafe(|| h.apply(&ev, &mut viols)));
        if r.is_err() {
            lines.push("  => harness panicked".into());
            viols.push(Viol::new("C19/panic/harness", "panic outside the captured calls"));
            break;
        }
        lines.push(format!("  => {}", state_line(&h)));
    }
    (lines, viols)
}

pub fn replay(art: &Value) -> i32 {
    watch::start_monitor("replay");
    if art["replay"]["type"] == json!("answer-section") {
        let Some(c) = sweep::case_from_json(&art["replay"]) else {
            eprintln!("MACHINERY ERROR: malformed answer-section case");
            return 2;
        };
        let o = sweep::run_case(&c);
        println!("case: {:?}", c);
        println!("response: {}\n  dns={}", o.response, o.hex);
        println!("expected addresses (rdata): {:?}", o.expected);
        println!("result: {}", o.got);
        for v in &o.other {
            println!("violation: {} :: {}", v.sig, v.detail);
        }
        if o.ok && o.other.is_empty() {
            println!("no violation on replay");
            return 0;
        }
        println!("violation: wanted records not returned / foreign record not ignored ({})", o.shape);
        return 1;
    }
    let want = art["replay"]["config"].as_str().unwrap_or("");
    let mut all = configs(Tier::Quick);
    all.extend(configs(Tier::Thorough));
    let Some(cfg) = all.into_iter().map(|c| c.0).find(|c| format!("{:?}", c) == want) else {
        eprintln!("MACHINERY ERROR: configuration {:?} does not exist in this build (limits in effect: servers {}, results {}) - replay under the build variant that produced the artefact", want, DNS_MAX_SERVER_COUNT, DNS_MAX_RESULT_COUNT);
        return 2;
    };
    if art["replay"]["type"] == json!("control") {
        let kind = art["replay"]["kind"].as_str().unwrap_or("");
        let mut rc = 2;
        for c in controls_of(&cfg) {
            if c["kind"].as_str() == Some(kind) {
                println!("{}: {}", c["control"].as_str().unwrap_or(""), c["result"].as_str().unwrap_or(""));
                rc = if c["completed"] == json!(true) { 0 } else { 1 };
            }
        }
        if rc == 0 {
            println!("no violation on replay");
        }
        return rc;
    }
    let choices: Vec<u16> = match art["replay"]["choices"].as_array() {
        Some(a) => a.iter().map(|x| x.as_u64().unwrap_or(0) as u16).collect(),
        None => {
            // hang artefacts carry only the event strings: map them back to choices
            let evs: Vec<String> = art["replay"]["events"].as_array().map(|a| a.iter().filter_map(|x| x.as_str().map(String::from)).collect()).unwrap_or_default();
            let mut h = DnsH::new(&cfg);
            let mut ch = vec![];
            for e in &evs {
                let en = h.enabled();
                match en.iter().position(|(x, _)| format!("{:?}", x) == *e) {
                    Some(i) => {
                        ch.push(i as u16);
                        println!("applying {}", e);
                        let mut v = vec![];
                        h.apply(&en[i].0, &mut v); // the watchdog ends the process if this hangs
                    }
                    None => {
                        eprintln!("MACHINERY ERROR: event {} not enabled", e);
                        return 2;
                    }
                }
            }
            ch
        }
    };
    let (lines, viols) = narrate(&cfg, &choices);
    for l in lines {
        println!("{}", l);
    }
    let sig = art["signature"].as_str().unwrap_or("");
    if viols.is_empty() {
        println!("no violation on replay");
        return 0;
    }
    for v in &viols {
        println!("violation: {} :: {}", v.sig, v.detail);
    }
    if viols.iter().any(|v| v.sig == sig) || sig.is_empty() {
        1
    } else {
        println!("(the recorded signature {} did not recur, others did)", sig);
        1
    }
}
