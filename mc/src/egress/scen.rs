//! Part (b): single-interface scenarios. Every scenario is a deterministic script (socket calls,
//! injected frames, clock advances) run on a fresh `Rig`; the suite is the full product
//! medium x MTU x checksum capabilities x scenario x IP version x variant.

use super::c03::pkt::*;
use super::c03::seeds::{dhcp_frame, DhcpExtra, DHCP_SERVER_MAC};
use super::c03::world::{ip4, ip6, tx_l4, World, GW4, IFACE4, IFACE6, IFACE6_ULA, IFACE_MAC, PEER4, PEER6, PEER6_ULA, PEER_EXT, PEER_MAC};
use super::rig::*;
use smoltcp::iface::SocketHandle;
use smoltcp::phy::Medium;
use smoltcp::socket::{dhcpv4, dns, icmp, raw, tcp, udp};
use smoltcp::time::Duration;
use smoltcp::wire::{DnsQueryType, IpAddress, IpCidr, IpEndpoint, IpListenEndpoint, IpProtocol, IpVersion};
use std::collections::BTreeSet;

pub const OFF4: [u8; 4] = [10, 1, 2, 3];
pub const OFF6: [u8; 16] = [0x20, 0x01, 0x0d, 0xb8, 0, 0, 0, 0, 0, 0, 0, 0, 0, 0, 0, 9];
pub const GROUP4: [u8; 4] = [224, 0, 0, 251];
pub const GROUP4B: [u8; 4] = [239, 1, 2, 3];
pub const GROUP6: [u8; 16] = [0xff, 0x02, 0, 0, 0, 0, 0, 0, 0, 0, 0, 0, 0, 0, 0, 0xfb];
pub const GROUP6B: [u8; 16] = [0xff, 0x05, 0, 0, 0, 0, 0, 0, 0, 0, 0, 0, 0, 1, 0, 3];
/// NOT an address of the interface, but its low 16 bits equal those of fe80::1 / fd00::1
pub const ALIAS6: [u8; 16] = [0x20, 0x01, 0x0d, 0xb8, 0xaa, 0xaa, 0, 0, 0, 0, 0, 0, 0, 0, 0, 1];
pub const ALL_NODES6: [u8; 16] = [0xff, 0x02, 0, 0, 0, 0, 0, 0, 0, 0, 0, 0, 0, 0, 0, 1];

pub struct Scenario {
    pub name: &'static str,
    pub variants: usize,
    /// adjusts the rig configuration; None = not applicable
    pub setup: fn(Medium, bool, usize) -> Option<Tweak>,
    pub run: fn(&mut Rig, bool, usize),
}

pub(super) fn pat(n: usize, salt: u8) -> Vec<u8> {
    (0..n).map(|i| ((i * 7 + 3) as u8).wrapping_add(salt)).collect()
}
pub(super) fn ipa(b: &[u8]) -> IpAddress {
    if b.len() == 4 {
        ip4(&[b[0], b[1], b[2], b[3]])
    } else {
        let mut a = [0u8; 16];
        a.copy_from_slice(b);
        ip6(&a)
    }
}
pub(super) fn me(v6: bool) -> Vec<u8> {
    if v6 {
        IFACE6.to_vec()
    } else {
        IFACE4.to_vec()
    }
}
pub(super) fn peer(v6: bool) -> Vec<u8> {
    if v6 {
        PEER6.to_vec()
    } else {
        PEER4.to_vec()
    }
}
pub(super) fn off(v6: bool) -> Vec<u8> {
    if v6 {
        OFF6.to_vec()
    } else {
        OFF4.to_vec()
    }
}
pub(super) fn hdr(v6: bool) -> usize {
    if v6 {
        40
    } else {
        20
    }
}

/// which addresses the rig gets (at most two fit into the default IFACE_MAX_ADDR_COUNT)
#[derive(Clone, Copy, Debug)]
pub struct Tweak {
    pub slaac: bool,
    pub v4: bool,
    pub ll: bool,
    pub ula: bool,
    /// on rigs with a short hardware address: use the link-local address derived from it
    pub ll_from_short: bool,
}
/// IPv4 scenarios: 192.168.69.1 + fe80::1; IPv6 scenarios: fe80::1 + fd00::1
fn addrs_for(v6: bool) -> Tweak {
    Tweak { slaac: false, v4: !v6, ll: true, ula: v6, ll_from_short: false }
}
fn std_setup(m: Medium, v6: bool, _v: usize) -> Option<Tweak> {
    if !v6 && m == Medium::Ieee802154 {
        return None;
    }
    Some(addrs_for(v6))
}
/// the last variant (a foreign destination that shares its low 16 bits with an own address)
/// only exists for IPv6
fn alias_last_echo(m: Medium, v6: bool, v: usize) -> Option<Tweak> {
    if v == 5 && !v6 {
        return None;
    }
    std_setup(m, v6, v)
}
fn alias_last_4(m: Medium, v6: bool, v: usize) -> Option<Tweak> {
    if v == 4 && !v6 {
        return None;
    }
    std_setup(m, v6, v)
}
fn unknown_proto_setup(m: Medium, v6: bool, v: usize) -> Option<Tweak> {
    if v == 2 && !v6 {
        return None;
    }
    std_setup(m, v6, v)
}
fn linked_only(m: Medium, v6: bool, v: usize) -> Option<Tweak> {
    if m == Medium::Ip {
        return None;
    }
    std_setup(m, v6, v)
}

pub(super) fn udp_socket(rig: &mut Rig, port: u16, addr: Option<IpAddress>) -> SocketHandle {
    let mut u = udp::Socket::new(
        udp::PacketBuffer::new(vec![udp::PacketMetadata::EMPTY; 8], vec![0u8; 4096]),
        udp::PacketBuffer::new(vec![udp::PacketMetadata::EMPTY; 8], vec![0u8; 4096]),
    );
    u.bind(IpListenEndpoint { addr, port }).unwrap();
    rig.sockets.add(u)
}

/// inbound IPv4 datagram cut into fragments of `piece` payload octets (multiple of 8)
pub(super) fn v4_frags(src: &[u8], dst: &[u8], proto: u8, payload: &[u8], piece: usize, id: u16) -> Vec<Vec<u8>> {
    let piece = (piece / 8 * 8).max(8);
    let mut v = vec![];
    let mut o = 0;
    while o < payload.len() || (o == 0 && payload.is_empty()) {
        let e = (o + piece).min(payload.len());
        let mf = e < payload.len();
        v.push(ipv4(src, dst, proto, &payload[o..e], V4Opt { ttl: 64, id, flags_frag: ((mf as u16) << 13) | (o / 8) as u16, options: &[] }));
        o = e;
        if payload.is_empty() {
            break;
        }
    }
    v
}

/// frames that carry IP packet `ipp` towards the interface; on 802.15.4 the datagram is
/// 6LoWPAN-fragmented so that no frame exceeds 127 octets, on the other media IPv4 packets
/// larger than the IP MTU are IPv4-fragmented
pub(super) fn inbound(rig: &Rig, mac: &[u8; 6], ext: [u8; 8], ipp: &[u8], tag: u16) -> Vec<Vec<u8>> {
    match rig.medium() {
        Medium::Ieee802154 => {
            let src: [u8; 16] = ipp[8..24].try_into().unwrap();
            let dst: [u8; 16] = ipp[24..40].try_into().unwrap();
            let h = iphc(&Iphc { tf: 3, hlim: 0, sam: Am::Full, dam: Am::Full }, &src, &dst, Some(ipp[6]), ipp[7]);
            let body = &ipp[40..];
            let mac_hdr = World::mac_std(ext, 1);
            if 21 + h.len() + body.len() <= 125 {
                let mut p = h;
                p.extend_from_slice(body);
                return vec![mac154(&mac_hdr, &p)];
            }
            let mut out = vec![];
            let k = 64.min(body.len());
            let mut p = frag1(ipp.len() as u16, tag);
            p.extend_from_slice(&h);
            p.extend_from_slice(&body[..k]);
            out.push(mac154(&mac_hdr, &p));
            let mut o = k;
            while o < body.len() {
                let e = (o + 96).min(body.len());
                let mut p = fragn(ipp.len() as u16, tag, ((40 + o) / 8) as u8);
                p.extend_from_slice(&body[o..e]);
                out.push(mac154(&mac_hdr, &p));
                o = e;
            }
            out
        }
        _ => {
            if ipp[0] >> 4 == 4 && ipp.len() > rig.cfg.ip_mtu {
                let src = &ipp[12..16];
                let dst = &ipp[16..20];
                v4_frags(src, dst, ipp[9], &ipp[20..], rig.cfg.ip_mtu - 20, tag).into_iter().map(|p| rig.wrap(mac, ext, &p)).collect()
            } else {
                vec![rig.wrap(mac, ext, ipp)]
            }
        }
    }
}
pub(super) fn inject_ip(rig: &mut Rig, mac: &[u8; 6], ext: [u8; 8], ipp: &[u8], tag: u16) {
    for f in inbound(rig, mac, ext, ipp, tag) {
        rig.inject(f);
    }
}
pub(super) fn inject_from_peer(rig: &mut Rig, ipp: &[u8], tag: u16) {
    inject_ip(rig, &PEER_MAC, PEER_EXT, ipp, tag)
}

/// payload sizes around the boundaries that matter for this rig
fn payload_sizes(rig: &Rig, v6: bool, l4hdr: usize) -> Vec<usize> {
    let mut s: BTreeSet<usize> = [0usize, 1, 7, 32].into_iter().collect();
    match rig.medium() {
        Medium::Ieee802154 => {
            // single frame / FRAG1 / FRAGN boundaries all lie below 130 octets of payload
            s.extend(33..=130);
            s.extend([200, 500, 1000, 1231, 1232, 1233, 1400, 1440, 1452, 1453, 1500]);
        }
        _ => {
            let fit = rig.cfg.ip_mtu.saturating_sub(hdr(v6) + l4hdr);
            s.extend([fit.saturating_sub(1), fit, fit + 1, fit + 8, 2 * fit + 3]);
            // the egress fragmentation buffer holds 1500 octets
            s.extend([1500 - hdr(v6) - l4hdr, 1501 - hdr(v6) - l4hdr]);
            if rig.cfg.ip_mtu <= 100 {
                // many small fragments
                s.extend([300, 1000]);
            }
        }
    }
    let up: Vec<usize> = s.into_iter().filter(|&n| n <= 2000).collect();
    // ascending, then descending: a packet that follows a LARGER one finds stale bytes of its
    // predecessor in the interface's buffers
    let mut v = up.clone();
    v.extend(up.iter().rev().skip(1));
    v
}

// ------------------------------------------------------------------------------------------
// UDP
// ------------------------------------------------------------------------------------------

fn sc_udp_sizes(rig: &mut Rig, v6: bool, variant: usize) {
    rig.teach_neighbors();
    let bind = if variant == 3 { Some(ipa(&me(v6))) } else { None };
    // 6LoWPAN NHC has short forms for ports 0xf0b0..0xf0bf (4 bit) and 0xf000..0xf0ff (8 bit)
    let (sport, dport): (u16, u16) = match variant {
        6 => (0xf0b1, 0xf0b2),
        7 => (0xf011, 9000),
        8 => (7000, 0xf0fe),
        _ => (7000, 9000),
    };
    let h = udp_socket(rig, sport, bind);
    let dst: Vec<u8> = match (variant, v6) {
        (0, _) | (3, _) | (6, _) | (7, _) | (8, _) => peer(v6),
        // multicast destinations that take the 32-bit, 48-bit and the uncompressed IPHC form
        (9, true) => GROUP6B.to_vec(),
        (10, true) => solicited(&PEER6).to_vec(),
        (11, true) => vec![0xff, 0x0e, 0, 1, 0, 0, 0, 0, 0, 0, 0, 0, 0, 0, 0, 1],
        (9, false) | (10, false) | (11, false) => GROUP4B.to_vec(),
        (1, true) => PEER6_ULA.to_vec(),
        (1, false) => OFF4.to_vec(),
        (2, true) => GROUP6.to_vec(),
        (2, false) => vec![255, 255, 255, 255],
        (4, true) => OFF6.to_vec(),
        (4, false) => vec![192, 168, 69, 255],
        (_, true) => ALL_NODES6.to_vec(),
        (_, false) => GROUP4.to_vec(),
    };
    for n in payload_sizes(rig, v6, 8) {
        let data = pat(n, 1);
        let r = rig.sockets.get_mut::<udp::Socket>(h).send_slice(&data, IpEndpoint::new(ipa(&dst), dport));
        rig.note(|| format!("udp send {} octets from port {:#x} to {:?} port {:#x} -> {:?}", n, sport, dst, dport, r));
        rig.settle();
    }
}

fn sc_udp_unresolved(rig: &mut Rig, v6: bool, variant: usize) {
    let h = udp_socket(rig, 7000, None);
    let dst = if variant == 0 { peer(v6) } else { off(v6) };
    let _ = rig.sockets.get_mut::<udp::Socket>(h).send_slice(&pat(10, 2), IpEndpoint::new(ipa(&dst), 9000));
    rig.settle();
    // the request is repeated while the neighbor stays silent
    for _ in 0..3 {
        rig.advance(1_100_000);
    }
    // answer of the next hop
    let (hop4, hop6, mac, ext) = if variant == 0 { (PEER4, PEER6, PEER_MAC, PEER_EXT) } else { (GW4, super::c03::world::GW6, GW_MAC, GW_EXT) };
    if v6 {
        let f = rig.na_frame(&hop6, &mac, ext, &IFACE6);
        rig.inject(f);
    } else {
        rig.inject(eth(&IFACE_MAC, &mac, 0x0806, &arp(2, &mac, &hop4, &IFACE_MAC, &IFACE4)));
    }
    rig.advance(1_100_000);
    rig.advance(3_000_000);
}

// ------------------------------------------------------------------------------------------
// 802.15.4: ordered pairs of datagrams over all IPHC destination forms, fragmented or not
// ------------------------------------------------------------------------------------------

/// neighbors whose link-local addresses take the 16-bit and the 64-bit inline IPHC form (their
/// interface identifiers are NOT derived from their link-layer addresses)
pub const PEER16_IP: [u8; 16] = [0xfe, 0x80, 0, 0, 0, 0, 0, 0, 0, 0, 0, 0xff, 0xfe, 0, 0x12, 0x34];
pub const PEER16_EXT: [u8; 8] = [2, 0, 0, 0, 0, 0, 0, 0x16];
pub const PEER64_IP: [u8; 16] = [0xfe, 0x80, 0, 0, 0, 0, 0, 0, 0xaa, 0xaa, 0xbb, 0xbb, 0xcc, 0xcc, 0xdd, 0xdd];
pub const PEER64_EXT: [u8; 8] = [2, 0, 0, 0, 0, 0, 0, 0x64];

/// (name, destination, neighbor to (re-)teach before sending: (its address, its link address,
/// which of our addresses it solicits))
fn pair_destinations(me_ll: [u8; 16]) -> Vec<(&'static str, [u8; 16], Option<([u8; 16], [u8; 8], [u8; 16])>)> {
    vec![
        ("mcast-8bit ff02::1", ALL_NODES6, None),
        ("mcast-32bit ff05::1:3", GROUP6B, None),
        ("mcast-48bit ff02::1:ff00:2", solicited(&PEER6), None),
        ("mcast-inline ff0e:1::1", [0xff, 0x0e, 0, 1, 0, 0, 0, 0, 0, 0, 0, 0, 0, 0, 0, 1], None),
        ("ll-elided fe80::2", PEER6, Some((PEER6, PEER_EXT, me_ll))),
        ("ll-16bit fe80::ff:fe00:1234", PEER16_IP, Some((PEER16_IP, PEER16_EXT, me_ll))),
        ("ll-64bit fe80::aaaa:bbbb:cccc:dddd", PEER64_IP, Some((PEER64_IP, PEER64_EXT, me_ll))),
        ("global fd00::2", PEER6_ULA, Some((PEER6_ULA, PEER_EXT, IFACE6_ULA))),
    ]
}

fn lowpan_only(m: Medium, v6: bool, _v: usize) -> Option<Tweak> {
    if !v6 || m != Medium::Ieee802154 {
        return None;
    }
    Some(Tweak { ll_from_short: true, ..addrs_for(true) })
}

/// variant = the FIRST datagram of the pair (destination form x {one frame, fragmented}); the
/// scenario sends (first, second) for every second datagram of the same 16. Every frame goes
/// through the monitor, and every complete UDP datagram the monitor decodes must be the one
/// that was handed to the socket (destination, ports, length): a compressed header that decodes
/// to something else is not the packet it claims to be.
fn sc_lowpan_pairs(rig: &mut Rig, _v6: bool, variant: usize) {
    // on rigs with a short hardware address the link-local address is the one derived from it
    // (source fully elided by IPHC); the MAC header is then 9 octets towards multicast
    // destinations (link broadcast) and 15 towards the neighbors (extended addresses: the
    // neighbor cache of an 802.15.4 interface only ever learns those)
    let dsts = pair_destinations(rig.cfg.ll());
    let h = udp_socket(rig, 7000, None);
    // 10 octets: one frame; 300 octets: FRAG1 + two full FRAGN + a short last one
    let item = |i: usize| -> (usize, usize) { (i / 2, if i % 2 == 0 { 10 } else { 300 }) };
    let mut dport = 9000u16;
    let mut send = |rig: &mut Rig, i: usize| {
        let (d, n) = item(i);
        let (name, dst, teach) = &dsts[d];
        if let Some((ip, ext, target)) = teach {
            // the neighbor speaks first (again: the neighbor cache may be small)
            let f = rig.ns_frame(ip, &PEER_MAC, *ext, target, true, false);
            rig.inject(f);
        }
        dport += 1;
        let mark = rig.log.len();
        let r = rig.sockets.get_mut::<udp::Socket>(h).send_slice(&pat(n, i as u8), IpEndpoint::new(ipa(dst), dport));
        rig.note(|| format!("udp send {} octets to {} port {} -> {:?}", n, name, dport, r));
        rig.settle();
        let want = crate::wirecheck::Addr::V6(*dst);
        let mut bad = vec![];
        for rec in &rig.log[mark..] {
            for (src, got_dst, sp, dp, len) in &rec.verdict.udp_seen {
                if *sp != 7000 {
                    continue;
                }
                if *got_dst != want || *dp != dport || *len != n {
                    bad.push((
                        "C10/encoding/6lowpan/decompressed-datagram-differs-from-the-one-sent".to_string(),
                        format!(
                            "the socket was given {} octets for {} port {}, the frame(s) decode to {} octets from {} port {} to {} port {} | last frame[{}] {} ({})",
                            n,
                            want,
                            dport,
                            len,
                            src,
                            sp,
                            got_dst,
                            dp,
                            rec.frame.len(),
                            crate::sim::hex(&rec.frame),
                            rec.verdict.shape
                        ),
                    ));
                }
            }
        }
        rig.extra_findings.extend(bad);
    };
    for second in 0..2 * dsts.len() {
        send(rig, variant);
        send(rig, second);
    }
}

// ------------------------------------------------------------------------------------------
// ICMP
// ------------------------------------------------------------------------------------------

fn sc_icmp_echo_out(rig: &mut Rig, v6: bool, variant: usize) {
    rig.teach_neighbors();
    let mut s = icmp::Socket::new(
        icmp::PacketBuffer::new(vec![icmp::PacketMetadata::EMPTY; 4], vec![0u8; 4096]),
        icmp::PacketBuffer::new(vec![icmp::PacketMetadata::EMPTY; 4], vec![0u8; 4096]),
    );
    s.bind(icmp::Endpoint::Ident(0x1234)).unwrap();
    let h = rig.sockets.add(s);
    let dst = if variant == 0 { peer(v6) } else { off(v6) };
    for (i, n) in payload_sizes(rig, v6, 8).into_iter().enumerate() {
        let body = echo_body(0x1234, i as u16, &pat(n, 3));
        let msg = if v6 { icmp6(&me(v6), &dst, 128, 0, &body) } else { icmp4(8, 0, body[..4].try_into().unwrap(), &body[4..]) };
        let r = rig.sockets.get_mut::<icmp::Socket>(h).send_slice(&msg, ipa(&dst));
        rig.note(|| format!("icmp socket sends echo request with {} data octets -> {:?}", n, r));
        rig.settle();
    }
}

pub(super) fn echo_request(v6: bool, src: &[u8], dst: &[u8], seq: u16, n: usize) -> Vec<u8> {
    let body = echo_body(0x7777, seq, &pat(n, 4));
    if v6 {
        ipv6(src, dst, 58, 64, &icmp6(src, dst, 128, 0, &body))
    } else {
        ipv4(src, dst, 1, &icmp4(8, 0, body[..4].try_into().unwrap(), &body[4..]), V4)
    }
}

fn sc_echo_in(rig: &mut Rig, v6: bool, variant: usize) {
    rig.teach_neighbors();
    let (src, dst, via_gw): (Vec<u8>, Vec<u8>, bool) = match (variant, v6) {
        (0, _) => (peer(v6), me(v6), false),
        (1, true) => (peer(v6), ALL_NODES6.to_vec(), false),
        (1, false) => (peer(v6), vec![255; 4], false),
        (2, true) => (peer(v6), solicited(&IFACE6).to_vec(), false),
        (2, false) => (peer(v6), vec![192, 168, 69, 255], false),
        (3, true) => (PEER6_ULA.to_vec(), IFACE6_ULA.to_vec(), false),
        (3, false) => (peer(v6), vec![224, 0, 0, 1], false),
        (5, _) => (peer(v6), ALIAS6.to_vec(), false),
        (_, _) => (off(v6), if v6 { IFACE6_ULA.to_vec() } else { me(v6) }, true),
    };
    let mut sizes = payload_sizes(rig, v6, 8);
    // the ingress reassembly buffer holds 1500 octets
    sizes.retain(|&n| n + hdr(v6) + 8 <= 1500);
    for (i, n) in sizes.into_iter().enumerate() {
        let p = echo_request(v6, &src, &dst, i as u16, n);
        if rig.medium() != Medium::Ieee802154 && v6 && p.len() > rig.cfg.ip_mtu {
            continue; // cannot arrive: no IPv6 fragmentation
        }
        if via_gw {
            inject_ip(rig, &GW_MAC, GW_EXT, &p, 0x100 + i as u16);
        } else {
            inject_from_peer(rig, &p, 0x100 + i as u16);
        }
    }
}

fn sc_udp_closed_port(rig: &mut Rig, v6: bool, variant: usize) {
    rig.teach_neighbors();
    let (src, dst): (Vec<u8>, Vec<u8>) = match (variant, v6) {
        (0, _) => (peer(v6), me(v6)),
        (1, true) => (peer(v6), ALL_NODES6.to_vec()),
        (1, false) => (peer(v6), vec![255; 4]),
        (2, true) => (PEER6_ULA.to_vec(), IFACE6_ULA.to_vec()),
        (4, _) => (peer(v6), ALIAS6.to_vec()),
        (_, true) => (peer(v6), solicited(&IFACE6).to_vec()),
        (_, false) => (peer(v6), vec![192, 168, 69, 255]),
    };
    let mut sizes = payload_sizes(rig, v6, 8);
    sizes.retain(|&n| n + hdr(v6) + 8 <= 1500);
    for (i, n) in sizes.into_iter().enumerate() {
        let u = udp(&src, &dst, 4000, 9, &pat(n, 5));
        let p = ip(&src, &dst, 17, &u);
        if rig.medium() != Medium::Ieee802154 && v6 && p.len() > rig.cfg.ip_mtu {
            continue;
        }
        inject_from_peer(rig, &p, 0x200 + i as u16);
    }
}

fn sc_unknown_proto(rig: &mut Rig, v6: bool, variant: usize) {
    rig.teach_neighbors();
    // variant 2 (IPv6 only): the packet is handed to us by the link (our hardware address) but
    // its IP destination is another host on the link
    let other6: Vec<u8> = vec![0xfe, 0x80, 0, 0, 0, 0, 0, 0, 0, 0, 0, 0, 0, 0, 1, 1];
    let (src, dst) = if variant == 0 {
        (peer(v6), me(v6))
    } else if variant == 2 {
        (peer(v6), other6)
    } else if v6 {
        (peer(v6), ALL_NODES6.to_vec())
    } else {
        (peer(v6), vec![255; 4])
    };
    let mut sizes = payload_sizes(rig, v6, 0);
    sizes.retain(|&n| n + hdr(v6) <= 1500);
    for (i, n) in sizes.into_iter().enumerate() {
        let p = ip(&src, &dst, 99, &pat(n, 6));
        if rig.medium() != Medium::Ieee802154 && v6 && p.len() > rig.cfg.ip_mtu {
            continue;
        }
        inject_from_peer(rig, &p, 0x300 + i as u16);
    }
    if v6 {
        // hop-by-hop options whose type says "discard and send a parameter problem"
        // (10xxxxxx: always, 11xxxxxx: unless the destination is multicast)
        for (k, ty) in [0x80u8, 0x9e, 0xc2].into_iter().enumerate() {
            let hbh = ext_hdr(17, &[ty, 2, 1, 2]);
            let mut pl = hbh;
            pl.extend_from_slice(&udp(&src, &dst, 4000, 7000, b"xy"));
            let p = ipv6(&src, &dst, 0, 64, &pl);
            inject_from_peer(rig, &p, 0x3f0 + k as u16);
        }
    }
}

// ------------------------------------------------------------------------------------------
// TCP
// ------------------------------------------------------------------------------------------

fn sc_tcp_closed(rig: &mut Rig, v6: bool, variant: usize) {
    rig.teach_neighbors();
    let (src, dst): (Vec<u8>, Vec<u8>) = match (variant, v6) {
        (0, _) => (peer(v6), me(v6)),
        (1, true) => (peer(v6), ALL_NODES6.to_vec()),
        (1, false) => (peer(v6), vec![255; 4]),
        (2, true) => (PEER6_ULA.to_vec(), IFACE6_ULA.to_vec()),
        (2, false) => (peer(v6), vec![192, 168, 69, 255]),
        (4, _) => (peer(v6), ALIAS6.to_vec()),
        (_, true) => (off(v6), IFACE6_ULA.to_vec()),
        (_, false) => (off(v6), me(v6)),
    };
    let segs: Vec<Vec<u8>> = vec![
        tcp(&src, &dst, 4000, 81, 1000, 0, SYN, 1024, &[2, 4, 5, 0xb4], &[]),
        tcp(&src, &dst, 4000, 81, 1000, 0, SYN, 1024, &[], b"data-on-syn"),
        tcp(&src, &dst, 4000, 81, 2000, 3000, ACK, 1024, &[], &[]),
        tcp(&src, &dst, 4000, 81, 2000, 3000, ACK | PSH, 1024, &[], &pat(100, 7)),
        tcp(&src, &dst, 4000, 81, 2000, 3000, ACK | FIN, 1024, &[], &[]),
        tcp(&src, &dst, 4000, 81, 0xffff_fff0, 0, SYN | FIN, 1024, &[], &[]),
        tcp(&src, &dst, 4000, 81, 5, 6, RST, 0, &[], &[]),
    ];
    for (i, s) in segs.iter().enumerate() {
        let p = ip(&src, &dst, 6, s);
        if variant == 3 {
            inject_ip(rig, &GW_MAC, GW_EXT, &p, 0x400 + i as u16);
        } else {
            inject_from_peer(rig, &p, 0x400 + i as u16);
        }
    }
}

struct TcpPeer {
    me: Vec<u8>,
    peer: Vec<u8>,
    pport: u16,
    lport: u16,
    seq: u32,
    ack: u32,
    ts: bool,
    tsval: u32,
}
impl TcpPeer {
    fn seg(&mut self, flags: u8, win: u16, extra_opts: &[u8], payload: &[u8]) -> Vec<u8> {
        let mut o = extra_opts.to_vec();
        if self.ts {
            self.tsval += 1;
            o.extend_from_slice(&[1, 1, 8, 10]);
            o.extend_from_slice(&self.tsval.to_be_bytes());
            o.extend_from_slice(&[0, 0, 0, 1]);
        }
        let t = tcp(&self.peer, &self.me, self.pport, self.lport, self.seq, if flags & ACK != 0 { self.ack } else { 0 }, flags, win, &o, payload);
        ip(&self.peer, &self.me, 6, &t)
    }
    fn seg_at(&mut self, seq: u32, flags: u8, win: u16, payload: &[u8]) -> Vec<u8> {
        let keep = self.seq;
        self.seq = seq;
        let r = self.seg(flags, win, &[], payload);
        self.seq = keep;
        r
    }
}

/// sequence number of the first SYN / SYN-ACK from local port `lport` in the log after `mark`
fn find_iss(rig: &Rig, mark: usize, lport: u16) -> Option<u32> {
    rig.log[mark..].iter().filter_map(|r| tx_l4(rig.medium(), &r.frame)).find(|v| v.proto == 6 && v.sport == lport && v.body.len() >= 20 && v.body[13] & SYN != 0).map(|v| u32::from_be_bytes(v.body[4..8].try_into().unwrap()))
}

fn tcp_socket(buf: usize, variant: usize) -> tcp::Socket<'static> {
    let mut s = tcp::Socket::new(tcp::SocketBuffer::new(vec![0u8; buf]), tcp::SocketBuffer::new(vec![0u8; buf]));
    if variant == 1 {
        s.set_tsval_generator(Some(|| 0x0102_0304));
    }
    if variant == 2 {
        s.set_keep_alive(Some(Duration::from_millis(800)));
        s.set_nagle_enabled(false);
        s.set_ack_delay(None);
    }
    s
}

fn sc_tcp_server(rig: &mut Rig, v6: bool, variant: usize) {
    rig.teach_neighbors();
    let mut s = tcp_socket(8192, variant);
    s.listen(80).unwrap();
    let h = rig.sockets.add(s);
    let mut p = TcpPeer { me: me(v6), peer: peer(v6), pport: 4000, lport: 80, seq: 0x1000_0000, ack: 0, ts: variant == 1, tsval: 100 };
    let mark = rig.log.len();
    // SYN with MSS / window scale / SACK-permitted (+ timestamps)
    let syn = p.seg(SYN, 4096, &[2, 4, 5, 0xb4, 1, 3, 3, 2, 4, 2], &[]);
    inject_from_peer(rig, &syn, 0x500);
    let Some(iss) = find_iss(rig, mark, 80) else {
        rig.note(|| "no SYN-ACK seen".into());
        return;
    };
    p.seq = p.seq.wrapping_add(1);
    p.ack = iss.wrapping_add(1);
    let f = p.seg(ACK, 4096, &[], &[]);
    inject_from_peer(rig, &f, 0x501);
    // in-order data
    let f = p.seg(ACK | PSH, 4096, &[], &pat(10, 8));
    inject_from_peer(rig, &f, 0x502);
    p.seq = p.seq.wrapping_add(10);
    rig.advance(20_000);
    // three separate out-of-order blocks -> duplicate ACKs carrying 1, 2, 3 SACK ranges
    for (i, gap) in [20u32, 40, 60].into_iter().enumerate() {
        let f = p.seg_at(p.seq.wrapping_add(gap), ACK, 4096, &pat(10, 9));
        inject_from_peer(rig, &f, 0x510 + i as u16);
    }
    rig.advance(20_000);
    // the application drains what it got
    {
        let s = rig.sockets.get_mut::<tcp::Socket>(h);
        while s.can_recv() {
            if s.recv(|b| (b.len(), ())).is_err() {
                break;
            }
        }
    }
    rig.settle();
    // the server sends: around the segment size boundaries
    let mss = rig.cfg.ip_mtu.min(1500).saturating_sub(hdr(v6) + 20 + if variant == 1 { 12 } else { 0 }).max(1).min(1460);
    let mut sent: u32 = 0;
    for n in [1usize, mss.saturating_sub(1).max(1), mss, mss + 1, 3 * mss + 5] {
        let n = n.min(3000);
        let k = rig.sockets.get_mut::<tcp::Socket>(h).send_slice(&pat(n, 10)).unwrap_or(0);
        rig.settle();
        // unacknowledged for a while: retransmission
        rig.advance(1_200_000);
        sent = sent.wrapping_add(k as u32);
        p.ack = iss.wrapping_add(1).wrapping_add(sent);
        let f = p.seg(ACK, 4096, &[], &[]);
        inject_from_peer(rig, &f, 0x520);
        rig.settle();
    }
    // zero window: queued data must wait, probes go out
    let f = p.seg(ACK, 0, &[], &[]);
    inject_from_peer(rig, &f, 0x530);
    let k = rig.sockets.get_mut::<tcp::Socket>(h).send_slice(&pat(50, 11)).unwrap_or(0);
    rig.settle();
    for _ in 0..4 {
        if !rig.advance_to_deadline(120_000_000) {
            break;
        }
    }
    let f = p.seg(ACK, 4096, &[], &[]);
    inject_from_peer(rig, &f, 0x531);
    rig.settle();
    sent = sent.wrapping_add(k as u32);
    p.ack = iss.wrapping_add(1).wrapping_add(sent);
    let f = p.seg(ACK, 4096, &[], &[]);
    inject_from_peer(rig, &f, 0x532);
    if variant == 2 {
        // idle: keep-alives
        for _ in 0..3 {
            rig.advance(900_000);
        }
    }
    // RST that is in the window but not exactly at RCV.NXT -> challenge ACK
    let f = p.seg_at(p.seq.wrapping_add(5), RST, 0, &[]);
    inject_from_peer(rig, &f, 0x540);
    // a SYN inside an established connection -> challenge ACK
    let f = p.seg_at(p.seq.wrapping_add(1), SYN, 1024, &[]);
    inject_from_peer(rig, &f, 0x541);
    // an ACK for data never sent
    p.ack = p.ack.wrapping_add(5000);
    let f = p.seg(ACK, 4096, &[], &[]);
    inject_from_peer(rig, &f, 0x542);
    p.ack = p.ack.wrapping_sub(5000);
    // close from our side, peer answers with FIN
    rig.sockets.get_mut::<tcp::Socket>(h).close();
    rig.settle();
    p.ack = p.ack.wrapping_add(1);
    let f = p.seg(ACK | FIN, 4096, &[], &[]);
    inject_from_peer(rig, &f, 0x550);
    rig.advance(20_000);
    rig.advance(11_000_000);
}

fn sc_tcp_client(rig: &mut Rig, v6: bool, variant: usize) {
    rig.teach_neighbors();
    let s = tcp_socket(4096, variant);
    let h = rig.sockets.add(s);
    let dst = if variant == 3 { off(v6) } else { peer(v6) };
    let local = if variant == 3 && v6 { IFACE6_ULA.to_vec() } else { me(v6) };
    let mark = rig.log.len();
    {
        let cx = rig.iface.context();
        let r = rig.sockets.get_mut::<tcp::Socket>(h).connect(cx, IpEndpoint::new(ipa(&dst), 80), 49152);
        rig.note(|| format!("connect -> {:?}", r));
    }
    rig.settle();
    // SYN retransmissions
    for _ in 0..3 {
        if !rig.advance_to_deadline(120_000_000) {
            break;
        }
    }
    let Some(iss) = find_iss(rig, mark, 49152) else {
        rig.note(|| "no SYN seen".into());
        return;
    };
    let mut p = TcpPeer { me: local, peer: dst, pport: 80, lport: 49152, seq: 0x2000_0000, ack: iss.wrapping_add(1), ts: variant == 1, tsval: 7 };
    // peer with a small MSS: forces segmentation well below the MTU
    let f = p.seg(SYN | ACK, 4096, &[2, 4, 0, 100], &[]);
    let (mac, ext) = if variant == 3 { (GW_MAC, GW_EXT) } else { (PEER_MAC, PEER_EXT) };
    inject_ip(rig, &mac, ext, &f, 0x600);
    p.seq = p.seq.wrapping_add(1);
    let mut sent = 0u32;
    for n in [1usize, 99, 100, 101, 250] {
        let k = rig.sockets.get_mut::<tcp::Socket>(h).send_slice(&pat(n, 12)).unwrap_or(0);
        rig.settle();
        sent = sent.wrapping_add(k as u32);
        p.ack = iss.wrapping_add(1).wrapping_add(sent);
        let f = p.seg(ACK, 4096, &[], &[]);
        inject_ip(rig, &mac, ext, &f, 0x601);
    }
    // peer closes first
    let f = p.seg(ACK | FIN, 4096, &[], &[]);
    inject_ip(rig, &mac, ext, &f, 0x610);
    p.seq = p.seq.wrapping_add(1);
    rig.advance(20_000);
    rig.sockets.get_mut::<tcp::Socket>(h).close();
    rig.settle();
    // FIN not acknowledged: retransmitted
    for _ in 0..2 {
        if !rig.advance_to_deadline(120_000_000) {
            break;
        }
    }
    // abort of a second connection: RST
    let s2 = tcp_socket(1024, 0);
    let h2 = rig.sockets.add(s2);
    {
        let cx = rig.iface.context();
        let _ = rig.sockets.get_mut::<tcp::Socket>(h2).connect(cx, IpEndpoint::new(ipa(&p.peer), 81), 49153);
    }
    rig.settle();
    rig.sockets.get_mut::<tcp::Socket>(h2).abort();
    rig.settle();
}

// ------------------------------------------------------------------------------------------
// ARP / NDISC / SLAAC
// ------------------------------------------------------------------------------------------

fn sc_arp_in(rig: &mut Rig, _v6: bool, _variant: usize) {
    let other = [192, 168, 69, 77];
    let frames = vec![
        eth(&[0xff; 6], &PEER_MAC, 0x0806, &arp(1, &PEER_MAC, &PEER4, &[0; 6], &IFACE4)),
        eth(&IFACE_MAC, &PEER_MAC, 0x0806, &arp(1, &PEER_MAC, &PEER4, &IFACE_MAC, &IFACE4)),
        eth(&[0xff; 6], &PEER_MAC, 0x0806, &arp(1, &PEER_MAC, &PEER4, &[0; 6], &other)),
        // gratuitous
        eth(&[0xff; 6], &PEER_MAC, 0x0806, &arp(1, &PEER_MAC, &PEER4, &[0; 6], &PEER4)),
        // address probe (sender protocol address 0.0.0.0)
        eth(&[0xff; 6], &PEER_MAC, 0x0806, &arp(1, &PEER_MAC, &[0; 4], &[0; 6], &IFACE4)),
        // unsolicited reply
        eth(&IFACE_MAC, &PEER_MAC, 0x0806, &arp(2, &PEER_MAC, &PEER4, &IFACE_MAC, &IFACE4)),
        // request from an off-link sender
        eth(&[0xff; 6], &GW_MAC, 0x0806, &arp(1, &GW_MAC, &OFF4, &[0; 6], &IFACE4)),
        // padded to the Ethernet minimum like a real NIC delivers it
        {
            let mut f = eth(&[0xff; 6], &PEER_MAC, 0x0806, &arp(1, &PEER_MAC, &PEER4, &[0; 6], &IFACE4));
            f.resize(60, 0);
            f
        },
    ];
    for f in frames {
        rig.inject(f);
    }
}

fn sc_ns_in(rig: &mut Rig, _v6: bool, variant: usize) {
    let (src, target): ([u8; 16], [u8; 16]) = match variant {
        0 => (PEER6, IFACE6),
        1 => (PEER6_ULA, IFACE6_ULA),
        2 => (PEER6, IFACE6_ULA),
        _ => (OFF6, IFACE6_ULA),
    };
    for (sllao, unicast) in [(true, false), (true, true), (false, false), (false, true)] {
        let f = rig.ns_frame(&src, &PEER_MAC, PEER_EXT, &target, sllao, unicast);
        rig.inject(f);
    }
    // duplicate address detection probe for our address (from ::)
    let f = rig.ns_frame(&[0; 16], &PEER_MAC, PEER_EXT, &target, false, false);
    rig.inject(f);
    // solicitation for an address we do not own
    let f = rig.ns_frame(&src, &PEER_MAC, PEER_EXT, &PEER6_ULA, true, false);
    rig.inject(f);
    // unsolicited advertisement
    let f = rig.na_frame(&PEER6, &PEER_MAC, PEER_EXT, &IFACE6);
    rig.inject(f);
}

fn ra_frame(rig: &Rig, lifetime: u16, prefix: Option<([u8; 8], u32, u32)>) -> Vec<u8> {
    let src = super::c03::world::GW6;
    let dst = ALL_NODES6;
    let mut body = vec![64, 0];
    body.extend_from_slice(&lifetime.to_be_bytes());
    body.extend_from_slice(&[0; 8]);
    match rig.medium() {
        Medium::Ethernet => body.extend_from_slice(&lladdr_opt(1, &GW_MAC)),
        _ => body.extend_from_slice(&lladdr_opt(1, &GW_EXT)),
    }
    if let Some((pfx, valid, pref)) = prefix {
        let mut o = vec![3, 4, 64, 0xc0];
        o.extend_from_slice(&valid.to_be_bytes());
        o.extend_from_slice(&pref.to_be_bytes());
        o.extend_from_slice(&[0; 4]);
        o.extend_from_slice(&pfx);
        o.extend_from_slice(&[0; 8]);
        body.extend_from_slice(&o);
    }
    let m = icmp6(&src, &dst, 134, 0, &body);
    rig.wrap(&GW_MAC, GW_EXT, &ipv6(&src, &dst, 58, 255, &m))
}

fn slaac_setup(m: Medium, v6: bool, _v: usize) -> Option<Tweak> {
    if !v6 || m == Medium::Ip {
        return None;
    }
    // one slot stays free for the autoconfigured address
    Some(Tweak { slaac: true, v4: false, ll: true, ula: false, ll_from_short: false })
}
fn sc_slaac(rig: &mut Rig, _v6: bool, variant: usize) {
    // router solicitations until a router answers
    rig.settle();
    for _ in 0..4 {
        if !rig.advance_to_deadline(60_000_000) {
            break;
        }
    }
    let pfx = [0x20, 0x01, 0x0d, 0xb8, 0, 0, 0, 1];
    let f = ra_frame(rig, 1800, Some((pfx, 30, 20)));
    rig.inject(f);
    rig.settle();
    // traffic that must now use the autoconfigured address: off-link destination via the router
    rig.teach_neighbors();
    let h = udp_socket(rig, 7000, None);
    let mut dst = [0u8; 16];
    dst[..8].copy_from_slice(&pfx);
    dst[15] = 0x42;
    for d in [OFF6.to_vec(), dst.to_vec()] {
        let _ = rig.sockets.get_mut::<udp::Socket>(h).send_slice(&pat(20, 13), IpEndpoint::new(ipa(&d), 9000));
        rig.settle();
        rig.advance(1_100_000);
    }
    if variant == 1 {
        // a second prefix and the router going away
        let f = ra_frame(rig, 0, Some(([0xfd, 0x12, 0, 0, 0, 0, 0, 2], 10, 5)));
        rig.inject(f);
    }
    // prefix lifetime runs out: the address disappears again
    for _ in 0..6 {
        if !rig.advance_to_deadline(120_000_000) {
            break;
        }
    }
    let _ = rig.sockets.get_mut::<udp::Socket>(h).send_slice(&pat(20, 14), IpEndpoint::new(ipa(&OFF6), 9000));
    rig.settle();
    rig.advance(1_100_000);
}

// ------------------------------------------------------------------------------------------
// multicast: MLD / IGMP
// ------------------------------------------------------------------------------------------

fn mcast_setup(m: Medium, v6: bool, _v: usize) -> Option<Tweak> {
    if !v6 && m == Medium::Ieee802154 {
        return None;
    }
    Some(addrs_for(v6))
}
fn sc_mld(rig: &mut Rig, _v6: bool, variant: usize) {
    // first poll: reports for the solicited-node groups of the configured addresses (Ethernet)
    rig.settle();
    let _ = rig.iface.join_multicast_group(ipa(&GROUP6));
    rig.settle();
    let _ = rig.iface.join_multicast_group(ipa(&GROUP6B));
    rig.settle();
    // general query, then a group-specific one (MLDv2 query: 28 octets)
    let q = |group: &[u8; 16]| -> Vec<u8> {
        let src = super::c03::world::GW6;
        let dst = if group == &[0u8; 16] { ALL_NODES6 } else { *group };
        let mut body = vec![0x03, 0xe8, 0, 0];
        body.extend_from_slice(group);
        body.extend_from_slice(&[2, 125, 0, 0]);
        let m = icmp6(&src, &dst, 130, 0, &body);
        let mut pl = ext_hdr(58, &[5, 2, 0, 0]);
        pl.extend_from_slice(&m);
        ipv6(&src, &dst, 0, 1, &pl)
    };
    let p = q(&[0; 16]);
    inject_ip(rig, &GW_MAC, GW_EXT, &p, 0x700);
    for _ in 0..3 {
        if !rig.advance_to_deadline(60_000_000) {
            rig.advance(1_000_000);
        }
    }
    let p = q(&GROUP6);
    inject_ip(rig, &GW_MAC, GW_EXT, &p, 0x701);
    for _ in 0..3 {
        if !rig.advance_to_deadline(60_000_000) {
            rig.advance(1_000_000);
        }
    }
    if variant == 1 {
        // no link-local address left: reports come from the unspecified address
        rig.iface.update_ip_addrs(|a| a.retain(|c| !matches!(c, IpCidr::Ipv6(c6) if c6.address().octets()[0] == 0xfe)));
        let _ = rig.iface.join_multicast_group(ipa(&[0xff, 0x02, 0, 0, 0, 0, 0, 0, 0, 0, 0, 0, 0, 0, 0x12, 0x34]));
        rig.settle();
    }
    let _ = rig.iface.leave_multicast_group(ipa(&GROUP6));
    rig.settle();
    let _ = rig.iface.leave_multicast_group(ipa(&GROUP6B));
    rig.settle();
}

fn igmp_setup(m: Medium, v6: bool, _v: usize) -> Option<Tweak> {
    if v6 || m == Medium::Ieee802154 {
        return None;
    }
    Some(addrs_for(false))
}
fn sc_igmp(rig: &mut Rig, _v6: bool, variant: usize) {
    rig.settle();
    let _ = rig.iface.join_multicast_group(ipa(&GROUP4));
    rig.settle();
    let _ = rig.iface.join_multicast_group(ipa(&GROUP4B));
    rig.settle();
    let q = |rig: &Rig, max_resp: u8, group: &[u8; 4]| -> Vec<u8> {
        let dst = if group == &[0u8; 4] { [224, 0, 0, 1] } else { *group };
        let p = ipv4(&GW4, &dst, 2, &igmp(0x11, max_resp, group), V4Opt { ttl: 1, ..V4 });
        rig.wrap(&GW_MAC, GW_EXT, &p)
    };
    // IGMPv2 general query (variant 1: IGMPv1 style, max response time 0)
    let f = q(rig, if variant == 1 { 0 } else { 10 }, &[0; 4]);
    rig.inject(f);
    for _ in 0..6 {
        if !rig.advance_to_deadline(60_000_000) {
            rig.advance(500_000);
        }
    }
    let f = q(rig, 10, &GROUP4);
    rig.inject(f);
    for _ in 0..3 {
        if !rig.advance_to_deadline(60_000_000) {
            rig.advance(500_000);
        }
    }
    let _ = rig.iface.leave_multicast_group(ipa(&GROUP4));
    rig.settle();
    let _ = rig.iface.leave_multicast_group(ipa(&GROUP4B));
    rig.settle();
}

// ------------------------------------------------------------------------------------------
// DHCP
// ------------------------------------------------------------------------------------------

fn dhcp_setup(m: Medium, v6: bool, _v: usize) -> Option<Tweak> {
    if v6 || m != Medium::Ethernet {
        return None;
    }
    // the address comes from the lease
    Some(Tweak { slaac: false, v4: false, ll: true, ula: false, ll_from_short: false })
}

/// what examples/dhcp_client.rs does with the socket's events
fn dhcp_app(rig: &mut Rig, h: SocketHandle) {
    let ev = match rig.sockets.get_mut::<dhcpv4::Socket>(h).poll() {
        None => return,
        Some(dhcpv4::Event::Deconfigured) => None,
        Some(dhcpv4::Event::Configured(c)) => Some((c.address, c.router)),
    };
    match ev {
        None => {
            rig.note(|| "dhcp: deconfigured".into());
            rig.iface.update_ip_addrs(|a| a.retain(|c| !matches!(c, IpCidr::Ipv4(_))));
            rig.iface.routes_mut().remove_default_ipv4_route();
        }
        Some((cidr, router)) => {
            rig.note(|| format!("dhcp: configured {} via {:?}", cidr, router));
            rig.iface.update_ip_addrs(|a| {
                a.retain(|c| !matches!(c, IpCidr::Ipv4(_)));
                let _ = a.push(IpCidr::Ipv4(cidr));
            });
            // examples/dhcp_client.rs: set the default route, or remove it when the lease has none
            match router {
                Some(r) => {
                    let _ = rig.iface.routes_mut().add_default_ipv4_route(r);
                }
                None => {
                    rig.iface.routes_mut().remove_default_ipv4_route();
                }
            }
        }
    }
}

/// message type and ciaddr of the last DHCP client message emitted after `mark`
fn dhcp_last(rig: &Rig, mark: usize) -> Option<(u8, [u8; 4], u32)> {
    let v = rig.log[mark..].iter().rev().filter_map(|r| tx_l4(rig.medium(), &r.frame)).find(|v| v.proto == 17 && v.sport == 68 && v.dport == 67 && v.body.len() >= 240)?;
    let b = &v.body;
    let mut o = 240;
    let mut ty = 0;
    while o + 2 <= b.len() && b[o] != 255 {
        if b[o] == 0 {
            o += 1;
            continue;
        }
        if b[o] == 53 && b[o + 1] == 1 && o + 2 < b.len() {
            ty = b[o + 2];
        }
        o += 2 + b[o + 1] as usize;
    }
    Some((ty, [b[12], b[13], b[14], b[15]], u32::from_be_bytes([b[4], b[5], b[6], b[7]])))
}

/// The lease changes under the client: the server answers the FIRST renewal with an ACK for a
/// different address / mask / router. The application applies the socket's events to the
/// interface exactly like examples/dhcp_client.rs; every frame of the following renewals, the
/// rebinding and the new discovery must come from an address the interface owns at that moment
/// (or 0.0.0.0 where DHCP wants it).
fn sc_dhcp_renew_changes(rig: &mut Rig, _v6: bool, variant: usize) {
    let a_addr = [192, 168, 69, 50];
    // (yiaddr, mask, router) of the renewal ACK
    let (b_addr, b_mask, b_router): ([u8; 4], [u8; 4], Option<[u8; 4]>) = match variant {
        0 => ([192, 168, 69, 77], [255, 255, 255, 0], Some(GW4)),
        1 => (a_addr, [255, 255, 0, 0], Some([192, 168, 69, 253])),
        2 => ([10, 0, 5, 9], [255, 255, 255, 0], Some([10, 0, 5, 1])),
        3 => ([192, 168, 69, 78], [255, 255, 255, 128], None),
        _ => ([192, 168, 70, 1], [255, 255, 254, 0], Some(GW4)),
    };
    let h = rig.sockets.add(dhcpv4::Socket::new());
    rig.settle();
    dhcp_app(rig, h);
    let Some(xid) = dhcp_xid(rig, 0) else { return };
    let mark = rig.log.len();
    rig.inject(dhcp_frame(2, xid, &a_addr, DhcpExtra::default()));
    dhcp_app(rig, h);
    let Some(xid) = dhcp_xid(rig, mark) else { return };
    rig.inject(dhcp_frame(5, xid, &a_addr, DhcpExtra { lease: Some(60), ..Default::default() }));
    dhcp_app(rig, h);
    rig.settle();
    let ack = |xid: u32, renewed: bool| -> Vec<u8> {
        let mut f = if renewed {
            dhcp_frame(5, xid, &b_addr, DhcpExtra { lease: Some(60), mask: Some(b_mask), router: b_router, dns: true, timers: false })
        } else {
            dhcp_frame(5, xid, &a_addr, DhcpExtra { lease: Some(60), ..Default::default() })
        };
        f[0..6].copy_from_slice(&IFACE_MAC);
        f
    };
    let mut renewals = 0;
    for _ in 0..12 {
        // the server (and the new router) stay known to the neighbor cache: they speak first
        let own: Option<[u8; 4]> = rig.iface.ipv4_addr().map(|a| a.octets());
        if let Some(me4) = own {
            rig.inject(eth(&[0xff; 6], &DHCP_SERVER_MAC, 0x0806, &arp(1, &DHCP_SERVER_MAC, &GW4, &[0; 6], &me4)));
            if let Some(r) = b_router {
                if r != GW4 {
                    rig.inject(eth(&[0xff; 6], &GW_MAC, 0x0806, &arp(1, &GW_MAC, &r, &[0; 6], &me4)));
                }
            }
        }
        let step = rig.log.len();
        if !rig.advance_to_deadline(600_000_000) {
            break;
        }
        dhcp_app(rig, h);
        if let Some((ty, ciaddr, xid)) = dhcp_last(rig, step) {
            if ty == 3 && ciaddr != [0; 4] {
                renewals += 1;
                rig.note(|| format!("dhcp: renewal/rebind REQUEST #{} with ciaddr {:?}", renewals, ciaddr));
                // first renewal: the lease changes; second: confirmed as it is now; afterwards
                // the server is silent (renewal retries, rebinding, expiry, new discovery)
                if renewals <= 2 {
                    rig.inject(ack(xid, true));
                    dhcp_app(rig, h);
                    rig.settle();
                    dhcp_app(rig, h);
                }
            }
        }
    }
    // ordinary traffic with whatever configuration is in place at the end
    let u = udp_socket(rig, 7000, None);
    let _ = rig.sockets.get_mut::<udp::Socket>(u).send_slice(&pat(12, 19), IpEndpoint::new(ipa(&GW4), 9000));
    rig.settle();
}
fn dhcp_xid(rig: &Rig, mark: usize) -> Option<u32> {
    rig.log[mark..].iter().rev().filter_map(|r| tx_l4(rig.medium(), &r.frame)).find(|v| v.proto == 17 && v.sport == 68 && v.dport == 67 && v.body.len() >= 8).map(|v| u32::from_be_bytes(v.body[4..8].try_into().unwrap()))
}
fn sc_dhcp(rig: &mut Rig, _v6: bool, variant: usize) {
    static HOSTNAME: [smoltcp::wire::DhcpOption<'static>; 2] = [smoltcp::wire::DhcpOption { kind: 12, data: b"c10-host" }, smoltcp::wire::DhcpOption { kind: 60, data: b"verif" }];
    static PRL: [u8; 5] = [1, 3, 6, 15, 42];
    let mut s = dhcpv4::Socket::new();
    if variant == 1 {
        s.set_outgoing_options(&HOSTNAME);
        s.set_parameter_request_list(&PRL);
    }
    if variant == 2 {
        s.set_max_lease_duration(Some(Duration::from_secs(40)));
    }
    let h = rig.sockets.add(s);
    // DISCOVER, retransmitted while nobody answers
    rig.settle();
    dhcp_app(rig, h);
    for _ in 0..2 {
        rig.advance_to_deadline(120_000_000);
        dhcp_app(rig, h);
    }
    let lease = [192, 168, 69, 50];
    let Some(xid) = dhcp_xid(rig, 0) else { return };
    let mark = rig.log.len();
    rig.inject(dhcp_frame(2, xid, &lease, DhcpExtra::default()));
    dhcp_app(rig, h);
    // REQUEST, retransmitted once
    rig.advance_to_deadline(120_000_000);
    let Some(xid) = dhcp_xid(rig, mark) else { return };
    rig.inject(dhcp_frame(5, xid, &lease, DhcpExtra { lease: Some(60), timers: variant == 1, ..Default::default() }));
    dhcp_app(rig, h);
    rig.settle();
    // ordinary traffic from the leased address
    let u = udp_socket(rig, 7000, None);
    let _ = rig.sockets.get_mut::<udp::Socket>(u).send_slice(&pat(12, 15), IpEndpoint::new(ipa(&GW4), 9000));
    rig.settle();
    rig.inject(eth(&IFACE_MAC, &DHCP_SERVER_MAC, 0x0806, &arp(2, &DHCP_SERVER_MAC, &GW4, &IFACE_MAC, &lease)));
    rig.settle();
    // renewal (T1), unanswered -> rebinding (T2) -> expiry -> DISCOVER again
    for i in 0..14 {
        if !rig.advance_to_deadline(600_000_000) {
            break;
        }
        dhcp_app(rig, h);
        if variant == 2 && i == 1 {
            // the server answers one renewal
            if let Some(xid) = dhcp_xid(rig, mark) {
                let mut f = dhcp_frame(5, xid, &lease, DhcpExtra { lease: Some(60), ..Default::default() });
                // unicast to the client like a renewing server does
                f[0..6].copy_from_slice(&IFACE_MAC);
                rig.inject(f);
                dhcp_app(rig, h);
            }
        }
    }
    // NAK while requesting
    if let Some(xid) = dhcp_xid(rig, mark) {
        rig.inject(dhcp_frame(6, xid, &[0; 4], DhcpExtra { lease: None, mask: None, router: None, dns: false, timers: false }));
        dhcp_app(rig, h);
        rig.settle();
    }
}

// ------------------------------------------------------------------------------------------
// DNS
// ------------------------------------------------------------------------------------------

fn sc_dns(rig: &mut Rig, v6: bool, variant: usize) {
    rig.teach_neighbors();
    let servers: Vec<IpAddress> = match variant {
        0 => vec![ipa(&peer(v6))],
        1 => vec![ipa(&off(v6)), ipa(&peer(v6))],
        _ => vec![ipa(&peer(v6))],
    };
    let h = rig.sockets.add(dns::Socket::new(&servers, vec![]));
    let long_label = "a".repeat(63);
    let long_name = format!("{0}.{0}.{0}.{1}", long_label, "b".repeat(61));
    let names: Vec<String> = if variant == 2 {
        vec!["printer.local".into(), "x.local.".into()]
    } else {
        vec!["a".into(), "example.com".into(), "www.example.com.".into(), long_label.clone(), long_name, "1.2.3.4.5.6.7.8.9.0.a.b.c.d.e.f.ip6.arpa".into()]
    };
    for (i, n) in names.iter().enumerate() {
        let ty = match i % 3 {
            0 => DnsQueryType::A,
            1 => DnsQueryType::Aaaa,
            _ => DnsQueryType::Cname,
        };
        let cx = rig.iface.context();
        let r = rig.sockets.get_mut::<dns::Socket>(h).start_query(cx, n, ty);
        rig.note(|| format!("dns start_query({:?}, {:?}) -> {:?}", n, ty, r.is_ok()));
        rig.settle();
    }
    // retransmissions, server fail-over, time-out
    for _ in 0..12 {
        if !rig.advance_to_deadline(60_000_000) {
            break;
        }
    }
}


// ------------------------------------------------------------------------------------------
// renumbering: the application changes the interface's addresses in the middle of something
// ------------------------------------------------------------------------------------------

pub const NEW4: [u8; 4] = [192, 168, 69, 9];
pub const NEW6: [u8; 16] = [0xfe, 0x80, 0, 0, 0, 0, 0, 0, 0, 0, 0, 0, 0, 0, 0, 9];

/// action 0: the address in use is replaced by another one of the same subnet; 1: it is
/// removed; 2 (IPv6): every IPv6 address is removed
fn renumber(rig: &mut Rig, v6: bool, action: usize) {
    let used6 = rig.cfg.ll();
    rig.iface.update_ip_addrs(|a| match (v6, action) {
        (false, 0) => {
            for c in a.iter_mut() {
                if matches!(c, IpCidr::Ipv4(_)) {
                    *c = IpCidr::new(ip4(&NEW4), 24);
                }
            }
        }
        (false, _) => a.retain(|c| !matches!(c, IpCidr::Ipv4(_))),
        (true, 0) => {
            for c in a.iter_mut() {
                if c.address() == ip6(&used6) {
                    *c = IpCidr::new(ip6(&NEW6), 64);
                }
            }
        }
        (true, 1) => a.retain(|c| c.address() != ip6(&used6)),
        (true, _) => a.retain(|c| !matches!(c, IpCidr::Ipv6(_))),
    });
    let now: Vec<String> = rig.iface.ip_addrs().iter().map(|c| c.to_string()).collect();
    rig.note(|| format!("APPLICATION renumbers the interface (action {}): addresses now {:?}", action, now));
    // changing the addresses flushes the neighbor cache: the peer makes itself known again
    match (rig.medium(), v6, action) {
        (Medium::Ip, _, _) => {}
        (Medium::Ethernet, false, 0) => {
            rig.inject(eth(&[0xff; 6], &PEER_MAC, 0x0806, &arp(1, &PEER_MAC, &PEER4, &[0; 6], &NEW4)));
        }
        (_, true, 0) => {
            let f = rig.ns_frame(&PEER6, &PEER_MAC, PEER_EXT, &NEW6, true, false);
            rig.inject(f);
        }
        (_, true, 1) => {
            let f = rig.ns_frame(&PEER6, &PEER_MAC, PEER_EXT, &IFACE6_ULA, true, false);
            rig.inject(f);
        }
        _ => {}
    }
}

fn renumber_setup(m: Medium, v6: bool, v: usize) -> Option<Tweak> {
    let (situation, action) = (v / 3, v % 3);
    if !v6 && action == 2 {
        return None; // there is only one IPv4 address
    }
    if m == Medium::Ip && (situation == 2 || situation == 3) {
        return None; // no neighbor resolution on raw IP
    }
    std_setup(m, v6, v)
}

/// variant = situation * 3 + action. Situations: 0 TCP active open with the SYN unanswered,
/// 1 established TCP connection with data in flight, 2 UDP datagram waiting for neighbor
/// resolution, 3 ICMP echo request waiting for neighbor resolution, 4 fragmented datagram with
/// fragments still to be sent, 5 DNS query in progress. (The DHCP case - the application
/// replaces the address after a renewal changed the lease - is scenario
/// dhcp-renewal-changes-lease.) After the renumbering the timers fire; every frame is judged
/// against the address list of the moment it is handed to the device.
fn sc_renumber(rig: &mut Rig, v6: bool, variant: usize) {
    let (situation, action) = (variant / 3, variant % 3);
    let p = peer(v6);
    let old = me(v6);
    let old = if v6 { rig.cfg.ll().to_vec() } else { old };
    if situation != 2 && situation != 3 {
        rig.teach_neighbors();
    }
    match situation {
        0 => {
            let h = rig.sockets.add(tcp_socket(2048, 0));
            {
                let cx = rig.iface.context();
                let r = rig.sockets.get_mut::<tcp::Socket>(h).connect(cx, IpEndpoint::new(ipa(&p), 80), 49152);
                rig.note(|| format!("connect -> {:?}", r));
            }
            let mark = rig.log.len();
            rig.settle();
            let iss = find_iss(rig, mark, 49152);
            renumber(rig, v6, action);
            for _ in 0..5 {
                if !rig.advance_to_deadline(120_000_000) {
                    rig.advance(1_000_000);
                }
            }
            // the late SYN-ACK, addressed to the address the SYN came from
            if let Some(iss) = iss {
                let mut tp = TcpPeer { me: old.clone(), peer: p.clone(), pport: 80, lport: 49152, seq: 0x3000_0000, ack: iss.wrapping_add(1), ts: false, tsval: 0 };
                let f = tp.seg(SYN | ACK, 4096, &[2, 4, 5, 0xb4], &[]);
                inject_from_peer(rig, &f, 0xc00);
            }
            rig.advance(1_100_000);
        }
        1 => {
            let mut s = tcp_socket(4096, 0);
            s.listen(80).unwrap();
            let h = rig.sockets.add(s);
            let mut tp = TcpPeer { me: old.clone(), peer: p.clone(), pport: 4000, lport: 80, seq: 0x1000_0000, ack: 0, ts: false, tsval: 0 };
            let mark = rig.log.len();
            let syn = tp.seg(SYN, 4096, &[2, 4, 5, 0xb4], &[]);
            inject_from_peer(rig, &syn, 0xc10);
            let Some(iss) = find_iss(rig, mark, 80) else { return };
            tp.seq = tp.seq.wrapping_add(1);
            tp.ack = iss.wrapping_add(1);
            let f = tp.seg(ACK, 4096, &[], &[]);
            inject_from_peer(rig, &f, 0xc11);
            let _ = rig.sockets.get_mut::<tcp::Socket>(h).send_slice(&pat(300, 21));
            rig.settle();
            renumber(rig, v6, action);
            // retransmission timers
            for _ in 0..4 {
                if !rig.advance_to_deadline(120_000_000) {
                    rig.advance(1_000_000);
                }
            }
            // the peer, unaware, acknowledges and sends data to the old address
            tp.ack = iss.wrapping_add(1).wrapping_add(300);
            let f = tp.seg(ACK | PSH, 4096, &[], &pat(20, 22));
            inject_from_peer(rig, &f, 0xc12);
            let _ = rig.sockets.get_mut::<tcp::Socket>(h).send_slice(&pat(50, 23));
            rig.settle();
            rig.advance(1_100_000);
        }
        2 | 3 => {
            if situation == 2 {
                let h = udp_socket(rig, 7000, None);
                let _ = rig.sockets.get_mut::<udp::Socket>(h).send_slice(&pat(30, 24), IpEndpoint::new(ipa(&p), 9000));
            } else {
                let mut s = icmp::Socket::new(
                    icmp::PacketBuffer::new(vec![icmp::PacketMetadata::EMPTY; 4], vec![0u8; 1024]),
                    icmp::PacketBuffer::new(vec![icmp::PacketMetadata::EMPTY; 4], vec![0u8; 1024]),
                );
                s.bind(icmp::Endpoint::Ident(0x1234)).unwrap();
                let h = rig.sockets.add(s);
                let body = echo_body(0x1234, 1, &pat(16, 25));
                let msg = if v6 { icmp6(&old, &p, 128, 0, &body) } else { icmp4(8, 0, body[..4].try_into().unwrap(), &body[4..]) };
                let _ = rig.sockets.get_mut::<icmp::Socket>(h).send_slice(&msg, ipa(&p));
            }
            // neighbor solicitation / ARP request goes out, the datagram waits
            rig.settle();
            // the renumbering itself must not teach the neighbor: do it by hand afterwards
            let used6 = rig.cfg.ll();
            rig.iface.update_ip_addrs(|a| match (v6, action) {
                (false, 0) => {
                    for c in a.iter_mut() {
                        if matches!(c, IpCidr::Ipv4(_)) {
                            *c = IpCidr::new(ip4(&NEW4), 24);
                        }
                    }
                }
                (false, _) => a.retain(|c| !matches!(c, IpCidr::Ipv4(_))),
                (true, 0) => {
                    for c in a.iter_mut() {
                        if c.address() == ip6(&used6) {
                            *c = IpCidr::new(ip6(&NEW6), 64);
                        }
                    }
                }
                (true, 1) => a.retain(|c| c.address() != ip6(&used6)),
                (true, _) => a.retain(|c| !matches!(c, IpCidr::Ipv6(_))),
            });
            let now: Vec<String> = rig.iface.ip_addrs().iter().map(|c| c.to_string()).collect();
            rig.note(|| format!("APPLICATION renumbers the interface (action {}): addresses now {:?}", action, now));
            for _ in 0..3 {
                rig.advance(1_100_000);
            }
            // now the neighbor answers (to whoever asked last)
            renumber(rig, v6, 3.min(action));
            if v6 {
                let f = rig.na_frame(&PEER6, &PEER_MAC, PEER_EXT, if action == 0 { &NEW6 } else { &IFACE6_ULA });
                rig.inject(f);
            } else if action == 0 {
                rig.inject(eth(&IFACE_MAC, &PEER_MAC, 0x0806, &arp(2, &PEER_MAC, &PEER4, &IFACE_MAC, &NEW4)));
            }
            rig.advance(1_100_000);
            rig.advance(3_000_000);
        }
        4 => {
            let h = udp_socket(rig, 7000, None);
            // the device takes one frame, then stalls
            rig.dev.tx_budget = Some(1);
            let n = match rig.medium() {
                Medium::Ieee802154 => 400,
                _ => {
                    if v6 {
                        // no IPv6 fragmentation outside 6LoWPAN: two datagrams, the second one waits
                        200
                    } else {
                        (3 * (rig.cfg.ip_mtu - 28)).min(1400)
                    }
                }
            };
            let _ = rig.sockets.get_mut::<udp::Socket>(h).send_slice(&pat(n, 26), IpEndpoint::new(ipa(&p), 9000));
            let _ = rig.sockets.get_mut::<udp::Socket>(h).send_slice(&pat(40, 27), IpEndpoint::new(ipa(&p), 9001));
            rig.settle();
            renumber(rig, v6, action);
            rig.dev.tx_budget = None;
            rig.settle();
            rig.advance(1_100_000);
        }
        _ => {
            let h = rig.sockets.add(dns::Socket::new(&[ipa(&p)], vec![]));
            {
                let cx = rig.iface.context();
                let _ = rig.sockets.get_mut::<dns::Socket>(h).start_query(cx, "renumber.example", if v6 { DnsQueryType::Aaaa } else { DnsQueryType::A });
            }
            rig.settle();
            renumber(rig, v6, action);
            for _ in 0..4 {
                if !rig.advance_to_deadline(60_000_000) {
                    break;
                }
            }
        }
    }
}

// ------------------------------------------------------------------------------------------
// application model: echo with the received metadata (examples/server.rs)
// ------------------------------------------------------------------------------------------

/// `let (data, meta) = socket.recv()?; socket.send_slice(data, meta)` on a UDP socket bound by
/// port only, fed with datagrams for unicast, broadcast and multicast destinations. Source
/// findings on the echoes get the signature C10/source/udp-echo-of-received-metadata/<kind>.
fn sc_udp_echo_meta(rig: &mut Rig, v6: bool, _variant: usize) {
    rig.teach_neighbors();
    let _ = rig.iface.join_multicast_group(ipa(&if v6 { GROUP6.to_vec() } else { GROUP4.to_vec() }));
    rig.settle();
    let h = udp_socket(rig, 7, None);
    let dsts: Vec<(&str, Vec<u8>)> = if v6 {
        vec![("own-unicast", rig.cfg.ll().to_vec()), ("all-nodes-ff02-1", ALL_NODES6.to_vec()), ("joined-ipv6-group", GROUP6.to_vec())]
    } else {
        vec![
            ("own-unicast", IFACE4.to_vec()),
            ("subnet-directed-broadcast", vec![192, 168, 69, 255]),
            ("limited-broadcast", vec![255; 4]),
            ("joined-ipv4-group", GROUP4.to_vec()),
            ("all-systems-224.0.0.1", vec![224, 0, 0, 1]),
        ]
    };
    let src = peer(v6);
    for (i, (kind, dst)) in dsts.iter().enumerate() {
        rig.source_tag = Some(format!("udp-echo-of-received-metadata/{}", kind));
        let p = ip(&src, dst, 17, &udp(&src, dst, 4000, 7, &pat(9 + i, 28)));
        inject_from_peer(rig, &p, 0xd00 + i as u16);
        // the echo server
        loop {
            let got = {
                let s = rig.sockets.get_mut::<udp::Socket>(h);
                match s.recv() {
                    Ok((data, meta)) => Some((data.to_vec(), meta)),
                    Err(_) => None,
                }
            };
            let Some((data, meta)) = got else { break };
            let r = rig.sockets.get_mut::<udp::Socket>(h).send_slice(&data, meta);
            rig.note(|| format!("echo server: received {} octets sent to {} ({:?}), send_slice(data, meta) -> {:?}", data.len(), kind, meta, r));
        }
        rig.settle();
        rig.source_tag = None;
    }
}


// ------------------------------------------------------------------------------------------
// the socket option "hop limit"
// ------------------------------------------------------------------------------------------

/// the values 6LoWPAN IPHC compresses (1, 64, 255) and their neighbours
pub const HOPS: [u8; 7] = [1, 2, 63, 64, 65, 254, 255];

/// variant = index into HOPS. UDP, ICMP, DNS and TCP (client and server) sockets with
/// `set_hop_limit(Some(h))`, raw packets that carry h in their own header; one-frame and
/// fragmented datagrams, unicast (link-local and unique-local) and multicast destinations.
/// Every frame goes through the monitor; on 802.15.4 the hop limit a frame of these sockets
/// DECOMPRESSES to must be h.
fn sc_hop_limit(rig: &mut Rig, v6: bool, variant: usize) {
    let hl = HOPS[variant];
    rig.teach_neighbors();
    let p = peer(v6);
    let mut marks: Vec<(usize, &'static str)> = vec![];
    let big = match rig.medium() {
        Medium::Ieee802154 => 300,
        _ if v6 => 200,
        _ => (2 * rig.cfg.ip_mtu).min(1300),
    };
    // ---- UDP
    marks.push((rig.log.len(), "udp"));
    let u = udp_socket(rig, 7000, None);
    rig.sockets.get_mut::<udp::Socket>(u).set_hop_limit(Some(hl));
    let mut dsts: Vec<Vec<u8>> = vec![p.clone()];
    if v6 {
        dsts.push(PEER6_ULA.to_vec());
        dsts.push(ALL_NODES6.to_vec());
    } else {
        dsts.push(GROUP4.to_vec());
        dsts.push(vec![255; 4]);
    }
    for d in &dsts {
        for n in [10usize, big] {
            let _ = rig.sockets.get_mut::<udp::Socket>(u).send_slice(&pat(n, hl), IpEndpoint::new(ipa(d), 9000));
            rig.settle();
        }
    }
    // ---- ICMP echo
    marks.push((rig.log.len(), "icmp"));
    let mut s = icmp::Socket::new(
        icmp::PacketBuffer::new(vec![icmp::PacketMetadata::EMPTY; 4], vec![0u8; 2048]),
        icmp::PacketBuffer::new(vec![icmp::PacketMetadata::EMPTY; 4], vec![0u8; 2048]),
    );
    s.bind(icmp::Endpoint::Ident(0x1234)).unwrap();
    s.set_hop_limit(Some(hl));
    let ic = rig.sockets.add(s);
    for (i, n) in [16usize, big].into_iter().enumerate() {
        let body = echo_body(0x1234, i as u16, &pat(n, hl));
        let msg = if v6 { icmp6(&me(v6), &p, 128, 0, &body) } else { icmp4(8, 0, body[..4].try_into().unwrap(), &body[4..]) };
        let _ = rig.sockets.get_mut::<icmp::Socket>(ic).send_slice(&msg, ipa(&p));
        rig.settle();
    }
    // ---- DNS
    marks.push((rig.log.len(), "dns"));
    let mut ds = dns::Socket::new(&[ipa(&p)], vec![]);
    ds.set_hop_limit(Some(hl));
    let dh = rig.sockets.add(ds);
    {
        let cx = rig.iface.context();
        let _ = rig.sockets.get_mut::<dns::Socket>(dh).start_query(cx, "hop.example", DnsQueryType::A);
    }
    rig.settle();
    // ---- TCP client
    marks.push((rig.log.len(), "tcp"));
    let mut ts = tcp_socket(2048, 0);
    ts.set_hop_limit(Some(hl));
    let th = rig.sockets.add(ts);
    let mark = rig.log.len();
    {
        let cx = rig.iface.context();
        let _ = rig.sockets.get_mut::<tcp::Socket>(th).connect(cx, IpEndpoint::new(ipa(&p), 80), 49152);
    }
    rig.settle();
    if let Some(iss) = find_iss(rig, mark, 49152) {
        let local = if v6 { rig.cfg.ll().to_vec() } else { me(v6) };
        let mut tp = TcpPeer { me: local, peer: p.clone(), pport: 80, lport: 49152, seq: 0x2000_0000, ack: iss.wrapping_add(1), ts: false, tsval: 0 };
        let f = tp.seg(SYN | ACK, 4096, &[2, 4, 5, 0xb4], &[]);
        inject_from_peer(rig, &f, 0xe00);
        tp.seq = tp.seq.wrapping_add(1);
        let _ = rig.sockets.get_mut::<tcp::Socket>(th).send_slice(&pat(50, hl));
        rig.settle();
        let _ = rig.sockets.get_mut::<tcp::Socket>(th).send_slice(&pat(big.min(1000), hl));
        rig.settle();
        rig.sockets.get_mut::<tcp::Socket>(th).close();
        rig.settle();
    }
    // ---- TCP server
    let mut ls = tcp_socket(1024, 0);
    ls.set_hop_limit(Some(hl));
    ls.listen(80).unwrap();
    rig.sockets.add(ls);
    let local = if v6 { rig.cfg.ll().to_vec() } else { me(v6) };
    let mut tp = TcpPeer { me: local, peer: p.clone(), pport: 4001, lport: 80, seq: 0x1000_0000, ack: 0, ts: false, tsval: 0 };
    let syn = tp.seg(SYN, 4096, &[2, 4, 5, 0xb4], &[]);
    inject_from_peer(rig, &syn, 0xe10);
    // ---- raw packets carrying the hop limit in their own header
    marks.push((rig.log.len(), "raw"));
    let ver = if v6 { IpVersion::Ipv6 } else { IpVersion::Ipv4 };
    let rs = raw::Socket::new(
        Some(ver),
        Some(IpProtocol::Udp),
        raw::PacketBuffer::new(vec![raw::PacketMetadata::EMPTY; 4], vec![0u8; 2048]),
        raw::PacketBuffer::new(vec![raw::PacketMetadata::EMPTY; 4], vec![0u8; 2048]),
    );
    let rh = rig.sockets.add(rs);
    let src = if v6 { rig.cfg.ll().to_vec() } else { me(v6) };
    rig.raw_tags.push((src.clone(), p.clone(), 17));
    for n in [10usize, big.min(1000)] {
        let l4 = udp(&src, &p, 4000, 9001, &pat(n, hl));
        let pkt = if v6 { ipv6(&src, &p, 17, hl, &l4) } else { ipv4(&src, &p, 17, &l4, V4Opt { ttl: hl, ..V4 }) };
        let _ = rig.sockets.get_mut::<raw::Socket>(rh).send_slice(&pkt);
        rig.settle();
        if rig.dead {
            return;
        }
    }
    // ---- the hop limit a receiver decompresses (802.15.4 only: on the other media the octet
    // is on the wire as it is and outside what C10 states)
    if rig.medium() == Medium::Ieee802154 {
        let from = marks[0].0;
        let mut bad = vec![];
        for rec in &rig.log[from..] {
            let c = &rec.verdict.class;
            let ours = c.contains("/udp") || c.contains("/tcp") || c.contains("echo-request") || c.ends_with("/frag1");
            if !ours {
                continue;
            }
            if let Some(got) = rec.verdict.hop {
                if got != hl {
                    bad.push((
                        "C10/encoding/6lowpan/decompressed-hop-limit-differs-from-the-socket-option".to_string(),
                        format!("socket hop limit {} but the frame decompresses to hop limit {} | frame[{}] {} ({})", hl, got, rec.frame.len(), crate::sim::hex(&rec.frame), rec.verdict.shape),
                    ));
                }
            }
        }
        rig.extra_findings.extend(bad);
    }
}

// ------------------------------------------------------------------------------------------
// raw sockets
// ------------------------------------------------------------------------------------------

fn sc_raw(rig: &mut Rig, v6: bool, variant: usize) {
    rig.teach_neighbors();
    let ver = if v6 { IpVersion::Ipv6 } else { IpVersion::Ipv4 };
    let proto = if variant == 1 { 253u8 } else { 17u8 };
    let s = raw::Socket::new(
        Some(ver),
        Some(IpProtocol::from(proto)),
        raw::PacketBuffer::new(vec![raw::PacketMetadata::EMPTY; 4], vec![0u8; 4096]),
        raw::PacketBuffer::new(vec![raw::PacketMetadata::EMPTY; 4], vec![0u8; 4096]),
    );
    let h = rig.sockets.add(s);
    // own source, a foreign source, and (IPv4) the broadcast address as source: the header is
    // the application's, only the source rule is waived
    let mut srcs: Vec<Vec<u8>> = vec![me(v6), off(v6)];
    if !v6 {
        srcs.push(vec![192, 168, 69, 255]);
    }
    let dst = peer(v6);
    let mut sizes = payload_sizes(rig, v6, if proto == 17 { 8 } else { 0 });
    sizes.retain(|&n| n + hdr(v6) + 8 <= 1500);
    if rig.medium() == Medium::Ieee802154 {
        sizes.truncate(3);
    }
    for src in srcs {
        rig.raw_tags.push((src.clone(), dst.clone(), proto));
        for &n in &sizes {
            let l4 = if proto == 17 { udp(&src, &dst, 4000, 9000, &pat(n, 16)) } else { pat(n, 17) };
            let p = ip(&src, &dst, proto, &l4);
            let r = rig.sockets.get_mut::<raw::Socket>(h).send_slice(&p);
            rig.note(|| format!("raw send {} octets from {:?} -> {:?}", p.len(), src, r));
            rig.settle();
            if rig.dead {
                return;
            }
        }
    }
}

// ------------------------------------------------------------------------------------------
// an interface that has no IPv6 address but is asked to talk IPv6
// ------------------------------------------------------------------------------------------

fn no_v6_setup(m: Medium, v6: bool, _v: usize) -> Option<Tweak> {
    if !v6 || m == Medium::Ieee802154 {
        return None;
    }
    Some(Tweak { slaac: false, v4: true, ll: false, ula: false, ll_from_short: false })
}
fn sc_no_v6_addr(rig: &mut Rig, _v6: bool, variant: usize) {
    rig.teach_neighbors();
    if variant == 0 {
        // multicast DNS: the socket tries ff02::fb first
        let h = rig.sockets.add(dns::Socket::new(&[ipa(&PEER4)], vec![]));
        let cx = rig.iface.context();
        let _ = rig.sockets.get_mut::<dns::Socket>(h).start_query(cx, "printer.local", DnsQueryType::A);
        rig.settle();
        for _ in 0..3 {
            if !rig.advance_to_deadline(60_000_000) {
                break;
            }
        }
    } else {
        let h = udp_socket(rig, 7000, None);
        let _ = rig.sockets.get_mut::<udp::Socket>(h).send_slice(&pat(9, 18), IpEndpoint::new(ipa(&GROUP6), 5355));
        rig.settle();
    }
}

fn arp_setup(m: Medium, v6: bool, _v: usize) -> Option<Tweak> {
    if v6 || m != Medium::Ethernet {
        return None;
    }
    Some(addrs_for(false))
}
fn ns_setup(m: Medium, v6: bool, _v: usize) -> Option<Tweak> {
    if !v6 || m == Medium::Ip {
        return None;
    }
    Some(addrs_for(true))
}
fn v6_only(m: Medium, v6: bool, v: usize) -> Option<Tweak> {
    if !v6 {
        return None;
    }
    mcast_setup(m, v6, v)
}

pub fn scenarios() -> Vec<Scenario> {
    vec![
        Scenario { name: "udp-sizes", variants: 12, setup: std_setup, run: sc_udp_sizes },
        Scenario { name: "lowpan-datagram-pairs", variants: 16, setup: lowpan_only, run: sc_lowpan_pairs },
        Scenario { name: "udp-unresolved-neighbor", variants: 2, setup: linked_only, run: sc_udp_unresolved },
        Scenario { name: "icmp-socket-echo-request", variants: 2, setup: std_setup, run: sc_icmp_echo_out },
        Scenario { name: "echo-request-in", variants: 6, setup: alias_last_echo, run: sc_echo_in },
        Scenario { name: "udp-to-closed-port", variants: 5, setup: alias_last_4, run: sc_udp_closed_port },
        Scenario { name: "unknown-protocol-in", variants: 3, setup: unknown_proto_setup, run: sc_unknown_proto },
        Scenario { name: "tcp-to-closed-port", variants: 5, setup: alias_last_4, run: sc_tcp_closed },
        Scenario { name: "tcp-server", variants: 3, setup: std_setup, run: sc_tcp_server },
        Scenario { name: "tcp-client", variants: 4, setup: std_setup, run: sc_tcp_client },
        Scenario { name: "arp-in", variants: 1, setup: arp_setup, run: sc_arp_in },
        Scenario { name: "neighbor-solicitation-in", variants: 4, setup: ns_setup, run: sc_ns_in },
        Scenario { name: "slaac", variants: 2, setup: slaac_setup, run: sc_slaac },
        Scenario { name: "mld", variants: 2, setup: v6_only, run: sc_mld },
        Scenario { name: "igmp", variants: 2, setup: igmp_setup, run: sc_igmp },
        Scenario { name: "dhcp-client", variants: 3, setup: dhcp_setup, run: sc_dhcp },
        Scenario { name: "socket-hop-limit", variants: 7, setup: std_setup, run: sc_hop_limit },
        Scenario { name: "renumbering", variants: 18, setup: renumber_setup, run: sc_renumber },
        Scenario { name: "udp-echo-of-received-metadata", variants: 1, setup: std_setup, run: sc_udp_echo_meta },
        Scenario { name: "dhcp-renewal-changes-lease", variants: 5, setup: dhcp_setup, run: sc_dhcp_renew_changes },
        Scenario { name: "dns-queries", variants: 3, setup: std_setup, run: sc_dns },
        Scenario { name: "raw-socket", variants: 2, setup: std_setup, run: sc_raw },
        Scenario { name: "no-ipv6-address", variants: 2, setup: no_v6_setup, run: sc_no_v6_addr },
    ]
}
