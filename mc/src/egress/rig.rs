//! One real `Interface` on a device that pre-fills every transmit buffer with 0xA5 (bytes
//! smoltcp does not write stay visible), with the EgressMonitor on every captured frame.

use super::c03::pkt::*;
use super::c03::world::{ip4, ip6, GW4, GW6, IFACE4, IFACE6, IFACE6_ULA, IFACE_EXT, IFACE_MAC, PAN, PEER4, PEER6, PEER6_ULA, PEER_EXT, PEER_MAC};
use super::mon::*;
use crate::core::{last_panic_loc, panic_msg, panic_site};
use crate::wirecheck::Addr;
use smoltcp::iface::{Config, Interface, SocketSet};
use smoltcp::phy::{self, Checksum, ChecksumCapabilities, Device, DeviceCapabilities, Medium};
use smoltcp::time::Instant;
use smoltcp::wire::{EthernetAddress, HardwareAddress, Ieee802154Address, Ieee802154Pan, IpAddress, IpCidr, Ipv4Address, Ipv6Address};
use std::collections::VecDeque;
use std::panic::{catch_unwind, AssertUnwindSafe};

pub const IFACE_SHORT: [u8; 2] = [0xab, 0x01];
/// fe80::ff:fe00:ab01 (RFC 4944 §6: interface identifier of a 16-bit short address)
pub const IFACE6_SHORT: [u8; 16] = [0xfe, 0x80, 0, 0, 0, 0, 0, 0, 0, 0, 0, 0xff, 0xfe, 0, 0xab, 0x01];
pub const GW_MAC: [u8; 6] = [2, 0, 0, 0, 0, 0xfe];
pub const GW_EXT: [u8; 8] = [2, 0, 0, 0, 0, 0, 0, 0xfe];

pub const CAP_NAMES: [&str; 9] = ["default", "ipv4-tx-off", "udp-tx-off", "tcp-tx-off", "icmpv4-tx-off", "icmpv6-tx-off", "all-tx-off", "all-rx-off", "all-off"];

pub fn caps_of(i: usize) -> ChecksumCapabilities {
    let mut c = ChecksumCapabilities::default();
    match i {
        1 => c.ipv4 = Checksum::Rx,
        2 => c.udp = Checksum::Rx,
        3 => c.tcp = Checksum::Rx,
        4 => c.icmpv4 = Checksum::Rx,
        5 => c.icmpv6 = Checksum::Rx,
        6 => {
            c.ipv4 = Checksum::Rx;
            c.udp = Checksum::Rx;
            c.tcp = Checksum::Rx;
            c.icmpv4 = Checksum::Rx;
            c.icmpv6 = Checksum::Rx;
        }
        // asymmetric the other way round: computed on transmission, not verified on reception
        7 => {
            c.ipv4 = Checksum::Tx;
            c.udp = Checksum::Tx;
            c.tcp = Checksum::Tx;
            c.icmpv4 = Checksum::Tx;
            c.icmpv6 = Checksum::Tx;
        }
        8 => {
            c.ipv4 = Checksum::None;
            c.udp = Checksum::None;
            c.tcp = Checksum::None;
            c.icmpv4 = Checksum::None;
            c.icmpv6 = Checksum::None;
        }
        _ => {}
    }
    c
}
/// which checksums the stack has to compute itself: decided from the capability VALUE by an
/// explicit match (never through smoltcp's own `Checksum::tx()` predicate, which is subject code)
pub fn txck_of(c: &ChecksumCapabilities) -> TxCk {
    fn tx(k: &Checksum) -> bool {
        match k {
            Checksum::Both | Checksum::Tx => true,
            Checksum::Rx | Checksum::None => false,
            #[allow(unreachable_patterns)]
            _ => true,
        }
    }
    TxCk { ipv4: tx(&c.ipv4), udp: tx(&c.udp), tcp: tx(&c.tcp), icmpv4: tx(&c.icmpv4), icmpv6: tx(&c.icmpv6) }
}

pub fn medium_name(m: Medium) -> &'static str {
    match m {
        Medium::Ethernet => "ethernet",
        Medium::Ip => "ip",
        Medium::Ieee802154 => "ieee802154",
    }
}
pub fn medium_from(s: &str) -> Option<Medium> {
    match s {
        "ethernet" => Some(Medium::Ethernet),
        "ip" => Some(Medium::Ip),
        "ieee802154" => Some(Medium::Ieee802154),
        _ => None,
    }
}

/// own unicast addresses of an interface, in the monitor's representation
pub fn own_addrs(iface: &Interface) -> Vec<(Addr, u8)> {
    iface
        .ip_addrs()
        .iter()
        .map(|c| match c.address() {
            IpAddress::Ipv4(a) => (Addr::V4(a.octets()), c.prefix_len()),
            IpAddress::Ipv6(a) => (Addr::V6(a.octets()), c.prefix_len()),
        })
        .collect()
}

// ------------------------------------------------------------------------------------------
// device
// ------------------------------------------------------------------------------------------

/// transmit buffers are pre-filled with one of two complementary patterns (1010_0101 and
/// 0101_1010): whatever bit a read-modify-write setter forgets to clear is 1 in one of them
pub const POISON: u8 = 0xA5;
pub const POISON2: u8 = 0x5A;
pub const HANG_MARK: &str = "C10-HANG-DEVICE-LOOP";

pub struct PDev {
    pub medium: Medium,
    pub mtu: usize,
    pub checksum: ChecksumCapabilities,
    pub rx: VecDeque<Vec<u8>>,
    pub tx: Vec<Vec<u8>>,
    pub calls: usize,
    /// None = unlimited; Some(n) = at most n more successful `transmit()` calls (back-pressure)
    pub tx_budget: Option<usize>,
    /// octet every transmit buffer is filled with before smoltcp writes into it
    pub poison: u8,
}
pub struct PRx(Vec<u8>);
pub struct PTx<'a>(&'a mut Vec<Vec<u8>>, u8);
impl phy::RxToken for PRx {
    fn consume<R, F: FnOnce(&[u8]) -> R>(self, f: F) -> R {
        f(&self.0)
    }
}
impl<'a> phy::TxToken for PTx<'a> {
    fn consume<R, F: FnOnce(&mut [u8]) -> R>(self, len: usize, f: F) -> R {
        // a real DMA buffer holds whatever was in it before: make unwritten bytes visible
        let mut b = vec![self.1; len];
        let r = f(&mut b);
        self.0.push(b);
        r
    }
}
impl PDev {
    fn tick(&mut self) {
        self.calls += 1;
        if self.calls > 20_000 {
            panic!("{}: more than 20000 device calls in one poll", HANG_MARK);
        }
    }
}
impl Device for PDev {
    type RxToken<'a> = PRx;
    type TxToken<'a> = PTx<'a>;
    fn receive(&mut self, _t: Instant) -> Option<(PRx, PTx<'_>)> {
        self.tick();
        let b = self.rx.pop_front()?;
        Some((PRx(b), PTx(&mut self.tx, self.poison)))
    }
    fn transmit(&mut self, _t: Instant) -> Option<PTx<'_>> {
        self.tick();
        match self.tx_budget {
            Some(0) => return None,
            Some(ref mut n) => *n -= 1,
            None => {}
        }
        Some(PTx(&mut self.tx, self.poison))
    }
    fn capabilities(&self) -> DeviceCapabilities {
        let mut c = DeviceCapabilities::default();
        c.medium = self.medium;
        c.max_transmission_unit = self.mtu;
        c.checksum = self.checksum.clone();
        c
    }
}

// ------------------------------------------------------------------------------------------
// rig
// ------------------------------------------------------------------------------------------

#[derive(Clone, Copy, Debug, PartialEq, Eq)]
pub struct RigCfg {
    pub medium: Medium,
    /// IP MTU (Ethernet: the device MTU is this + 14; 802.15.4: the device MTU itself)
    pub ip_mtu: usize,
    pub caps: usize,
    pub slaac: bool,
    /// configure the static IPv4 address 192.168.69.1/24 (never on 802.15.4)
    pub v4_addr: bool,
    /// configure the link-local address fe80::1/64
    pub ll_addr: bool,
    /// configure the unique-local address fd00::1/64
    /// (at most IFACE_MAX_ADDR_COUNT = 2 addresses fit by default)
    pub ula_addr: bool,
    /// transmit buffer pre-fill (POISON or POISON2)
    pub poison: u8,
    /// 802.15.4 only: the interface has the SHORT hardware address IFACE_SHORT instead of the
    /// extended one (MAC headers of 9 / 15 instead of 15 / 21 octets)
    pub short_hw: bool,
    /// 802.15.4 with short_hw only: the link-local address is fe80::ff:fe00:ab01, the one derived
    /// from the short address (fully elided by IPHC), instead of fe80::1
    pub ll_from_short: bool,
}
impl RigCfg {
    /// the interface's link-local address
    pub fn ll(&self) -> [u8; 16] {
        if self.ll_from_short {
            IFACE6_SHORT
        } else {
            IFACE6
        }
    }
    pub fn dev_mtu(&self) -> usize {
        match self.medium {
            Medium::Ethernet => self.ip_mtu + 14,
            _ => self.ip_mtu,
        }
    }
    pub fn name(&self) -> String {
        format!("{}/mtu{}/{}{}", medium_name(self.medium), self.ip_mtu, CAP_NAMES[self.caps], if self.poison == POISON { String::new() } else { format!("/tx-prefill-{:02x}", self.poison) }) + if self.short_hw { "/short-hw-address" } else { "" } + if self.ll_from_short { "+derived-ll" } else { "" }
    }
}

pub struct FrameRec {
    pub t_us: i64,
    pub frame: Vec<u8>,
    pub raw: bool,
    pub verdict: Verdict,
    pub ctx: Ctx,
    /// set by a scenario: source-address findings on this frame get the signature
    /// `C10/source/<tag>` (an application model whose verdicts must be easy to tell apart)
    pub source_tag: Option<String>,
}

pub struct Rig {
    pub cfg: RigCfg,
    pub dev: PDev,
    pub iface: Interface,
    pub sockets: SocketSet<'static>,
    pub now_us: i64,
    pub mon: Monitor,
    pub ck: TxCk,
    pub log: Vec<FrameRec>,
    /// (src, dst, protocol) of packets the harness pushed through a raw socket
    pub raw_tags: Vec<(Vec<u8>, Vec<u8>, u8)>,
    /// (site, message, location) of panics inside Interface::poll
    pub panics: Vec<(String, String, String)>,
    pub hangs: Vec<String>,
    /// findings a scenario establishes itself (signature, detail)
    pub extra_findings: Vec<(String, String)>,
    /// see FrameRec::source_tag
    pub source_tag: Option<String>,
    /// addresses the interface owned when the first fragment of an IPv4 train left
    pub train_own: std::collections::BTreeMap<Vec<u8>, Vec<(Addr, u8)>>,
    pub later_fragments_from_a_removed_address: u64,
    pub dead: bool,
    pub polls: u64,
    pub trace: Vec<String>,
    pub keep_trace: bool,
}

/// (src, dst, first protocol) of the IP packet in a frame, Ethernet / raw IP only
fn ip_tuple(medium: Medium, f: &[u8]) -> Option<(Vec<u8>, Vec<u8>, u8)> {
    let p = match medium {
        Medium::Ethernet => {
            if f.len() < 14 {
                return None;
            }
            &f[14..]
        }
        Medium::Ip => f,
        Medium::Ieee802154 => return None,
    };
    match p.first()? >> 4 {
        4 if p.len() >= 20 => Some((p[12..16].to_vec(), p[16..20].to_vec(), p[9])),
        6 if p.len() >= 40 => Some((p[8..24].to_vec(), p[24..40].to_vec(), p[6])),
        _ => None,
    }
}

/// (src, dst, protocol, identification) of an IPv4 fragment, Ethernet / raw IP only
fn v4_frag_key(medium: Medium, f: &[u8]) -> Option<Vec<u8>> {
    let p = match medium {
        Medium::Ethernet if f.len() >= 14 && f[12] == 0x08 && f[13] == 0x00 => &f[14..],
        Medium::Ip => f,
        _ => return None,
    };
    if p.len() < 20 || p[0] >> 4 != 4 || (p[6] & 0x3f == 0 && p[7] == 0) {
        return None;
    }
    let mut k = p[12..20].to_vec();
    k.push(p[9]);
    k.extend_from_slice(&p[4..6]);
    Some(k)
}

impl Rig {
    pub fn new(cfg: RigCfg) -> Rig {
        let medium = cfg.medium;
        let checksum = caps_of(cfg.caps);
        let ck = txck_of(&checksum);
        let mut dev = PDev { medium, mtu: cfg.dev_mtu(), checksum, rx: VecDeque::new(), tx: vec![], calls: 0, tx_budget: None, poison: cfg.poison };
        let hw = match medium {
            Medium::Ethernet => HardwareAddress::Ethernet(EthernetAddress(IFACE_MAC)),
            Medium::Ip => HardwareAddress::Ip,
            Medium::Ieee802154 if cfg.short_hw => HardwareAddress::Ieee802154(Ieee802154Address::Short(IFACE_SHORT)),
            Medium::Ieee802154 => HardwareAddress::Ieee802154(Ieee802154Address::Extended(IFACE_EXT)),
        };
        let mut c = Config::new(hw);
        c.random_seed = 0x5eed_0c10;
        if medium == Medium::Ieee802154 {
            c.pan_id = Some(Ieee802154Pan(PAN));
        }
        c.slaac = cfg.slaac && medium != Medium::Ip;
        let mut iface = Interface::new(c, &mut dev, Instant::from_micros(0));
        let has_v4 = cfg.v4_addr && medium != Medium::Ieee802154;
        iface.update_ip_addrs(|a| {
            if has_v4 {
                a.push(IpCidr::new(ip4(&IFACE4), 24)).unwrap();
            }
            if cfg.ll_addr {
                a.push(IpCidr::new(ip6(&cfg.ll()), 64)).unwrap();
            }
            if cfg.ula_addr {
                a.push(IpCidr::new(ip6(&IFACE6_ULA), 64)).unwrap();
            }
        });
        if has_v4 {
            iface.routes_mut().add_default_ipv4_route(Ipv4Address::new(GW4[0], GW4[1], GW4[2], GW4[3])).unwrap();
        }
        if cfg.ll_addr || cfg.ula_addr {
            iface.routes_mut().add_default_ipv6_route(Ipv6Address::from_octets(GW6)).unwrap();
        }
        Rig {
            cfg,
            dev,
            iface,
            sockets: SocketSet::new(vec![]),
            now_us: 0,
            mon: Monitor::new(),
            ck,
            log: vec![],
            raw_tags: vec![],
            panics: vec![],
            hangs: vec![],
            extra_findings: vec![],
            source_tag: None,
            train_own: Default::default(),
            later_fragments_from_a_removed_address: 0,
            dead: false,
            polls: 0,
            trace: vec![],
            keep_trace: false,
        }
    }

    pub fn medium(&self) -> Medium {
        self.cfg.medium
    }
    pub fn has_v4(&self) -> bool {
        self.cfg.v4_addr && self.cfg.medium != Medium::Ieee802154
    }
    pub fn note(&mut self, s: impl FnOnce() -> String) {
        if self.keep_trace {
            let s = s();
            self.trace.push(format!("t={}us {}", self.now_us, s));
        }
    }

    /// one `Interface::poll` under catch_unwind; every frame handed to the device is validated
    pub fn poll(&mut self) -> usize {
        if self.dead {
            return 0;
        }
        let before = own_addrs(&self.iface);
        self.dev.calls = 0;
        let now = Instant::from_micros(self.now_us);
        let r = catch_unwind(AssertUnwindSafe(|| {
            self.iface.poll(now, &mut self.dev, &mut self.sockets);
        }));
        self.polls += 1;
        // "own addresses at emission time": a poll can change the address list itself (SLAAC),
        // so the lenient reading is the union of the addresses before and after the poll
        let mut own = before;
        for a in own_addrs(&self.iface) {
            if !own.contains(&a) {
                own.push(a);
            }
        }
        let frames = std::mem::take(&mut self.dev.tx);
        let n = frames.len();
        for f in frames {
            let raw = match ip_tuple(self.cfg.medium, &f) {
                Some(t) => self.raw_tags.contains(&t),
                None => false,
            };
            let ctx = Ctx { medium: self.cfg.medium, mtu: self.cfg.dev_mtu(), own: own.clone(), ck: self.ck, raw };
            let mut verdict = self.mon.validate(&f, &ctx);
            // IPv4 fragment trains and renumbering. The statement does not say at which moment
            // "own" is judged; the lenient reading (HARNESS_GUIDE rule 2) for the LATER fragments
            // of a datagram is the moment its first fragment left: the train is one packet, its
            // header cannot change half-way, and sending the rest is what lets the receiver
            // reassemble it. Such frames are counted, not reported. (A retransmitted or newly
            // built packet is a new packet and gets no such allowance.)
            if let Some(key) = v4_frag_key(self.cfg.medium, &f) {
                if verdict.class.ends_with("/frag-first") {
                    self.train_own.insert(key, own.clone());
                } else if let Some(then) = self.train_own.get(&key) {
                    let src = crate::wirecheck::Addr::V4([key[0], key[1], key[2], key[3]]);
                    if then.iter().any(|(a, _)| *a == src) {
                        let before = verdict.findings.len();
                        verdict.findings.retain(|x| !(x.clause == "source" && x.cause == "not-an-own-address"));
                        self.later_fragments_from_a_removed_address += (before - verdict.findings.len()) as u64;
                    }
                }
            }
            if self.keep_trace {
                self.trace.push(format!(
                    "t={}us   TX[{}] {}{} {}{}{}",
                    self.now_us,
                    f.len(),
                    verdict.shape,
                    if raw { " (raw socket)" } else { "" },
                    crate::sim::hex(&f),
                    verdict.undecodable.as_ref().map(|u| format!(" NOT-DECODABLE: {}", u)).unwrap_or_default(),
                    verdict.findings.iter().map(|x| format!("\n        !! {} :: {}", x.sig(), x.detail)).collect::<String>()
                ));
            }
            self.log.push(FrameRec { t_us: self.now_us, frame: f, raw, verdict, ctx, source_tag: self.source_tag.clone() });
        }
        if let Err(e) = r {
            let msg = panic_msg(e);
            if msg.starts_with(HANG_MARK) {
                self.hangs.push(msg);
            } else {
                self.panics.push((panic_site(), msg, last_panic_loc()));
            }
            self.dead = true;
        }
        n
    }

    pub fn poll_at(&mut self) -> Option<i64> {
        if self.dead {
            return None;
        }
        let now = Instant::from_micros(self.now_us);
        self.iface.poll_at(now, &self.sockets).map(|t| t.total_micros())
    }

    /// poll, and keep polling while the interface asks for an immediate poll (fragments)
    pub fn settle(&mut self) -> usize {
        let mut n = self.poll();
        for _ in 0..200 {
            match self.poll_at() {
                Some(t) if t <= self.now_us => {
                    let k = self.poll();
                    n += k;
                    if k == 0 {
                        break;
                    }
                }
                _ => break,
            }
        }
        n
    }

    pub fn inject(&mut self, frame: Vec<u8>) -> usize {
        self.note(|| format!("RX[{}] {}", frame.len(), crate::sim::hex(&frame)));
        self.dev.rx.push_back(frame);
        self.settle()
    }

    pub fn advance(&mut self, us: i64) -> usize {
        self.now_us += us;
        self.note(|| format!("advance {} us", us));
        self.settle()
    }

    /// advance to the next deadline the interface reports (at most `max_us` ahead); returns
    /// false when there is none
    pub fn advance_to_deadline(&mut self, max_us: i64) -> bool {
        match self.poll_at() {
            Some(t) if t > self.now_us && t - self.now_us <= max_us => {
                let d = t - self.now_us;
                self.advance(d);
                true
            }
            Some(t) if t <= self.now_us => {
                self.settle();
                true
            }
            _ => false,
        }
    }

    // ------------------------------------------------------------------ stimulus helpers

    /// frame carrying IP packet `ipp` from a host with link addresses (mac, ext) to the interface
    pub fn wrap(&self, mac: &[u8; 6], ext: [u8; 8], ipp: &[u8]) -> Vec<u8> {
        super::c03::world::World::wrap_ip(self.cfg.medium, mac, ext, ipp)
    }

    pub fn ns_frame(&self, src: &[u8; 16], mac: &[u8; 6], ext: [u8; 8], target: &[u8; 16], sllao: bool, unicast_dst: bool) -> Vec<u8> {
        let dst = if unicast_dst { *target } else { solicited(target) };
        let mut body = vec![0, 0, 0, 0];
        body.extend_from_slice(target);
        if sllao {
            match self.cfg.medium {
                Medium::Ethernet => body.extend_from_slice(&lladdr_opt(1, mac)),
                _ => body.extend_from_slice(&lladdr_opt(1, &ext)),
            }
        }
        let m = icmp6(src, &dst, 135, 0, &body);
        self.wrap(mac, ext, &ipv6(src, &dst, 58, 255, &m))
    }
    pub fn na_frame(&self, src: &[u8; 16], mac: &[u8; 6], ext: [u8; 8], dst: &[u8; 16]) -> Vec<u8> {
        let mut body = vec![0x60, 0, 0, 0]; // solicited + override
        body.extend_from_slice(src);
        match self.cfg.medium {
            Medium::Ethernet => body.extend_from_slice(&lladdr_opt(2, mac)),
            _ => body.extend_from_slice(&lladdr_opt(2, &ext)),
        }
        let m = icmp6(src, dst, 136, 0, &body);
        self.wrap(mac, ext, &ipv6(src, dst, 58, 255, &m))
    }

    /// make the peer and the gateway known to the neighbor cache (they "speak first")
    pub fn teach_neighbors(&mut self) {
        match self.cfg.medium {
            Medium::Ip => {}
            Medium::Ethernet => {
                if self.has_v4() {
                    self.inject(eth(&[0xff; 6], &PEER_MAC, 0x0806, &arp(1, &PEER_MAC, &PEER4, &[0; 6], &IFACE4)));
                    self.inject(eth(&[0xff; 6], &GW_MAC, 0x0806, &arp(1, &GW_MAC, &GW4, &[0; 6], &IFACE4)));
                }
                self.teach_v6();
            }
            Medium::Ieee802154 => {
                self.teach_v6();
            }
        }
    }
    fn teach_v6(&mut self) {
        if self.cfg.ll_addr {
            let me = self.cfg.ll();
            let f = self.ns_frame(&PEER6, &PEER_MAC, PEER_EXT, &me, true, false);
            self.inject(f);
            let f = self.ns_frame(&GW6, &GW_MAC, GW_EXT, &me, true, false);
            self.inject(f);
        }
        if self.cfg.ula_addr {
            let f = self.ns_frame(&PEER6_ULA, &PEER_MAC, PEER_EXT, &IFACE6_ULA, true, false);
            self.inject(f);
            if !self.cfg.ll_addr {
                let f = self.ns_frame(&GW6, &GW_MAC, GW_EXT, &IFACE6_ULA, true, false);
                self.inject(f);
            }
        }
    }
}
