//! Part (d): breadth-first exploration of event SEQUENCES on one interface with several
//! sockets: application sends, inbound requests, clock advances, neighbor answers, multicast
//! joins and a device that only accepts one frame per event (back-pressure). The interleavings
//! are what the scripted scenarios of part (b) do not give: replies generated while a fragment
//! train is in flight, datagrams queued behind neighbor discovery, timers firing in between.

use super::c03::pkt::*;
use super::c03::world::{IFACE4, IFACE6, IFACE_MAC, PEER4, PEER6, PEER_EXT, PEER_MAC};
use super::rig::*;
use super::scen::*;
use super::tcpx::Agg;
use crate::core::*;
use smoltcp::iface::SocketHandle;
use smoltcp::phy::Medium;
use smoltcp::socket::{dns, icmp, udp};
use smoltcp::wire::{DnsQueryType, IpEndpoint};
use std::collections::{BTreeMap, HashSet};
use std::sync::Mutex;

#[derive(Clone, Debug)]
pub struct BCfg {
    pub name: &'static str,
    pub medium: Medium,
    pub v6: bool,
    pub ip_mtu: usize,
    pub caps: usize,
    pub poison: u8,
    pub short_hw: bool,
}

#[derive(Clone, Debug, PartialEq)]
pub enum BEv {
    /// advance to the deadline the interface reports (+1 s if none)
    Tick,
    Plus(i64),
    UdpSmall,
    UdpBig,
    UdpMulticast,
    /// a multicast / broadcast datagram that needs fragmentation: its header stays behind in the
    /// interface's fragmentation buffer for the next fragmented packet to be written over
    UdpBigMulticast,
    IcmpEchoOut,
    EchoInBig,
    UdpClosedIn,
    SynClosedIn,
    DnsQuery,
    JoinLeave,
    NeighborAnswer,
    /// toggle: the device accepts only ONE frame per event from now on / no limit again
    SlowDevice,
}
const EVENTS: [BEv; 14] = [
    BEv::Tick,
    BEv::Plus(1_100_000),
    BEv::UdpSmall,
    BEv::UdpBig,
    BEv::UdpMulticast,
    BEv::UdpBigMulticast,
    BEv::IcmpEchoOut,
    BEv::EchoInBig,
    BEv::UdpClosedIn,
    BEv::SynClosedIn,
    BEv::DnsQuery,
    BEv::JoinLeave,
    BEv::NeighborAnswer,
    BEv::SlowDevice,
];

pub struct BAgg {
    pub agg: Agg,
    pub distinct: HashSet<u128>,
    pub validations: u64,
}
pub static BFS_AGG: Mutex<BTreeMap<String, BAgg>> = Mutex::new(BTreeMap::new());

pub struct EgBfs {
    cfg: BCfg,
    rig: Rig,
    udp: SocketHandle,
    icmp: SocketHandle,
    dns: SocketHandle,
    joined: bool,
    slow: bool,
    seq: u16,
    reported: usize,
}

impl EgBfs {
    fn big(&self) -> usize {
        match self.cfg.medium {
            Medium::Ieee802154 => 300,
            _ => {
                let fit = self.cfg.ip_mtu - hdr(self.cfg.v6) - 8;
                (2 * fit + fit / 2).min(1400)
            }
        }
    }
    fn drain(&mut self, out: &mut Vec<Viol>) {
        let new = &self.rig.log[self.reported..];
        if !new.is_empty() {
            let mut g = BFS_AGG.lock().unwrap();
            let e = g.entry(self.cfg.name.to_string()).or_insert_with(|| BAgg { agg: Agg::default(), distinct: HashSet::new(), validations: 0 });
            for rec in new {
                e.validations += 1;
                // distinct (frame, verdict) pairs: what a frame completes depends on the history,
                // and which history reaches a frame first depends on thread scheduling
                if e.distinct.insert(fp128(&(&rec.frame, &rec.verdict.shape, &rec.verdict.completed, rec.verdict.findings.len()))) {
                    e.agg.record(&rec.frame, &rec.verdict);
                }
            }
        }
        for rec in &self.rig.log[self.reported..] {
            for f in &rec.verdict.findings {
                out.push(Viol::new(f.sig(), format!("event sequence on {} ({}): {} | t={}us frame[{}] {} ({})", self.cfg.name, self.rig.cfg.name(), f.detail, rec.t_us, rec.frame.len(), crate::sim::hex(&rec.frame), rec.verdict.shape)));
            }
        }
        self.reported = self.rig.log.len();
        for (site, msg, loc) in self.rig.panics.drain(..) {
            out.push(Viol::new(format!("C10/panic/{}", site), format!("event sequence on {}: Interface::poll panicked: {} at {}", self.cfg.name, msg, loc)));
        }
        for h in self.rig.hangs.drain(..) {
            out.push(Viol::new("C10/hang/device-loop", format!("event sequence on {}: {}", self.cfg.name, h)));
        }
    }
    pub fn trace(&mut self) -> Vec<String> {
        std::mem::take(&mut self.rig.trace)
    }
    pub fn set_trace(&mut self) {
        self.rig.keep_trace = true;
    }
}

impl Harness for EgBfs {
    type Cfg = BCfg;
    type Ev = BEv;
    fn new(cfg: &BCfg) -> EgBfs {
        let rc = RigCfg { medium: cfg.medium, ip_mtu: cfg.ip_mtu, caps: cfg.caps, slaac: false, v4_addr: !cfg.v6, ll_addr: true, ula_addr: cfg.v6, poison: cfg.poison, short_hw: cfg.short_hw, ll_from_short: false };
        let mut rig = Rig::new(rc);
        let udp = udp_socket(&mut rig, 7000, None);
        let mut s = icmp::Socket::new(
            icmp::PacketBuffer::new(vec![icmp::PacketMetadata::EMPTY; 4], vec![0u8; 2048]),
            icmp::PacketBuffer::new(vec![icmp::PacketMetadata::EMPTY; 4], vec![0u8; 2048]),
        );
        s.bind(icmp::Endpoint::Ident(0x1234)).unwrap();
        let icmp = rig.sockets.add(s);
        let dns = rig.sockets.add(dns::Socket::new(&[ipa(&peer(cfg.v6))], vec![]));
        rig.settle();
        // the verdicts on the frames of the initial polls (MLD reports for the solicited-node
        // groups) are handed out with the first event: a constructor has nowhere to report to
        EgBfs { cfg: cfg.clone(), rig, udp, icmp, dns, joined: false, slow: false, seq: 0, reported: 0 }
    }
    fn enabled(&self) -> Vec<(BEv, u32)> {
        if self.rig.dead {
            return vec![];
        }
        EVENTS.iter().cloned().map(|e| (e, 0)).collect()
    }
    fn apply(&mut self, ev: &BEv, out: &mut Vec<Viol>) {
        let v6 = self.cfg.v6;
        if self.slow {
            self.rig.dev.tx_budget = Some(1);
        }
        self.seq = self.seq.wrapping_add(1);
        let seq = self.seq;
        match ev {
            BEv::Tick => {
                if !self.rig.advance_to_deadline(3_600_000_000) {
                    self.rig.advance(1_000_000);
                }
            }
            BEv::Plus(us) => {
                self.rig.advance(*us);
            }
            BEv::UdpSmall => {
                let _ = self.rig.sockets.get_mut::<udp::Socket>(self.udp).send_slice(&pat(11, seq as u8), IpEndpoint::new(ipa(&peer(v6)), 9000));
                self.rig.settle();
            }
            BEv::UdpBig => {
                let n = self.big();
                let _ = self.rig.sockets.get_mut::<udp::Socket>(self.udp).send_slice(&pat(n, seq as u8), IpEndpoint::new(ipa(&peer(v6)), 9000));
                self.rig.settle();
            }
            BEv::UdpMulticast => {
                let dst: Vec<u8> = if v6 { ALL_NODES6.to_vec() } else { vec![255; 4] };
                let _ = self.rig.sockets.get_mut::<udp::Socket>(self.udp).send_slice(&pat(5, seq as u8), IpEndpoint::new(ipa(&dst), 9000));
                self.rig.settle();
            }
            BEv::UdpBigMulticast => {
                let dst: Vec<u8> = if v6 { ALL_NODES6.to_vec() } else { vec![255; 4] };
                let n = self.big();
                let _ = self.rig.sockets.get_mut::<udp::Socket>(self.udp).send_slice(&pat(n, seq as u8), IpEndpoint::new(ipa(&dst), 9000));
                self.rig.settle();
            }
            BEv::IcmpEchoOut => {
                let body = echo_body(0x1234, seq, &pat(32, 3));
                let msg = if v6 { icmp6(&me(v6), &peer(v6), 128, 0, &body) } else { icmp4(8, 0, body[..4].try_into().unwrap(), &body[4..]) };
                let _ = self.rig.sockets.get_mut::<icmp::Socket>(self.icmp).send_slice(&msg, ipa(&peer(v6)));
                self.rig.settle();
            }
            BEv::EchoInBig => {
                let n = if v6 && self.cfg.medium != Medium::Ieee802154 { 200 } else { self.big() };
                let p = echo_request(v6, &peer(v6), &me(v6), seq, n);
                inject_from_peer(&mut self.rig, &p, 0x900 + seq);
            }
            BEv::UdpClosedIn => {
                let (s, d) = (peer(v6), me(v6));
                let p = ip(&s, &d, 17, &udp(&s, &d, 4000, 9, &pat(100, 5)));
                inject_from_peer(&mut self.rig, &p, 0xa00 + seq);
            }
            BEv::SynClosedIn => {
                let (s, d) = (peer(v6), me(v6));
                let p = ip(&s, &d, 6, &tcp(&s, &d, 4000, 81, 1000, 0, SYN, 1024, &[2, 4, 5, 0xb4], &[]));
                inject_from_peer(&mut self.rig, &p, 0xb00 + seq);
            }
            BEv::DnsQuery => {
                let cx = self.rig.iface.context();
                let _ = self.rig.sockets.get_mut::<dns::Socket>(self.dns).start_query(cx, "a.example", if v6 { DnsQueryType::Aaaa } else { DnsQueryType::A });
                self.rig.settle();
            }
            BEv::JoinLeave => {
                let g: Vec<u8> = if v6 { GROUP6.to_vec() } else { GROUP4.to_vec() };
                if self.joined {
                    let _ = self.rig.iface.leave_multicast_group(ipa(&g));
                } else {
                    let _ = self.rig.iface.join_multicast_group(ipa(&g));
                }
                self.joined = !self.joined;
                self.rig.settle();
            }
            BEv::NeighborAnswer => match self.cfg.medium {
                Medium::Ip => {
                    self.rig.settle();
                }
                Medium::Ethernet if !v6 => {
                    self.rig.inject(eth(&IFACE_MAC, &PEER_MAC, 0x0806, &arp(2, &PEER_MAC, &PEER4, &IFACE_MAC, &IFACE4)));
                }
                _ => {
                    let f = self.rig.na_frame(&PEER6, &PEER_MAC, PEER_EXT, &IFACE6);
                    self.rig.inject(f);
                }
            },
            BEv::SlowDevice => {
                self.slow = !self.slow;
                self.rig.dev.tx_budget = if self.slow { Some(1) } else { None };
                self.rig.settle();
            }
        }
        self.drain(out);
    }
    fn fingerprint(&self) -> u128 {
        fp128(&format!("{:?}|{}|{}|{}|{}|{:?}", self.rig.sockets, self.rig.iface.verif_digest(), self.rig.now_us, self.joined, self.slow, self.rig.dev.rx))
    }
}

pub fn configs(tier: Tier) -> Vec<(BCfg, usize)> {
    let d = if tier == Tier::Quick { 4 } else { 6 };
    // 14 events: the deepest level is kept for the 802.15.4 configuration (two fragmentation paths, read-modify-write header setters)
    let d5 = d.min(5);
    // quick tier: depth 4 where fragmentation paths and header compression live, 3 elsewhere
    let (d, d5, dl) = if tier == Tier::Quick { (4, 4, 3) } else { (d, d5, d5) };
    vec![
        (BCfg { name: "seq-eth-v4-mtu576", medium: Medium::Ethernet, v6: false, ip_mtu: 576, caps: 0, poison: POISON, short_hw: false }, d5),
        (BCfg { name: "seq-eth-v4-mtu68", medium: Medium::Ethernet, v6: false, ip_mtu: 68, caps: 0, poison: POISON, short_hw: false }, dl),
        (BCfg { name: "seq-ip-v4-mtu576", medium: Medium::Ip, v6: false, ip_mtu: 576, caps: 0, poison: POISON, short_hw: false }, dl),
        (BCfg { name: "seq-eth-v6-mtu1280", medium: Medium::Ethernet, v6: true, ip_mtu: 1280, caps: 0, poison: POISON, short_hw: false }, dl),
        (BCfg { name: "seq-154-v6", medium: Medium::Ieee802154, v6: true, ip_mtu: 127, caps: 0, poison: POISON, short_hw: false }, d),
        (BCfg { name: "seq-154-v6-all-tx-off", medium: Medium::Ieee802154, v6: true, ip_mtu: 125, caps: 6, poison: POISON, short_hw: false }, dl),
        // the complementary transmit-buffer pre-fill
        (BCfg { name: "seq-154-v6-prefill-5a", medium: Medium::Ieee802154, v6: true, ip_mtu: 127, caps: 0, poison: POISON2, short_hw: false }, d5),
        // short hardware address: 9-octet MAC header towards the link broadcast address
        (BCfg { name: "seq-154-v6-short-hw", medium: Medium::Ieee802154, v6: true, ip_mtu: 125, caps: 0, poison: POISON, short_hw: true }, d5),
    ]
}
pub fn cfg_by_debug(s: &str) -> Option<BCfg> {
    configs(Tier::Thorough).into_iter().map(|c| c.0).find(|c| format!("{:?}", c) == s)
}
