//! Part (a): the two-endpoint TCP harness (`crate::tcp2`) with the EgressMonitor on every frame
//! either endpoint hands to its device, explored with the deviation-bounded engine.

use super::mon::*;
use super::rig::own_addrs;
use crate::core::*;
use crate::tcp2::{Ev as TEv, Tcp2, Tcp2Cfg};
use crate::wirecheck::Addr;
use smoltcp::phy::Medium;
use std::collections::{BTreeMap, BTreeSet};
use std::sync::Mutex;

#[derive(Default, Clone)]
pub struct Agg {
    pub frames: u64,
    pub per_class: BTreeMap<String, u64>,
    pub shapes: BTreeSet<String>,
    pub undecodable: BTreeMap<String, u64>,
    pub completed: BTreeMap<String, u64>,
    pub max_frame: usize,
    pub sample: Vec<(String, String)>,
}
impl Agg {
    pub fn record(&mut self, frame: &[u8], v: &Verdict) {
        self.frames += 1;
        *self.per_class.entry(v.class.clone()).or_insert(0) += 1;
        if !self.shapes.contains(&v.shape) {
            // the four smallest (shape, frame) pairs: independent of the order of arrival
            self.sample.push((v.shape.clone(), crate::sim::hex(frame)));
            self.sample.sort();
            self.sample.truncate(4);
            self.shapes.insert(v.shape.clone());
        }
        if let Some(u) = &v.undecodable {
            *self.undecodable.entry(u.clone()).or_insert(0) += 1;
        }
        for c in &v.completed {
            *self.completed.entry(c.clone()).or_insert(0) += 1;
        }
        self.max_frame = self.max_frame.max(frame.len());
    }
    pub fn merge(&mut self, o: &Agg) {
        self.frames += o.frames;
        for (k, n) in &o.per_class {
            *self.per_class.entry(k.clone()).or_insert(0) += n;
        }
        for s in &o.shapes {
            self.shapes.insert(s.clone());
        }
        for (k, n) in &o.undecodable {
            *self.undecodable.entry(k.clone()).or_insert(0) += n;
        }
        for (k, n) in &o.completed {
            *self.completed.entry(k.clone()).or_insert(0) += n;
        }
        self.max_frame = self.max_frame.max(o.max_frame);
        // samples: keep the lexicographically smallest few so the result does not depend on
        // the order in which worker threads finish
        self.sample.extend(o.sample.iter().cloned());
        self.sample.sort();
        self.sample.dedup_by(|a, b| a.0 == b.0);
        self.sample.truncate(4);
    }
}

/// statistics of all runs of the configuration being explored (devbound gives the harness no
/// other way out); keyed by configuration name
pub static TCP_AGG: Mutex<BTreeMap<String, Agg>> = Mutex::new(BTreeMap::new());

pub struct TcpEg {
    inner: Tcp2,
    mon: [Monitor; 2],
    agg: Agg,
    flushed: bool,
    /// verdicts on the frames emitted while reaching the initial state, handed out with the
    /// first event
    init: Vec<Viol>,
}

impl TcpEg {
    fn ctx(&self, side: usize, own: Vec<(Addr, u8)>) -> Ctx {
        let cfg = &self.inner.cfg;
        Ctx {
            medium: if cfg.eth { Medium::Ethernet } else { Medium::Ip },
            mtu: if cfg.eth { cfg.mtu + 14 } else { cfg.mtu },
            own,
            ck: super::rig::txck_of(&self.inner.ends[side].dev.checksum),
            raw: false,
        }
    }
    fn check(&mut self, side: usize, frame: &[u8], own: Vec<(Addr, u8)>, out: &mut Vec<Viol>) {
        let ctx = self.ctx(side, own);
        let v = self.mon[side].validate(frame, &ctx);
        self.agg.record(frame, &v);
        for f in &v.findings {
            out.push(Viol::new(f.sig(), format!("tcp2 cfg {} endpoint {}: {} | frame[{}] {} ({})", self.inner.cfg.name, ["A", "B"][side], f.detail, frame.len(), crate::sim::hex(frame), v.shape)));
        }
    }
    fn owns(&self) -> [Vec<(Addr, u8)>; 2] {
        [own_addrs(&self.inner.ends[0].iface), own_addrs(&self.inner.ends[1].iface)]
    }
    fn flush(&mut self) {
        if self.flushed {
            return;
        }
        self.flushed = true;
        let mut g = TCP_AGG.lock().unwrap();
        g.entry(self.inner.cfg.name.to_string()).or_default().merge(&self.agg);
    }
}

impl Harness for TcpEg {
    type Cfg = Tcp2Cfg;
    type Ev = TEv;
    fn new(cfg: &Tcp2Cfg) -> TcpEg {
        let mut inner = Tcp2::new(cfg);
        inner.keep_emitted = true;
        let mut t = TcpEg { inner, mon: [Monitor::new(), Monitor::new()], agg: Agg::default(), flushed: false, init: vec![] };
        // frames emitted while reaching the initial state (SYN / ARP request / NS / RS / MLD)
        // are still in flight: net[d] holds what endpoint 1-d sent
        let owns = t.owns();
        let mut first: Vec<(u64, usize, Vec<u8>)> = vec![];
        for d in 0..2 {
            for f in &t.inner.net[d] {
                first.push((f.id, 1 - d, f.bytes.clone()));
            }
        }
        first.sort();
        let mut sink = vec![];
        for (_, side, bytes) in first {
            t.check(side, &bytes, owns[side].clone(), &mut sink);
        }
        t.init = sink;
        t
    }
    fn enabled(&self) -> Vec<(TEv, u32)> {
        self.inner.enabled()
    }
    fn apply(&mut self, ev: &TEv, out: &mut Vec<Viol>) {
        let before = self.owns();
        let mut inner_out = vec![];
        self.inner.apply(ev, &mut inner_out);
        // the oracles built into tcp2 (stream integrity, progress, sender monitor) belong to other
        // checks; only machinery problems and panics pass
        out.extend(inner_out.into_iter().filter(|v| v.sig.starts_with("MACHINERY") || v.sig.starts_with("panic/")));
        out.append(&mut self.init);
        let after = self.owns();
        let emitted = std::mem::take(&mut self.inner.emitted);
        for (side, f) in emitted {
            let mut own = before[side].clone();
            for a in &after[side] {
                if !own.contains(a) {
                    own.push(a.clone());
                }
            }
            self.check(side, &f, own, out);
        }
    }
    fn fingerprint(&self) -> u128 {
        // cheap image (the Debug image of 4 KiB socket buffers per event is too costly); only
        // feeds the distinct-state statistic and the determinism check of devbound
        let mut s = String::new();
        use std::fmt::Write;
        for e in &self.inner.ends {
            let so = e.sockets.get::<smoltcp::socket::tcp::Socket>(e.h);
            write!(s, "{}|{}|{}|{}|{}|{}|{}|{};", so.state(), so.send_queue(), so.recv_queue(), e.written, e.read.len(), e.closed, e.finished, e.stalled).unwrap();
        }
        for d in 0..2 {
            for f in &self.inner.net[d] {
                write!(s, "{}:{:x};", d, fp128(&f.bytes) as u64).unwrap();
            }
        }
        write!(s, "@{}#{}", self.inner.now, self.agg.frames).unwrap();
        fp128(&s)
    }
    fn finish(&mut self, _horizon_hit: bool, _out: &mut Vec<Viol>) {
        self.flush();
    }
    fn outcome(&self) -> String {
        self.inner.outcome()
    }
}

/// MTU sets: IPv4 {68 = protocol minimum, 69, 576, 1500}; IPv6 {1280 = protocol minimum, 1281, 1500}
pub fn configs(tier: Tier) -> Vec<(Tcp2Cfg, u32)> {
    let k = if tier == Tier::Quick { 2 } else { 3 };
    let mut v = vec![];
    let leak = |s: String| -> &'static str { Box::leak(s.into_boxed_str()) };
    for eth in [false, true] {
        for v6 in [false, true] {
            let mtus: &[usize] = if v6 { &[1280, 1281, 1500] } else { &[68, 69, 576, 1500] };
            for &mtu in mtus {
                // stream long enough for several full-sized segments in each direction of A->B
                let mss = mtu - if v6 { 60 } else { 40 };
                let len_a = (2 * mss + mss / 2 + 3).min(3200);
                let buf = (len_a + 64).next_power_of_two().max(256);
                let name = leak(format!("c10-{}-{}-mtu{}", if eth { "eth" } else { "ip" }, if v6 { "v6" } else { "v4" }, mtu));
                v.push((Tcp2Cfg { eth, v6, mtu, len: [len_a, 20], rx: [256, buf], tx: [buf, 256], ..Tcp2Cfg::base(name) }, k));
            }
        }
    }
    // SLAAC on: router solicitations and MLD reports interleave with the TCP traffic
    v.push((Tcp2Cfg { eth: true, v6: false, mtu: 576, slaac: true, len: [700, 20], rx: [256, 1024], tx: [1024, 256], ..Tcp2Cfg::base("c10-eth-v4-mtu576-slaac") }, k));
    v.push((Tcp2Cfg { eth: true, v6: true, mtu: 1280, slaac: true, len: [700, 20], rx: [256, 1024], tx: [1024, 256], ..Tcp2Cfg::base("c10-eth-v6-mtu1280-slaac") }, k));
    // keep-alive / timeout timers, no delayed ACK, small windows (zero-window probes)
    v.push((Tcp2Cfg { mtu: 68, len: [60, 20], keep_alive_ms: Some(700), timeout_ms: Some(5000), ..Tcp2Cfg::base("c10-ip-v4-mtu68-keepalive") }, k));
    v.push((Tcp2Cfg { mtu: 576, len: [100, 0], rx: [64, 16], nagle: false, ack_delay: false, ..Tcp2Cfg::base("c10-ip-v4-mtu576-rx16") }, k));
    // burst-limited devices (max_burst_size): the advertised window is clamped at emit time
    v.push((Tcp2Cfg { burst: Some(2), rx: [2048, 2048], tx: [2048, 2048], mtu: 140, len: [400, 100], ..Tcp2Cfg::base("c10-ip-v4-burst2-rx2048") }, k));
    v.push((Tcp2Cfg { burst: Some(1), eth: true, v6: true, rx: [4096, 4096], tx: [2048, 2048], mtu: 1280, len: [700, 100], ..Tcp2Cfg::base("c10-eth-v6-burst1-rx4096") }, k));
    v
}

pub fn cfg_by_debug(s: &str) -> Option<Tcp2Cfg> {
    configs(Tier::Thorough).into_iter().map(|c| c.0).find(|c| format!("{:?}", c) == s)
}
