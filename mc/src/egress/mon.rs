//! EgressMonitor — an INDEPENDENT validator for every buffer smoltcp hands to `TxToken::consume`.
//!
//! Nothing in here uses `smoltcp::wire`. All offsets / rules are taken from the RFCs:
//! Ethernet II, ARP (826), IPv4 (791), ICMPv4 (792), IGMP (1112/2236/3376), UDP (768), TCP (9293,
//! options 7323/2018), IPv6 (8200), ICMPv6 (4443), NDISC (4861), MLD (2710/3810), DHCP (2131/2132),
//! DNS (1035), IEEE 802.15.4-2003/2006 MAC header, 6LoWPAN (4944 fragmentation, 6282 IPHC/NHC).
//! The only shared piece is the RFC 1071 reference sum of `wirecheck` (itself independent).
//!
//! The monitor demands what the C10 statement says and no more:
//!   * length   — header length fields agree with each other and with the frame size
//!   * checksum — mandatory checksums are right (only for protocols whose tx checksumming is on)
//!   * options  — option lists are well-formed, terminated and padded
//!   * mtu      — the frame does not exceed the device MTU
//!   * fragment — IPv4 / 6LoWPAN fragment fields are consistent
//!   * source   — IP source is an own unicast address, or unspecified where the protocol wants
//!                it; never broadcast / multicast (raw-socket frames are exempt from this only)
//!   * reserved — bytes that the protocol defines as zero padding / unused are zero (these are
//!                the "padded" part of the statement; they become visible because the harness
//!                device pre-fills transmit buffers with 0xA5)
//!   * addressing — on 802.15.4 the destination an IPHC header decompresses to agrees with the
//!                link destination of the frame (multicast <-> link broadcast, unicast <-> unicast)
//!   * protocol — the frame claims a protocol the stack has no business emitting (unknown
//!                ethertype / IP protocol / 802.15.4 frame type), i.e. a corrupted type field
//! Deliberately NOT asserted (not in the statement): Ethernet minimum frame size / padding,
//! hop limits (255 for NDISC, 1 for MLD/IGMP), TTL, TCP flag combinations, DF policy, BOOTP
//! minimum size of 300 octets, ICMPv6 errors <= 1280 octets, contents of a quoted packet inside
//! an ICMP error (it is a truncated copy of somebody else's packet), link-layer addresses.

use crate::wirecheck::{rfc1071_ok, Addr};
use smoltcp::phy::Medium;
use std::collections::BTreeMap;

#[derive(Clone, Copy, Debug, PartialEq, Eq, PartialOrd, Ord)]
pub struct TxCk {
    pub ipv4: bool,
    pub udp: bool,
    pub tcp: bool,
    pub icmpv4: bool,
    pub icmpv6: bool,
}
impl TxCk {
    pub const ALL: TxCk = TxCk { ipv4: true, udp: true, tcp: true, icmpv4: true, icmpv6: true };
}

#[derive(Clone, Debug)]
pub struct Ctx {
    pub medium: Medium,
    /// `DeviceCapabilities::max_transmission_unit` of the device (Ethernet: incl. the 14-byte header)
    pub mtu: usize,
    /// the interface's unicast addresses (with prefix length) at emission time
    pub own: Vec<(Addr, u8)>,
    /// which protocols have transmit checksumming done by smoltcp
    pub ck: TxCk,
    /// the IP header of this frame was supplied verbatim by a raw socket
    pub raw: bool,
}

#[derive(Clone, Debug)]
pub struct Finding {
    pub clause: &'static str,
    pub proto: &'static str,
    pub cause: String,
    pub detail: String,
}
impl Finding {
    pub fn sig(&self) -> String {
        format!("C10/{}/{}/{}", self.clause, self.proto, self.cause)
    }
}

#[derive(Clone, Debug, Default)]
pub struct Verdict {
    pub findings: Vec<Finding>,
    /// protocol class, e.g. "eth/ipv4/udp/dhcp-discover"
    pub class: String,
    /// class + length class + flags/options
    pub shape: String,
    /// a form the monitor cannot decode (counted, never a violation)
    pub undecodable: Option<String>,
    /// classes of datagrams that became complete with this frame (IPv4 / 6LoWPAN reassembly)
    pub completed: Vec<String>,
    /// every COMPLETE UDP datagram this frame carries or completes, as the monitor decodes it:
    /// (source, destination, source port, destination port, payload length). Lets a scenario
    /// compare what a receiver would see with what it handed to the socket.
    pub udp_seen: Vec<(Addr, Addr, u16, u16, usize)>,
    /// TTL / hop limit of the IP header this frame carries (6LoWPAN: as it decompresses)
    pub hop: Option<u8>,
}

fn be16(b: &[u8], o: usize) -> usize {
    ((b[o] as usize) << 8) | b[o + 1] as usize
}
fn v4(b: &[u8]) -> Addr {
    Addr::V4([b[0], b[1], b[2], b[3]])
}
fn v6(b: &[u8]) -> Addr {
    let mut a = [0u8; 16];
    a.copy_from_slice(&b[..16]);
    Addr::V6(a)
}
fn len_class(n: usize) -> &'static str {
    match n {
        0 => "0",
        1 => "1",
        2..=8 => "2-8",
        9..=64 => "9-64",
        65..=256 => "65-256",
        257..=576 => "257-576",
        577..=1280 => "577-1280",
        _ => ">1280",
    }
}
fn pseudo(src: &Addr, dst: &Addr, proto: u8, len: usize) -> Vec<u8> {
    let mut v = vec![];
    v.extend_from_slice(src.bytes());
    v.extend_from_slice(dst.bytes());
    match src {
        Addr::V4(_) => {
            v.push(0);
            v.push(proto);
            v.push((len >> 8) as u8);
            v.push(len as u8);
        }
        Addr::V6(_) => {
            v.extend_from_slice(&(len as u32).to_be_bytes());
            v.extend_from_slice(&[0, 0, 0, proto]);
        }
    }
    v
}

struct Out<'a> {
    f: &'a mut Vec<Finding>,
}
impl<'a> Out<'a> {
    fn add(&mut self, clause: &'static str, proto: &'static str, cause: impl Into<String>, detail: impl Into<String>) {
        self.f.push(Finding { clause, proto, cause: cause.into(), detail: detail.into() });
    }
}

/// What the transport layer tells the source-address rule.
#[derive(Clone, Copy, PartialEq, Eq, Debug)]
enum Unspec {
    /// the protocol requires / permits the unspecified source (DHCP client, MLD, DAD NS, RS, IGMP)
    Allowed,
    NotAllowed,
}

struct V4Asm {
    data: Vec<u8>,
    have: Vec<(usize, usize)>,
    total: Option<usize>,
}
struct LpAsm {
    size: usize,
    data: Vec<u8>,
    have: Vec<(usize, usize)>,
    udp_cksum_elided: bool,
}

fn covered(have: &[(usize, usize)], total: usize) -> bool {
    let mut v = have.to_vec();
    v.sort();
    let mut at = 0;
    for (a, b) in v {
        if a > at {
            return false;
        }
        at = at.max(b);
    }
    at >= total
}
fn overlaps(have: &[(usize, usize)], a: usize, b: usize) -> bool {
    a < b && have.iter().any(|&(x, y)| a < y && x < b)
}

#[derive(Default)]
pub struct Monitor {
    v4asm: BTreeMap<(Vec<u8>, u16), V4Asm>,
    lpasm: BTreeMap<(Vec<u8>, u16), LpAsm>,
    /// fragment trains replaced by a new first fragment with the same key before they completed
    pub abandoned: u64,
}

impl Monitor {
    pub fn new() -> Monitor {
        Monitor::default()
    }
    /// fragment trains that never completed (evidence only: completeness is C12's business)
    pub fn pending(&self) -> usize {
        self.v4asm.len() + self.lpasm.len()
    }

    pub fn validate(&mut self, frame: &[u8], ctx: &Ctx) -> Verdict {
        let mut v = Verdict::default();
        let mut findings = vec![];
        {
            let mut out = Out { f: &mut findings };
            if frame.len() > ctx.mtu {
                out.add(
                    "mtu",
                    match ctx.medium {
                        Medium::Ethernet => "ethernet",
                        Medium::Ip => "ip",
                        Medium::Ieee802154 => "ieee802154",
                    },
                    "frame-exceeds-device-mtu",
                    format!("frame of {} octets handed to a device whose max_transmission_unit is {}", frame.len(), ctx.mtu),
                );
            } else if ctx.medium == Medium::Ieee802154 && frame.len() > 125 {
                // an IEEE 802.15.4 PHY carries 127 octets including the 2-octet FCS, which the
                // device appends itself (smoltcp hands frames over without FCS and sizes them for
                // 125): a device that reports 127 still cannot send more than 125 of them
                out.add(
                    "mtu",
                    "ieee802154",
                    "frame-exceeds-125-octets",
                    format!("frame of {} octets (without FCS) handed to an IEEE 802.15.4 device (reported max_transmission_unit {}): the PHY carries 127 octets including the 2-octet FCS", frame.len(), ctx.mtu),
                );
            }
            match ctx.medium {
                Medium::Ethernet => self.ethernet(frame, ctx, &mut out, &mut v),
                Medium::Ip => {
                    v.class = "ip".into();
                    self.ip(frame, ctx, &mut out, &mut v, false)
                }
                Medium::Ieee802154 => self.ieee802154(frame, ctx, &mut out, &mut v),
            }
        }
        if v.shape.is_empty() {
            v.shape = format!("{}|len={}", v.class, len_class(frame.len()));
        }
        v.findings = findings;
        v
    }

    // ------------------------------------------------------------------------------ Ethernet

    fn ethernet(&mut self, f: &[u8], ctx: &Ctx, out: &mut Out, v: &mut Verdict) {
        v.class = "eth".into();
        if f.len() < 14 {
            out.add("length", "ethernet", "shorter-than-header", format!("Ethernet frame of {} octets", f.len()));
            return;
        }
        let ety = be16(f, 12);
        let p = &f[14..];
        match ety {
            0x0806 => self.arp(p, out, v),
            0x0800 => {
                if p.first().map(|b| b >> 4) != Some(4) {
                    out.add("length", "ipv4", "version", format!("ethertype 0x0800 but IP version nibble {:?}", p.first().map(|b| b >> 4)));
                    return;
                }
                self.ip(p, ctx, out, v, false)
            }
            0x86dd => {
                if p.first().map(|b| b >> 4) != Some(6) {
                    out.add("length", "ipv6", "version", format!("ethertype 0x86dd but IP version nibble {:?}", p.first().map(|b| b >> 4)));
                    return;
                }
                self.ip(p, ctx, out, v, false)
            }
            t => {
                v.class = format!("eth/ethertype-{:04x}", t);
                out.add("protocol", "ethernet", "unknown-ethertype", format!("ethertype {:#06x}", t));
            }
        }
    }

    fn arp(&mut self, p: &[u8], out: &mut Out, v: &mut Verdict) {
        v.class.push_str("/arp");
        if p.len() < 8 {
            out.add("length", "arp", "shorter-than-fixed-part", format!("ARP packet of {} octets", p.len()));
            return;
        }
        let (htype, ptype, hlen, plen, op) = (be16(p, 0), be16(p, 2), p[4] as usize, p[5] as usize, be16(p, 6));
        if htype != 1 || ptype != 0x0800 {
            out.add("protocol", "arp", "htype-ptype", format!("hardware type {} protocol type {:#06x} on an Ethernet/IPv4 interface", htype, ptype));
            return;
        }
        if hlen != 6 || plen != 4 {
            out.add("length", "arp", "hlen-plen", format!("hlen {} plen {} for Ethernet/IPv4", hlen, plen));
            return;
        }
        // the frame carries nothing but the ARP packet (smoltcp does not pad frames)
        if p.len() != 8 + 2 * (hlen + plen) {
            out.add("length", "arp", "packet-size-vs-frame", format!("ARP packet needs {} octets, the frame carries {}", 8 + 2 * (hlen + plen), p.len()));
            return;
        }
        match op {
            1 => v.class.push_str("/request"),
            2 => v.class.push_str("/reply"),
            o => {
                v.class.push_str("/op?");
                out.add("protocol", "arp", "operation", format!("ARP operation {}", o));
            }
        }
        // ARP has no IP header: the source-address rule of the statement does not apply
    }

    // ------------------------------------------------------------------------------ IP

    /// `p` must be the whole rest of the frame. `lowpan`: the packet was reconstructed from
    /// 6LoWPAN (length fields are derived, not on the wire).
    fn ip(&mut self, p: &[u8], ctx: &Ctx, out: &mut Out, v: &mut Verdict, lowpan: bool) {
        match p.first().map(|b| b >> 4) {
            Some(4) => self.ipv4(p, ctx, out, v),
            Some(6) => self.ipv6(p, ctx, out, v, lowpan, false, false),
            x => {
                v.class.push_str("/ip?");
                out.add("length", "ip", "version", format!("IP version nibble {:?}", x));
            }
        }
    }

    fn own(ctx: &Ctx, a: &Addr) -> bool {
        ctx.own.iter().any(|(o, _)| o == a)
    }
    fn directed_broadcast(ctx: &Ctx, a: &Addr) -> bool {
        let Addr::V4(x) = a else { return false };
        let x = u32::from_be_bytes(*x);
        ctx.own.iter().any(|(o, plen)| match o {
            Addr::V4(n) if *plen < 31 && *plen > 0 => {
                let n = u32::from_be_bytes(*n);
                let mask = u32::MAX << (32 - *plen as u32);
                x == (n | !mask)
            }
            _ => false,
        })
    }

    /// part of the source rule that needs no transport knowledge: never broadcast/multicast,
    /// and if specified it must be an own address
    fn source_basic(ctx: &Ctx, proto: &'static str, src: &Addr, what: &str, out: &mut Out) {
        if ctx.raw {
            return;
        }
        if src.is_multicast() {
            out.add("source", proto, "multicast", format!("{}: source address {} is a multicast address", what, src));
        } else if src.is_v4_limited_broadcast() || Self::directed_broadcast(ctx, src) {
            out.add("source", proto, "broadcast", format!("{}: source address {} is a broadcast address", what, src));
        } else if !src.is_unspecified() && !Self::own(ctx, src) {
            // the cause names what can be seen on the wire, so that different defects of source
            // selection keep different signatures
            let has_v6 = ctx.own.iter().any(|(o, _)| matches!(o, Addr::V6(_)));
            let shares_low16 = match src {
                Addr::V6(a) => ctx.own.iter().any(|(o, _)| matches!(o, Addr::V6(b) if b[14..] == a[14..])),
                _ => false,
            };
            let cause = match src {
                Addr::V4(a) if a[0] == 127 => "loopback-not-own",
                Addr::V6(a) if a[..15] == [0; 15] && a[15] == 1 => {
                    if has_v6 {
                        "loopback-not-own"
                    } else {
                        "loopback-while-interface-has-no-ipv6-address"
                    }
                }
                _ if shares_low16 => "foreign-address-sharing-low-16-bits-with-an-own-address",
                _ => "not-an-own-address",
            };
            out.add(
                "source",
                proto,
                cause,
                format!("{}: source address {} is not one of the interface's addresses {:?}", what, src, ctx.own.iter().map(|(a, _)| a.to_string()).collect::<Vec<_>>()),
            );
        }
    }
    fn source_unspec(ctx: &Ctx, proto: &'static str, src: &Addr, allowed: Unspec, what: &str, out: &mut Out) {
        if ctx.raw {
            return;
        }
        if src.is_unspecified() && allowed == Unspec::NotAllowed {
            out.add("source", proto, "unspecified-where-not-required", format!("{}: sent from the unspecified address", what));
        }
    }

    fn ipv4(&mut self, p: &[u8], ctx: &Ctx, out: &mut Out, v: &mut Verdict) {
        v.class.push_str("/ipv4");
        v.hop = p.get(8).copied();
        if p.len() < 20 {
            out.add("length", "ipv4", "shorter-than-header", format!("IPv4 packet of {} octets", p.len()));
            return;
        }
        let ihl = ((p[0] & 0xf) as usize) * 4;
        if ihl < 20 || ihl > p.len() {
            out.add("length", "ipv4", "ihl", format!("IHL {} octets in a packet of {}", ihl, p.len()));
            return;
        }
        let total = be16(p, 2);
        if total != p.len() {
            out.add("length", "ipv4", "total-length-vs-frame", format!("total length field {} but the frame carries {} octets of IP", total, p.len()));
            return;
        }
        if ctx.ck.ipv4 && !rfc1071_ok(&[&p[..ihl]]) {
            out.add("checksum", "ipv4", "header", format!("IPv4 header checksum wrong (header {})", crate::sim::hex(&p[..ihl])));
        }
        if ihl > 20 {
            // IPv4 options: EOL / NOP / TLV inside the header
            let o = &p[20..ihl];
            let mut i = 0;
            while i < o.len() {
                match o[i] {
                    0 => {
                        if o[i..].iter().any(|&x| x != 0) {
                            out.add("options", "ipv4", "padding-after-eol", "IPv4 option padding after End-of-List is not zero");
                        }
                        break;
                    }
                    1 => i += 1,
                    _ => {
                        if i + 2 > o.len() || (o[i + 1] as usize) < 2 || i + o[i + 1] as usize > o.len() {
                            out.add("options", "ipv4", "option-overruns-header", "IPv4 option does not fit into the header");
                            break;
                        }
                        i += o[i + 1] as usize;
                    }
                }
            }
        }
        let flags = p[6] >> 5;
        let (df, mf) = (flags & 2 != 0, flags & 1 != 0);
        let off = (be16(p, 6) & 0x1fff) * 8;
        let (src, dst, proto) = (v4(&p[12..16]), v4(&p[16..20]), p[9]);
        let payload = &p[ihl..];
        if flags & 4 != 0 {
            out.add("reserved", "ipv4", "reserved-flag", "IPv4 reserved flag bit set");
        }
        Self::source_basic(ctx, "ipv4", &src, &format!("IPv4 {}>{} proto {}", src, dst, proto), out);
        if !mf && off == 0 {
            self.l4(&src, &dst, proto, payload, ctx, out, v, false);
            return;
        }
        // ---- fragment
        v.class.push_str(if off == 0 { "/frag-first" } else if mf { "/frag-middle" } else { "/frag-last" });
        v.shape = format!("{}|proto={}|len={}", v.class, proto, len_class(payload.len()));
        if df {
            out.add("fragment", "ipv4", "dont-fragment-on-a-fragment", format!("DF set together with MF={} offset={}", mf, off));
        }
        if mf && payload.len() % 8 != 0 {
            out.add("fragment", "ipv4", "non-last-fragment-not-multiple-of-8", format!("fragment with MF=1 carries {} octets (not a multiple of 8)", payload.len()));
        }
        if mf && payload.is_empty() {
            out.add("fragment", "ipv4", "empty-fragment", "fragment with MF=1 and no data");
        }
        if off + payload.len() > 65535 - ihl {
            out.add("fragment", "ipv4", "beyond-65535", format!("fragment offset {} + {} exceeds the maximum datagram size", off, payload.len()));
            return;
        }
        let mut key = p[12..20].to_vec();
        key.push(proto);
        let id = be16(p, 4) as u16;
        let k = (key, id);
        if off == 0 && self.v4asm.contains_key(&k) {
            self.v4asm.remove(&k);
            self.abandoned += 1;
        }
        let a = self.v4asm.entry(k.clone()).or_insert_with(|| V4Asm { data: vec![], have: vec![], total: None });
        if overlaps(&a.have, off, off + payload.len()) {
            out.add("fragment", "ipv4", "overlapping-fragments", format!("fragment [{}..{}) overlaps data already sent for id {:#06x}", off, off + payload.len(), id));
        }
        if a.data.len() < off + payload.len() {
            a.data.resize(off + payload.len(), 0);
        }
        a.data[off..off + payload.len()].copy_from_slice(payload);
        a.have.push((off, off + payload.len()));
        if !mf {
            a.total = Some(off + payload.len());
        }
        if let Some(t) = a.total {
            if a.data.len() > t {
                out.add("fragment", "ipv4", "data-beyond-last-fragment", format!("fragments of id {:#06x} extend beyond the end given by the last fragment ({} > {})", id, a.data.len(), t));
            }
            if covered(&a.have, t) {
                let a = self.v4asm.remove(&k).unwrap();
                let mut v2 = Verdict { class: format!("{}/reassembled/ipv4", v.class.split('/').next().unwrap_or("")), ..Default::default() };
                self.l4(&src, &dst, proto, &a.data[..t], ctx, out, &mut v2, false);
                v.udp_seen.append(&mut v2.udp_seen);
                v.completed.push(if v2.shape.is_empty() { v2.class } else { v2.shape });
            }
        }
    }

    /// `have_src_rule`: the source rule was already applied to this header (6LoWPAN FRAG1)
    #[allow(clippy::too_many_arguments)]
    fn ipv6(&mut self, p: &[u8], ctx: &Ctx, out: &mut Out, v: &mut Verdict, lowpan: bool, udp_cksum_elided: bool, have_src_rule: bool) {
        v.class.push_str("/ipv6");
        v.hop = p.get(7).copied();
        if p.len() < 40 {
            out.add("length", "ipv6", "shorter-than-header", format!("IPv6 packet of {} octets", p.len()));
            return;
        }
        let plen = be16(p, 4);
        if plen + 40 != p.len() {
            out.add("length", "ipv6", "payload-length-vs-frame", format!("payload length field {} + 40 but the frame carries {} octets of IP", plen, p.len()));
            return;
        }
        let (src, dst) = (v6(&p[8..24]), v6(&p[24..40]));
        let mut nh = p[6];
        let mut off = 40;
        let mut first = true;
        loop {
            match nh {
                0 | 60 | 43 => {
                    let name: &'static str = match nh {
                        0 => "ipv6-hbh",
                        60 => "ipv6-dstopts",
                        _ => "ipv6-routing",
                    };
                    if nh == 0 && !first {
                        out.add("options", "ipv6-hbh", "not-first", "hop-by-hop options header is not the first extension header");
                    }
                    if off + 8 > p.len() {
                        out.add("length", name, "truncated", format!("extension header at offset {} truncated (packet {} octets)", off, p.len()));
                        return;
                    }
                    let l = (p[off + 1] as usize + 1) * 8;
                    if off + l > p.len() {
                        out.add("length", name, "length-exceeds-packet", format!("extension header length {} at offset {} exceeds the packet ({} octets)", l, off, p.len()));
                        return;
                    }
                    if nh != 43 {
                        // TLV options must exactly fill the header; padding is Pad1 / PadN with zero data
                        let end = off + l;
                        let mut o = off + 2;
                        while o < end {
                            if p[o] == 0 {
                                o += 1;
                                continue;
                            }
                            if o + 2 > end {
                                out.add("options", name, "option-truncated", format!("option type {} at offset {} has no length octet inside the header", p[o], o));
                                return;
                            }
                            let ol = p[o + 1] as usize;
                            if o + 2 + ol > end {
                                out.add("options", name, "option-overruns-header", format!("option type {} length {} at offset {} overruns the {}-octet header", p[o], ol, o - off, l));
                                return;
                            }
                            if p[o] == 1 && p[o + 2..o + 2 + ol].iter().any(|&x| x != 0) {
                                out.add("reserved", name, "padn-data-nonzero", format!("PadN option data is not zero: {}", crate::sim::hex(&p[o..o + 2 + ol])));
                            }
                            if p[o] == 5 && ol != 2 {
                                out.add("options", name, "router-alert-length", format!("router alert option with length {}", ol));
                            }
                            o += 2 + ol;
                        }
                    }
                    v.class.push_str(match nh {
                        0 => "+hbh",
                        60 => "+dstopts",
                        _ => "+routing",
                    });
                    nh = p[off];
                    off += l;
                }
                44 => {
                    if off + 8 > p.len() {
                        out.add("length", "ipv6-fragment", "truncated", "fragment header truncated");
                        return;
                    }
                    let fo = be16(p, off + 2);
                    v.class.push_str("+frag");
                    if fo & 0xfff8 != 0 || fo & 1 != 0 {
                        // a real fragment: the upper layer is not complete here (smoltcp does not
                        // emit IPv6 fragments; nothing more to check)
                        Self::source_basic(ctx, "ipv6", &src, &format!("IPv6 fragment {}>{}", src, dst), out);
                        return;
                    }
                    nh = p[off];
                    off += 8;
                }
                _ => break,
            }
            first = false;
        }
        if !have_src_rule {
            Self::source_basic(ctx, "ipv6", &src, &format!("IPv6 {}>{} next header {}", src, dst, nh), out);
        }
        let _ = lowpan;
        self.l4(&src, &dst, nh, &p[off..], ctx, out, v, udp_cksum_elided);
    }

    // ------------------------------------------------------------------------------ transport

    #[allow(clippy::too_many_arguments)]
    fn l4(&mut self, src: &Addr, dst: &Addr, proto: u8, seg: &[u8], ctx: &Ctx, out: &mut Out, v: &mut Verdict, udp_cksum_elided: bool) {
        let is6 = matches!(src, Addr::V6(_));
        let ipn: &'static str = if is6 { "ipv6" } else { "ipv4" };
        let mut unspec = Unspec::NotAllowed;
        match (proto, is6) {
            (1, false) => self.icmpv4(seg, ctx, out, v),
            (2, false) => {
                // RFC 3376 §4.2.13 lets a host without an address report from 0.0.0.0
                unspec = Unspec::Allowed;
                self.igmp(seg, out, v)
            }
            (6, _) => self.tcp(src, dst, seg, ctx, out, v),
            (17, _) => {
                if self.udp(src, dst, seg, ctx, out, v, udp_cksum_elided) {
                    unspec = Unspec::Allowed;
                }
            }
            (58, true) => {
                if self.icmpv6(src, dst, seg, ctx, out, v) {
                    unspec = Unspec::Allowed;
                }
            }
            (59, true) => v.class.push_str("/no-next-header"),
            (p, _) => {
                v.class.push_str(&format!("/proto-{}", p));
                if ctx.raw {
                    // opaque payload chosen by the application through a raw socket
                } else {
                    out.add("protocol", ipn, "unknown-upper-layer-protocol", format!("{} packet {}>{} claims upper-layer protocol {}", ipn, src, dst, p));
                }
            }
        }
        Self::source_unspec(ctx, ipn, src, unspec, &format!("{} ({}>{})", v.class, src, dst), out);
        if v.shape.is_empty() {
            v.shape = format!("{}|len={}", v.class, len_class(seg.len()));
        }
    }

    fn icmpv4(&mut self, m: &[u8], ctx: &Ctx, out: &mut Out, v: &mut Verdict) {
        v.class.push_str("/icmpv4");
        if m.len() < 8 {
            out.add("length", "icmpv4", "shorter-than-header", format!("ICMPv4 message of {} octets", m.len()));
            return;
        }
        if ctx.ck.icmpv4 && !rfc1071_ok(&[m]) {
            out.add("checksum", "icmpv4", "message", format!("ICMPv4 checksum wrong (type {} code {}, {} octets)", m[0], m[1], m.len()));
        }
        let (ty, code) = (m[0], m[1]);
        match ty {
            0 => v.class.push_str("/echo-reply"),
            8 => v.class.push_str("/echo-request"),
            3 | 11 | 12 | 4 | 5 => {
                v.class.push_str(&format!("/error-{}.{}", ty, code));
                // the quoted packet is a (possibly truncated) copy of the offending packet: only its
                // IP header must be there in full (RFC 792: "internet header + 64 bits of data";
                // the data part may be shorter when the original was)
                if m.len() < 8 + 20 {
                    out.add("length", "icmpv4", "error-without-quoted-header", format!("ICMPv4 error type {} of {} octets cannot hold the quoted IP header", ty, m.len()));
                } else {
                    let q = &m[8..];
                    let qihl = ((q[0] & 0xf) as usize) * 4;
                    if q[0] >> 4 != 4 || qihl < 20 || qihl > q.len() {
                        out.add("length", "icmpv4", "quoted-header-truncated", format!("quoted IP header (version {}, IHL {} octets) does not fit into the {} quoted octets", q[0] >> 4, qihl, q.len()));
                    }
                }
                let unused: &[u8] = match (ty, code) {
                    (3, 4) => &m[4..6],
                    (3, _) | (11, _) => &m[4..8],
                    (12, _) => &m[5..8],
                    _ => &[],
                };
                if unused.iter().any(|&x| x != 0) {
                    out.add("reserved", "icmpv4", "unused-field-nonzero", format!("ICMPv4 type {} code {}: unused header octets are {} instead of zero", ty, code, crate::sim::hex(unused)));
                }
            }
            13 | 14 => {
                v.class.push_str("/timestamp");
                if m.len() != 20 {
                    out.add("length", "icmpv4", "timestamp-size", format!("ICMPv4 timestamp message of {} octets", m.len()));
                }
            }
            t => v.class.push_str(&format!("/type-{}", t)),
        }
        v.shape = format!("{}|len={}", v.class, len_class(m.len() - 8));
    }

    fn igmp(&mut self, m: &[u8], out: &mut Out, v: &mut Verdict) {
        v.class.push_str("/igmp");
        if m.len() < 8 {
            out.add("length", "igmp", "shorter-than-8", format!("IGMP message of {} octets", m.len()));
            return;
        }
        // no checksum capability covers IGMP: the checksum is always smoltcp's job
        if !rfc1071_ok(&[m]) {
            out.add("checksum", "igmp", "message", format!("IGMP checksum wrong ({})", crate::sim::hex(m)));
        }
        match m[0] {
            0x11 => {
                v.class.push_str("/query");
                if m.len() != 8 && m.len() < 12 {
                    out.add("length", "igmp", "query-size", format!("IGMP query of {} octets", m.len()));
                }
            }
            0x12 | 0x16 | 0x17 => {
                v.class.push_str(match m[0] {
                    0x12 => "/report-v1",
                    0x16 => "/report-v2",
                    _ => "/leave",
                });
                // RFC 2236 §2.2: in reports and leave messages the max response time "is set to zero
                // by the sender"
                if m[1] != 0 {
                    out.add("reserved", "igmp", "max-resp-time-nonzero", format!("IGMP type {:#04x} carries max response time {:#04x} instead of zero", m[0], m[1]));
                }
                if m.len() != 8 {
                    out.add("length", "igmp", "message-size", format!("IGMPv1/v2 message type {:#04x} of {} octets (must be 8)", m[0], m.len()));
                }
            }
            0x22 => {
                v.class.push_str("/report-v3");
                let n = be16(m, 6);
                let mut o = 8;
                let mut cnt = 0;
                while o + 8 <= m.len() && cnt < n {
                    let aux = m[o + 1] as usize * 4;
                    let ns = be16(m, o + 2) * 4;
                    o += 8 + ns + aux;
                    cnt += 1;
                }
                if cnt != n || o != m.len() {
                    out.add("length", "igmp", "v3-record-count", format!("IGMPv3 report announces {} records, {} fit, they end at {} of {}", n, cnt, o, m.len()));
                }
            }
            t => {
                v.class.push_str(&format!("/type-{:02x}", t));
                out.add("protocol", "igmp", "unknown-type", format!("IGMP type {:#04x}", t));
            }
        }
    }

    /// returns true when the message is a DHCP client message (unspecified source allowed)
    #[allow(clippy::too_many_arguments)]
    fn udp(&mut self, src: &Addr, dst: &Addr, u: &[u8], ctx: &Ctx, out: &mut Out, v: &mut Verdict, cksum_elided: bool) -> bool {
        let is6 = matches!(src, Addr::V6(_));
        v.class.push_str("/udp");
        if u.len() < 8 {
            out.add("length", "udp", "shorter-than-header", format!("UDP datagram of {} octets", u.len()));
            return false;
        }
        let l = be16(u, 4);
        if l != u.len() {
            out.add("length", "udp", "length-field-vs-ip-payload", format!("UDP length field {} but the IP payload is {} octets", l, u.len()));
            return false;
        }
        let ck = be16(u, 6);
        if ctx.ck.udp && !cksum_elided {
            if ck == 0 {
                if is6 {
                    out.add("checksum", "udp", "zero-on-ipv6", format!("UDP over IPv6 {}>{} sent with checksum 0", src, dst));
                }
            } else if !rfc1071_ok(&[&pseudo(src, dst, 17, u.len()), u]) {
                out.add("checksum", "udp", "datagram", format!("UDP checksum {:#06x} wrong for {}>{} length {}", ck, src, dst, u.len()));
            }
        }
        let (sp, dp) = (be16(u, 0), be16(u, 2));
        let body = &u[8..];
        v.udp_seen.push((src.clone(), dst.clone(), sp as u16, dp as u16, body.len()));
        let mut dhcp_client = false;
        if sp == 68 && dp == 67 && !is6 {
            dhcp_client = true;
            self.dhcp(body, out, v);
        } else if dp == 53 || dp == 5353 {
            self.dns(body, dp == 5353, out, v);
        }
        if v.shape.is_empty() {
            v.shape = format!("{}|len={}{}", v.class, len_class(body.len()), if ck == 0 { "|ck0" } else { "" });
        }
        dhcp_client
    }

    fn dhcp(&mut self, m: &[u8], out: &mut Out, v: &mut Verdict) {
        v.class.push_str("/dhcp");
        if m.len() < 240 {
            out.add("length", "dhcp", "shorter-than-bootp-header-and-cookie", format!("DHCP message of {} octets (236 fixed + 4 cookie needed)", m.len()));
            return;
        }
        if m[236..240] != [0x63, 0x82, 0x53, 0x63] {
            out.add("options", "dhcp", "magic-cookie", format!("magic cookie is {}", crate::sim::hex(&m[236..240])));
            return;
        }
        if m[2] as usize > 16 {
            out.add("length", "dhcp", "hlen", format!("hardware address length {}", m[2]));
        }
        let mut o = 240;
        let mut ended = false;
        let mut mtype = None;
        let mut codes = vec![];
        while o < m.len() {
            let c = m[o];
            if c == 0 {
                o += 1;
                continue;
            }
            if c == 255 {
                ended = true;
                o += 1;
                break;
            }
            if o + 2 > m.len() || o + 2 + m[o + 1] as usize > m.len() {
                out.add("options", "dhcp", "option-overruns-message", format!("option {} at offset {} overruns the {}-octet message", c, o, m.len()));
                return;
            }
            let l = m[o + 1] as usize;
            if c == 53 {
                if l != 1 {
                    out.add("options", "dhcp", "message-type-length", format!("message type option with length {}", l));
                } else {
                    mtype = Some(m[o + 2]);
                }
            }
            codes.push(c);
            o += 2 + l;
        }
        if !ended {
            out.add("options", "dhcp", "no-end-option", format!("option list (codes {:?}) is not terminated by END (255)", codes));
        } else if m[o..].iter().any(|&x| x != 0) {
            out.add("options", "dhcp", "nonzero-after-end", format!("octets after the END option are not pad (0): {}", crate::sim::hex(&m[o..])));
        }
        v.class.push_str(match mtype {
            Some(1) => "-discover",
            Some(3) => "-request",
            Some(4) => "-decline",
            Some(7) => "-release",
            Some(8) => "-inform",
            Some(_) => "-other",
            None => "-untyped",
        });
        v.shape = format!("{}|opts={:?}", v.class, codes);
    }

    /// DNS name at `o`; returns the offset after it
    fn dns_name(m: &[u8], mut o: usize) -> Result<usize, String> {
        let mut total = 0;
        loop {
            let Some(&l) = m.get(o) else { return Err(format!("name runs off the message at offset {}", o)) };
            match l >> 6 {
                0 => {
                    if l == 0 {
                        total += 1;
                        if total > 255 {
                            return Err(format!("name of {} octets", total));
                        }
                        return Ok(o + 1);
                    }
                    total += 1 + l as usize;
                    o += 1 + l as usize;
                    if o > m.len() {
                        return Err(format!("label of {} octets runs off the message", l));
                    }
                }
                3 => {
                    let Some(&b) = m.get(o + 1) else { return Err("compression pointer truncated".into()) };
                    let target = (((l & 0x3f) as usize) << 8) | b as usize;
                    if target >= o {
                        return Err(format!("compression pointer at {} points forward to {}", o, target));
                    }
                    return Ok(o + 2);
                }
                _ => return Err(format!("label type bits {:02b} at offset {}", l >> 6, o)),
            }
        }
    }

    fn dns(&mut self, m: &[u8], mdns: bool, out: &mut Out, v: &mut Verdict) {
        v.class.push_str(if mdns { "/mdns" } else { "/dns" });
        if m.len() < 12 {
            out.add("length", "dns", "shorter-than-header", format!("DNS message of {} octets", m.len()));
            return;
        }
        let (qd, an, ns, ar) = (be16(m, 4), be16(m, 6), be16(m, 8), be16(m, 10));
        let mut o = 12;
        for i in 0..qd {
            match Self::dns_name(m, o) {
                Ok(n) => o = n,
                Err(e) => {
                    out.add("length", "dns", "sections-inconsistent-with-message-length", format!("question {} of {}: {}", i + 1, qd, e));
                    return;
                }
            }
            if o + 4 > m.len() {
                out.add("length", "dns", "sections-inconsistent-with-message-length", format!("QDCOUNT {} but question {} has no type/class inside the {}-octet message", qd, i + 1, m.len()));
                return;
            }
            o += 4;
        }
        for i in 0..an + ns + ar {
            match Self::dns_name(m, o) {
                Ok(n) => o = n,
                Err(e) => {
                    out.add("length", "dns", "sections-inconsistent-with-message-length", format!("record {}: {}", i + 1, e));
                    return;
                }
            }
            if o + 10 > m.len() || o + 10 + be16(m, o + 8) > m.len() {
                out.add("length", "dns", "sections-inconsistent-with-message-length", format!("AN/NS/AR counts {}/{}/{} but record {} does not fit into the {}-octet message", an, ns, ar, i + 1, m.len()));
                return;
            }
            o += 10 + be16(m, o + 8);
        }
        if o != m.len() {
            out.add("length", "dns", "sections-inconsistent-with-message-length", format!("sections end at offset {} but the message has {} octets", o, m.len()));
        }
        // RFC 1035 §4.1.1: Z "must be zero in all queries and responses"; opcodes 3 and 6..15 are
        // unassigned; RCODE is "set as part of responses"
        if m[3] & 0x40 != 0 {
            out.add("reserved", "dns", "z-bit-set", format!("flags word {:02x}{:02x}: reserved Z bit set", m[2], m[3]));
        }
        let opcode = (m[2] >> 3) & 0xf;
        if !matches!(opcode, 0 | 1 | 2 | 4 | 5) {
            out.add("protocol", "dns", "unassigned-opcode", format!("flags word {:02x}{:02x}: opcode {}", m[2], m[3], opcode));
        }
        if m[2] & 0x80 == 0 && m[3] & 0x0f != 0 {
            out.add("reserved", "dns", "rcode-in-query", format!("flags word {:02x}{:02x}: query with response code {}", m[2], m[3], m[3] & 0xf));
        }
        if m[2] & 0x80 == 0 {
            v.class.push_str("-query");
            if qd == 0 {
                out.add("length", "dns", "query-without-question", "DNS query with QDCOUNT 0");
            }
        } else {
            v.class.push_str("-response");
        }
        v.shape = format!("{}|qd={}|len={}", v.class, qd, len_class(m.len()));
    }

    fn tcp(&mut self, src: &Addr, dst: &Addr, t: &[u8], ctx: &Ctx, out: &mut Out, v: &mut Verdict) {
        v.class.push_str("/tcp");
        if t.len() < 20 {
            out.add("length", "tcp", "shorter-than-header", format!("TCP segment of {} octets", t.len()));
            return;
        }
        let hl = ((t[12] >> 4) as usize) * 4;
        if hl < 20 || hl > t.len() {
            out.add("length", "tcp", "data-offset", format!("data offset {} octets in a segment of {} octets", hl, t.len()));
            return;
        }
        if t[12] & 0x0f != 0 {
            out.add("reserved", "tcp", "reserved-bits", format!("reserved header bits are {:#x}", t[12] & 0x0f));
        }
        if ctx.ck.tcp && !rfc1071_ok(&[&pseudo(src, dst, 6, t.len()), t]) {
            out.add("checksum", "tcp", "segment", format!("TCP checksum wrong for {}>{} segment of {} octets", src, dst, t.len()));
        }
        let flags = t[13];
        let mut fl = String::new();
        for (b, n) in [(2u8, "S"), (1, "F"), (4, "R"), (8, "P"), (16, "."), (32, "U")] {
            if flags & b != 0 {
                fl.push_str(n);
            }
        }
        // option list: every option inside the header, list ends at EOL or exactly at the header
        // end, everything after EOL is zero padding
        let mut kinds = vec![];
        let mut o = 20;
        while o < hl {
            match t[o] {
                0 => {
                    kinds.push(0u8);
                    if t[o..hl].iter().any(|&x| x != 0) {
                        out.add("options", "tcp", "padding-after-eol-nonzero", format!("octets after End-of-Option-List are {}", crate::sim::hex(&t[o..hl])));
                    }
                    break;
                }
                1 => {
                    kinds.push(1);
                    o += 1;
                }
                k => {
                    if o + 2 > hl {
                        out.add("options", "tcp", "option-truncated", format!("option kind {} at header offset {} has no length octet inside the {}-octet header", k, o, hl));
                        break;
                    }
                    let l = t[o + 1] as usize;
                    if l < 2 || o + l > hl {
                        out.add("options", "tcp", "option-overruns-header", format!("option kind {} length {} at header offset {} does not fit the {}-octet header", k, l, o, hl));
                        break;
                    }
                    let want = match k {
                        2 => Some(4),
                        3 => Some(3),
                        4 => Some(2),
                        8 => Some(10),
                        _ => None,
                    };
                    if let Some(w) = want {
                        if l != w {
                            out.add("options", "tcp", "option-length", format!("option kind {} with length {} (defined length {})", k, l, w));
                        }
                    }
                    if k == 5 && (l < 10 || (l - 2) % 8 != 0) {
                        out.add("options", "tcp", "option-length", format!("SACK option with length {}", l));
                    }
                    kinds.push(k);
                    o += l;
                }
            }
        }
        v.class.push_str(&format!("[{}]", fl));
        v.shape = format!("{}|opts={:?}|len={}", v.class, kinds, len_class(t.len() - hl));
    }

    // ------------------------------------------------------------------------------ ICMPv6

    fn ndisc_options(medium: Medium, o: &[u8], what: &str, out: &mut Out) -> Vec<u8> {
        let mut types = vec![];
        let mut i = 0;
        while i < o.len() {
            if i + 2 > o.len() {
                out.add("options", "ndisc", "option-truncated", format!("{}: {} octet(s) left after the last option", what, o.len() - i));
                break;
            }
            let (ty, l8) = (o[i], o[i + 1] as usize);
            if l8 == 0 {
                out.add("options", "ndisc", "option-length-zero", format!("{}: option type {} with length 0", what, ty));
                break;
            }
            if i + l8 * 8 > o.len() {
                out.add("options", "ndisc", "option-overruns-message", format!("{}: option type {} of {} octets at offset {} overruns the {} octets of options", what, ty, l8 * 8, i, o.len()));
                break;
            }
            let body = &o[i + 2..i + l8 * 8];
            match ty {
                1 | 2 => {
                    // link-layer address option (RFC 4861 §4.6.1, RFC 4944 §8): Ethernet: 6 octets,
                    // length 1; 802.15.4: EUI-64 in length 2 with 6 octets of zero padding, or a short
                    // address in length 1 with 4 octets of zero padding
                    match medium {
                        Medium::Ethernet => {
                            if l8 != 1 {
                                out.add("options", "ndisc", "lladdr-option-length", format!("{}: link-layer address option of {} octets on Ethernet", what, l8 * 8));
                            }
                        }
                        Medium::Ieee802154 => {
                            let pad: &[u8] = match l8 {
                                2 => &body[8..],
                                1 => &body[2..],
                                _ => {
                                    out.add("options", "ndisc", "lladdr-option-length", format!("{}: link-layer address option of {} octets on IEEE 802.15.4", what, l8 * 8));
                                    &[]
                                }
                            };
                            if pad.iter().any(|&x| x != 0) {
                                out.add("reserved", "ndisc", "lladdr-option-padding-nonzero", format!("{}: padding of the link-layer address option is {} instead of zero", what, crate::sim::hex(pad)));
                            }
                        }
                        Medium::Ip => {}
                    }
                }
                3 => {
                    if l8 != 4 {
                        out.add("options", "ndisc", "prefix-option-length", format!("{}: prefix information option of {} octets", what, l8 * 8));
                    }
                }
                5 => {
                    if l8 != 1 {
                        out.add("options", "ndisc", "mtu-option-length", format!("{}: MTU option of {} octets", what, l8 * 8));
                    } else if body[..2] != [0, 0] {
                        out.add("reserved", "ndisc", "mtu-option-reserved-nonzero", format!("{}: reserved octets of the MTU option are {}", what, crate::sim::hex(&body[..2])));
                    }
                }
                _ => {}
            }
            types.push(ty);
            i += l8 * 8;
        }
        types
    }

    /// returns true when the unspecified source address is legitimate for this message
    fn icmpv6(&mut self, src: &Addr, dst: &Addr, m: &[u8], ctx: &Ctx, out: &mut Out, v: &mut Verdict) -> bool {
        v.class.push_str("/icmpv6");
        if m.len() < 4 {
            out.add("length", "icmpv6", "shorter-than-header", format!("ICMPv6 message of {} octets", m.len()));
            return false;
        }
        if ctx.ck.icmpv6 && !rfc1071_ok(&[&pseudo(src, dst, 58, m.len()), m]) {
            out.add("checksum", "icmpv6", "message", format!("ICMPv6 checksum wrong for {}>{} type {} ({} octets)", src, dst, m[0], m.len()));
        }
        let ty = m[0];
        let need = |n: usize, out: &mut Out| -> bool {
            if m.len() < n {
                out.add("length", "icmpv6", "shorter-than-type-minimum", format!("ICMPv6 type {} needs at least {} octets, message has {}", ty, n, m.len()));
                false
            } else {
                true
            }
        };
        let mut unspec_ok = false;
        let mut extra = String::new();
        match ty {
            1 | 2 | 3 | 4 => {
                v.class.push_str(&format!("/error-{}.{}", ty, m[1]));
                if need(8, out) && (ty == 1 || ty == 3) && m[4..8].iter().any(|&x| x != 0) {
                    out.add("reserved", "icmpv6", "unused-field-nonzero", format!("ICMPv6 type {}: unused header octets are {} instead of zero", ty, crate::sim::hex(&m[4..8])));
                }
                // the invoking packet that follows is a truncated copy: not inspected
            }
            128 | 129 => {
                v.class.push_str(if ty == 128 { "/echo-request" } else { "/echo-reply" });
                need(8, out);
            }
            133 => {
                v.class.push_str("/rs");
                // RFC 4861 §4.1: source is an own address or the unspecified address
                unspec_ok = true;
                if need(8, out) {
                    if m[4..8].iter().any(|&x| x != 0) {
                        out.add("reserved", "ndisc", "rs-reserved-nonzero", format!("reserved field of the router solicitation is {}", crate::sim::hex(&m[4..8])));
                    }
                    extra = format!("|opts={:?}", Self::ndisc_options(ctx.medium, &m[8..], "router solicitation", out));
                }
            }
            134 => {
                v.class.push_str("/ra");
                if need(16, out) {
                    extra = format!("|opts={:?}", Self::ndisc_options(ctx.medium, &m[16..], "router advertisement", out));
                }
            }
            135 => {
                v.class.push_str("/ns");
                // duplicate address detection probes are sent from the unspecified address
                unspec_ok = true;
                if need(24, out) {
                    if m[4..8].iter().any(|&x| x != 0) {
                        out.add("reserved", "ndisc", "ns-reserved-nonzero", format!("reserved field of the neighbor solicitation is {}", crate::sim::hex(&m[4..8])));
                    }
                    extra = format!("|opts={:?}", Self::ndisc_options(ctx.medium, &m[24..], "neighbor solicitation", out));
                }
            }
            136 => {
                v.class.push_str("/na");
                if need(24, out) {
                    if m[4] & 0x1f != 0 || m[5..8].iter().any(|&x| x != 0) {
                        out.add("reserved", "ndisc", "na-reserved-nonzero", format!("reserved bits of the neighbor advertisement flags word are {}", crate::sim::hex(&m[4..8])));
                    }
                    extra = format!("|flags={:02x}|opts={:?}", m[4], Self::ndisc_options(ctx.medium, &m[24..], "neighbor advertisement", out));
                }
            }
            137 => {
                v.class.push_str("/redirect");
                if need(40, out) {
                    extra = format!("|opts={:?}", Self::ndisc_options(ctx.medium, &m[40..], "redirect", out));
                }
            }
            130 => {
                v.class.push_str("/mld-query");
                if need(24, out) && m.len() != 24 && m.len() < 28 {
                    out.add("length", "mld", "query-size", format!("MLD query of {} octets", m.len()));
                }
            }
            131 | 132 => {
                v.class.push_str(if ty == 131 { "/mldv1-report" } else { "/mldv1-done" });
                unspec_ok = true;
                if m.len() != 24 {
                    out.add("length", "mld", "v1-message-size", format!("MLDv1 message of {} octets (must be 24)", m.len()));
                }
            }
            143 => {
                v.class.push_str("/mldv2-report");
                // RFC 3810 §5.2.13: from a link-local address, or :: if none is available yet
                unspec_ok = true;
                if need(8, out) {
                    if m[4..6] != [0, 0] {
                        out.add("reserved", "mld", "report-reserved-nonzero", format!("reserved field of the MLDv2 report is {}", crate::sim::hex(&m[4..6])));
                    }
                    let n = be16(m, 6);
                    let mut o = 8;
                    let mut cnt = 0;
                    while cnt < n && o + 20 <= m.len() {
                        let aux = m[o + 1] as usize * 4;
                        let ns = be16(m, o + 2) * 16;
                        if o + 20 + ns + aux > m.len() {
                            break;
                        }
                        o += 20 + ns + aux;
                        cnt += 1;
                    }
                    if cnt != n || o != m.len() {
                        out.add("length", "mld", "record-count-vs-length", format!("MLDv2 report announces {} records; {} complete records end at offset {} of {}", n, cnt, o, m.len()));
                    }
                    extra = format!("|records={}", n);
                }
            }
            t => v.class.push_str(&format!("/type-{}", t)),
        }
        v.shape = format!("{}|len={}{}", v.class, len_class(m.len()), extra);
        unspec_ok
    }

    // ------------------------------------------------------------------------------ 802.15.4 / 6LoWPAN

    fn ieee802154(&mut self, f: &[u8], ctx: &Ctx, out: &mut Out, v: &mut Verdict) {
        v.class = "154".into();
        if f.len() < 3 {
            out.add("length", "ieee802154", "shorter-than-header", format!("802.15.4 frame of {} octets", f.len()));
            return;
        }
        let fcf = u16::from_le_bytes([f[0], f[1]]);
        let ftype = fcf & 7;
        if ftype != 1 {
            out.add("protocol", "ieee802154", "frame-type", format!("802.15.4 frame type {} (the interface only originates data frames)", ftype));
            return;
        }
        if fcf & (1 << 3) != 0 {
            v.undecodable = Some("802.15.4 security enabled".into());
            return;
        }
        // frame control bits 7..9 are reserved in IEEE 802.15.4-2003/2006 (frame version 0 / 1)
        if (fcf >> 12) & 3 < 2 && fcf & 0x0380 != 0 {
            out.add("reserved", "ieee802154", "frame-control-reserved-bits", format!("frame control {:#06x}: reserved bits 7..9 set in a version {} frame", fcf, (fcf >> 12) & 3));
        }
        let comp = fcf & (1 << 6) != 0;
        let dam = (fcf >> 10) & 3;
        let sam = (fcf >> 14) & 3;
        if dam == 1 || sam == 1 {
            out.add("length", "ieee802154", "reserved-addressing-mode", format!("addressing modes dst={} src={}", dam, sam));
            return;
        }
        let alen = |m: u16| match m {
            2 => 2usize,
            3 => 8,
            _ => 0,
        };
        let mut o = 3;
        let mut need = 0;
        if dam != 0 {
            need += 2 + alen(dam);
        }
        if sam != 0 {
            need += alen(sam) + if comp && dam != 0 { 0 } else { 2 };
        }
        if o + need > f.len() {
            out.add("length", "ieee802154", "addressing-fields-truncated", format!("addressing fields need {} octets, frame has {}", 3 + need, f.len()));
            return;
        }
        let mut take = |n: usize| -> Vec<u8> {
            let mut x = f[o..o + n].to_vec();
            o += n;
            x.reverse();
            x
        };
        let mut ll_dst = vec![];
        if dam != 0 {
            take(2);
            ll_dst = take(alen(dam));
        }
        let mut ll_src = vec![];
        if sam != 0 {
            if !(comp && dam != 0) {
                take(2);
            }
            ll_src = take(alen(sam));
        }
        let p = &f[o..];
        let Some(&d) = p.first() else {
            out.add("length", "6lowpan", "no-payload", "802.15.4 data frame without payload");
            return;
        };
        let mut llkey = ll_src.clone();
        llkey.extend_from_slice(&ll_dst);
        if d >> 3 == 0b11000 {
            // FRAG1: datagram_size(11) datagram_tag(16), then the compressed datagram
            v.class.push_str("/frag1");
            if p.len() < 4 {
                out.add("length", "6lowpan", "frag1-truncated", "FRAG1 header truncated");
                return;
            }
            let size = be16(p, 0) & 0x7ff;
            let tag = be16(p, 2) as u16;
            let k = (llkey, tag);
            if self.lpasm.remove(&k).is_some() {
                self.abandoned += 1;
            }
            let mut dst_seen = None;
            let dec = Self::decompress(&p[4..], &ll_src, &ll_dst, Some(size), &mut dst_seen);
            if let Some(d) = dst_seen {
                Self::link_vs_ip_destination(&ll_dst, &d, out);
            }
            match dec {
                Err(Undec::Unsupported(e)) => v.undecodable = Some(e),
                Err(Undec::Malformed(cause, e)) => out.add("length", "6lowpan", cause, e),
                Err(Undec::Protocol(cause, e)) => out.add("protocol", "6lowpan", cause, e),
                Ok(d) => {
                    let src = v6(&d.packet[8..24]);
                    Self::source_basic(ctx, "ipv6", &src, &format!("6LoWPAN FRAG1 {}>{}", src, v6(&d.packet[24..40])), out);
                    let n = d.packet.len();
                    v.hop = Some(d.packet[7]);
                    v.shape = format!("{}|iphc={:02x}{:02x}|nhc={}|len={}", v.class, p[4], p.get(5).copied().unwrap_or(0), d.nhc, len_class(n));
                    if n > size {
                        out.add("fragment", "6lowpan", "frag1-exceeds-datagram-size", format!("FRAG1 expands to {} octets but datagram_size is {}", n, size));
                        return;
                    }
                    if n < size && n % 8 != 0 {
                        out.add("fragment", "6lowpan", "first-fragment-not-multiple-of-8", format!("FRAG1 carries {} uncompressed octets of a {}-octet datagram (must be a multiple of 8)", n, size));
                    }
                    let a = LpAsm { size, have: vec![(0, n)], data: d.packet, udp_cksum_elided: d.udp_cksum_elided };
                    self.lpasm.insert(k.clone(), a);
                    self.lp_complete(&k, ctx, out, v);
                }
            }
            return;
        }
        if d >> 3 == 0b11100 {
            v.class.push_str("/fragn");
            if p.len() < 5 {
                out.add("length", "6lowpan", "fragn-truncated", "FRAGN header truncated");
                return;
            }
            let size = be16(p, 0) & 0x7ff;
            let tag = be16(p, 2) as u16;
            let off = p[4] as usize * 8;
            let data = &p[5..];
            v.shape = format!("{}|len={}", v.class, len_class(data.len()));
            let k = (llkey, tag);
            if data.is_empty() {
                out.add("fragment", "6lowpan", "empty-fragment", format!("FRAGN tag {:#06x} offset {} without data", tag, off));
            }
            let Some(a) = self.lpasm.get_mut(&k) else {
                // FRAGN without a FRAG1 seen by this monitor (e.g. the harness started observing
                // in the middle of a train): only the self-contained checks apply
                if off + data.len() > size {
                    out.add("fragment", "6lowpan", "fragment-beyond-datagram-size", format!("FRAGN offset {} + {} octets exceeds datagram_size {}", off, data.len(), size));
                }
                v.undecodable = Some("FRAGN without FRAG1".into());
                return;
            };
            if size != a.size {
                out.add("fragment", "6lowpan", "datagram-size-differs", format!("FRAGN of tag {:#06x} says datagram_size {} but FRAG1 said {}", tag, size, a.size));
                return;
            }
            if off + data.len() > a.size {
                out.add("fragment", "6lowpan", "fragment-beyond-datagram-size", format!("FRAGN offset {} + {} octets exceeds datagram_size {}", off, data.len(), a.size));
                return;
            }
            if off + data.len() < a.size && data.len() % 8 != 0 {
                out.add("fragment", "6lowpan", "non-last-fragment-not-multiple-of-8", format!("FRAGN at offset {} carries {} octets and is not the last fragment of the {}-octet datagram", off, data.len(), a.size));
            }
            if overlaps(&a.have, off, off + data.len()) {
                out.add("fragment", "6lowpan", "overlapping-fragments", format!("FRAGN [{}..{}) overlaps octets already sent for tag {:#06x} (sent so far: {:?})", off, off + data.len(), tag, a.have));
            }
            if a.data.len() < off + data.len() {
                a.data.resize(off + data.len(), 0);
            }
            a.data[off..off + data.len()].copy_from_slice(data);
            a.have.push((off, off + data.len()));
            self.lp_complete(&k, ctx, out, v);
            return;
        }
        if d >> 5 == 0b011 {
            v.class.push_str("/iphc");
            let mut dst_seen = None;
            let dec = Self::decompress(p, &ll_src, &ll_dst, None, &mut dst_seen);
            if let Some(d) = dst_seen {
                Self::link_vs_ip_destination(&ll_dst, &d, out);
            }
            match dec {
                Err(Undec::Unsupported(e)) => v.undecodable = Some(e),
                Err(Undec::Malformed(cause, e)) => out.add("length", "6lowpan", cause, e),
                Err(Undec::Protocol(cause, e)) => out.add("protocol", "6lowpan", cause, e),
                Ok(d) => {
                    let mut v2 = Verdict { class: v.class.clone(), ..Default::default() };
                    self.ipv6(&d.packet, ctx, out, &mut v2, true, d.udp_cksum_elided, false);
                    v.udp_seen.append(&mut v2.udp_seen);
                    v.hop = v2.hop;
                    v.class = v2.class;
                    v.shape = format!("{}|iphc={:02x}{:02x}|nhc={}", if v2.shape.is_empty() { v.class.clone() } else { v2.shape }, p[0], p[1], d.nhc);
                }
            }
            return;
        }
        v.class.push_str("/dispatch?");
        out.add("protocol", "6lowpan", "unknown-dispatch", format!("6LoWPAN dispatch octet {:#04x}", d));
    }

    /// The IPv6 destination an IPHC header decompresses to must agree with the 802.15.4
    /// destination of the frame that carries it: the interface maps every multicast IPv6
    /// destination to the link broadcast address 0xffff and every unicast one to the neighbor's
    /// unicast link address (there is no other mapping in smoltcp, and RFC 4944 §9 knows none
    /// that sends a multicast datagram to an EUI-64). A disagreement means the compressed header
    /// does not say what the packet is: the IPHC setters are read-modify-write and a stale M /
    /// DAC / DAM bit makes a receiver decode another destination and parse what follows it at
    /// the wrong offset.
    fn link_vs_ip_destination(ll_dst: &[u8], ip_dst: &[u8], out: &mut Out) {
        if ll_dst.is_empty() {
            return;
        }
        let ll_broadcast = ll_dst == [0xff, 0xff];
        let ip_multicast = ip_dst[0] == 0xff;
        if !ll_broadcast && ip_multicast {
            out.add(
                "addressing",
                "6lowpan",
                "multicast-ipv6-destination-in-a-frame-to-a-unicast-link-address",
                format!("the frame is addressed to the unicast 802.15.4 address {} but its IPHC header decompresses to the multicast destination {}", crate::sim::hex(ll_dst), v6(ip_dst)),
            );
        } else if ll_broadcast && !ip_multicast {
            out.add(
                "addressing",
                "6lowpan",
                "unicast-ipv6-destination-in-a-link-broadcast-frame",
                format!("the frame is addressed to the 802.15.4 broadcast address but its IPHC header decompresses to the unicast destination {}", v6(ip_dst)),
            );
        }
    }

    fn lp_complete(&mut self, k: &(Vec<u8>, u16), ctx: &Ctx, out: &mut Out, v: &mut Verdict) {
        let done = self.lpasm.get(k).map(|a| covered(&a.have, a.size)).unwrap_or(false);
        if !done {
            return;
        }
        let a = self.lpasm.remove(k).unwrap();
        let mut v2 = Verdict { class: "154/reassembled".into(), ..Default::default() };
        // source rule already applied on the FRAG1 header
        self.ipv6(&a.data[..a.size], ctx, out, &mut v2, true, a.udp_cksum_elided, true);
        v.udp_seen.append(&mut v2.udp_seen);
        v.completed.push(if v2.shape.is_empty() { v2.class } else { v2.shape });
    }

    /// LOWPAN_IPHC (+ LOWPAN_NHC) decompression, RFC 6282. Returns the uncompressed packet as
    /// far as this frame carries it. `total`: datagram_size when inside FRAG1 (lengths are then
    /// derived from it), otherwise lengths are derived from the frame.
    fn decompress(p: &[u8], ll_src: &[u8], ll_dst: &[u8], total: Option<usize>, dst_seen: &mut Option<[u8; 16]>) -> Result<Decomp, Undec> {
        let mal = |c: &'static str, e: String| Undec::Malformed(c, e);
        if p.len() < 2 || p[0] >> 5 != 0b011 {
            return Err(Undec::Unsupported(format!("first fragment does not start with IPHC (dispatch {:#04x})", p.first().copied().unwrap_or(0))));
        }
        let tf = (p[0] >> 3) & 3;
        let nhc = (p[0] >> 2) & 1;
        let hlim = p[0] & 3;
        let cid = p[1] >> 7;
        let sac = (p[1] >> 6) & 1;
        let sam = (p[1] >> 4) & 3;
        let m = (p[1] >> 3) & 1;
        let dac = (p[1] >> 2) & 1;
        let dam = p[1] & 3;
        if cid == 1 {
            return Err(Undec::Unsupported("IPHC with context identifier extension".into()));
        }
        let mut o = 2usize;
        let mut get = |n: usize| -> Result<&[u8], Undec> {
            let s = p.get(o..o + n).ok_or_else(|| Undec::Malformed("iphc-truncated", format!("IPHC header needs {} more octet(s) at offset {} of {}", n, o, p.len())))?;
            o += n;
            Ok(s)
        };
        let mut tc_fl = [0u8; 4]; // version/tc/flow word
        tc_fl[0] = 0x60;
        match tf {
            0 => {
                let b = get(4)?;
                // ECN(2) DSCP(6) rsv(4) FL(20)
                let tc = (b[0] << 2) | (b[0] >> 6); // IPv6 traffic class = DSCP(6) ECN(2)
                tc_fl[0] |= tc >> 4;
                tc_fl[1] = (tc << 4) | (b[1] & 0x0f);
                tc_fl[2] = b[2];
                tc_fl[3] = b[3];
            }
            1 => {
                let b = get(3)?;
                let tc = b[0] >> 6; // ECN only
                tc_fl[1] = (tc << 4) | (b[0] & 0x0f);
                tc_fl[2] = b[1];
                tc_fl[3] = b[2];
            }
            2 => {
                let b = get(1)?;
                let tc = (b[0] << 2) | (b[0] >> 6);
                tc_fl[0] |= tc >> 4;
                tc_fl[1] = tc << 4;
            }
            _ => {}
        }
        let mut next = None;
        if nhc == 0 {
            next = Some(get(1)?[0]);
        }
        let hop = match hlim {
            0 => get(1)?[0],
            1 => 1,
            2 => 64,
            _ => 255,
        };
        let iid_from_ll = |ll: &[u8]| -> Option<[u8; 8]> {
            match ll.len() {
                8 => {
                    let mut i = [0u8; 8];
                    i.copy_from_slice(ll);
                    i[0] ^= 0x02;
                    Some(i)
                }
                2 => Some([0, 0, 0, 0xff, 0xfe, 0, ll[0], ll[1]]),
                _ => None,
            }
        };
        let ll_prefix = |iid: &[u8]| -> [u8; 16] {
            let mut a = [0u8; 16];
            a[0] = 0xfe;
            a[1] = 0x80;
            a[8..].copy_from_slice(iid);
            a
        };
        let mut src = [0u8; 16];
        if sac == 1 {
            if sam != 0 {
                return Err(Undec::Unsupported("IPHC context-based source address".into()));
            }
            // the unspecified address
        } else {
            match sam {
                0 => src.copy_from_slice(get(16)?),
                1 => src = ll_prefix(get(8)?),
                2 => {
                    let s = get(2)?;
                    src = ll_prefix(&[0, 0, 0, 0xff, 0xfe, 0, s[0], s[1]]);
                }
                _ => src = ll_prefix(&iid_from_ll(ll_src).ok_or_else(|| mal("iphc-elided-source-without-link-address", "source address elided but the MAC header has no source address".into()))?),
            }
        }
        let mut dst = [0u8; 16];
        if m == 0 {
            if dac == 1 {
                return Err(Undec::Unsupported("IPHC context-based destination address".into()));
            }
            match dam {
                0 => dst.copy_from_slice(get(16)?),
                1 => dst = ll_prefix(get(8)?),
                2 => {
                    let s = get(2)?;
                    dst = ll_prefix(&[0, 0, 0, 0xff, 0xfe, 0, s[0], s[1]]);
                }
                _ => dst = ll_prefix(&iid_from_ll(ll_dst).ok_or_else(|| mal("iphc-elided-destination-without-link-address", "destination address elided but the MAC header has no usable destination address".into()))?),
            }
        } else {
            if dac == 1 {
                return Err(Undec::Unsupported("IPHC context-based multicast destination".into()));
            }
            dst[0] = 0xff;
            match dam {
                0 => dst.copy_from_slice(get(16)?),
                1 => {
                    let s = get(6)?;
                    dst[1] = s[0];
                    dst[11..16].copy_from_slice(&s[1..6]);
                }
                2 => {
                    let s = get(4)?;
                    dst[1] = s[0];
                    dst[13..16].copy_from_slice(&s[1..4]);
                }
                _ => {
                    dst[1] = 0x02;
                    dst[15] = get(1)?[0];
                }
            }
        }
        let _ = get;
        // the addresses are known from here on, whatever becomes of the next-header part
        *dst_seen = Some(dst);
        // ---- next headers
        let mut pkt = vec![0u8; 40];
        pkt[..4].copy_from_slice(&tc_fl);
        pkt[7] = hop;
        pkt[8..24].copy_from_slice(&src);
        pkt[24..40].copy_from_slice(&dst);
        let mut nhc_desc = String::from("-");
        let mut udp_cksum_elided = false;
        let mut rest = &p[o..];
        // where the "next header" value of the previous header has to be written
        let mut nh_slot = 6usize;
        let mut compressed = next.is_none();
        if let Some(n) = next {
            pkt[6] = n;
        }
        while compressed {
            let Some(&b) = rest.first() else { return Err(mal("nhc-truncated", "LOWPAN_NHC octet missing".into())) };
            if b >> 3 == 0b11110 {
                // UDP
                let c = (b >> 2) & 1;
                let pp = b & 3;
                let need = 1 + match pp {
                    0 => 4,
                    1 | 2 => 3,
                    _ => 1,
                } + if c == 0 { 2 } else { 0 };
                if rest.len() < need {
                    return Err(mal("nhc-udp-truncated", format!("UDP NHC header needs {} octets, {} left", need, rest.len())));
                }
                let (sp, dp, n) = match pp {
                    0 => (be16(rest, 1), be16(rest, 3), 5),
                    1 => (be16(rest, 1), 0xf000 | rest[3] as usize, 4),
                    2 => (0xf000 | rest[1] as usize, be16(rest, 2), 4),
                    _ => (0xf0b0 | (rest[1] >> 4) as usize, 0xf0b0 | (rest[1] & 0xf) as usize, 2),
                };
                let ck = if c == 0 { be16(rest, n) } else { 0 };
                udp_cksum_elided = c == 1;
                let body = &rest[need..];
                pkt[nh_slot] = 17;
                let hdr_at = pkt.len();
                let udp_len = match total {
                    Some(t) => t.saturating_sub(hdr_at),
                    None => 8 + body.len(),
                };
                pkt.extend_from_slice(&(sp as u16).to_be_bytes());
                pkt.extend_from_slice(&(dp as u16).to_be_bytes());
                pkt.extend_from_slice(&(udp_len as u16).to_be_bytes());
                pkt.extend_from_slice(&(ck as u16).to_be_bytes());
                pkt.extend_from_slice(body);
                nhc_desc = format!("udp.p{}c{}", pp, c);
                rest = &[];
                compressed = false;
                let _ = compressed;
                break;
            } else if b >> 4 == 0b1110 {
                // extension header: EID (3 bits), NH bit
                let eid = (b >> 1) & 7;
                let nhbit = b & 1;
                let proto = match eid {
                    0 => 0u8,
                    1 => 43,
                    2 => 44,
                    3 => 60,
                    _ => return Err(Undec::Unsupported(format!("LOWPAN_NHC extension header id {}", eid))),
                };
                let mut i = 1;
                let mut inner_next = None;
                if nhbit == 0 {
                    inner_next = Some(*rest.get(i).ok_or_else(|| mal("nhc-ext-truncated", "extension header NHC truncated".into()))?);
                    i += 1;
                }
                let l = *rest.get(i).ok_or_else(|| mal("nhc-ext-truncated", "extension header NHC truncated".into()))? as usize;
                i += 1;
                if rest.len() < i + l {
                    return Err(mal("nhc-ext-length-exceeds-frame", format!("extension header NHC length {} but only {} octets left", l, rest.len() - i)));
                }
                pkt[nh_slot] = proto;
                let at = pkt.len();
                // uncompressed: next header, hdr ext len, data, padded with Pad1/PadN to 8n (RFC 6282 §4.2)
                let mut h = vec![inner_next.unwrap_or(0), 0];
                h.extend_from_slice(&rest[i..i + l]);
                let pad = (8 - h.len() % 8) % 8;
                match pad {
                    0 => {}
                    1 => h.push(0),
                    n => {
                        h.push(1);
                        h.push((n - 2) as u8);
                        h.resize(h.len() + n - 2, 0);
                    }
                }
                h[1] = (h.len() / 8 - 1) as u8;
                pkt.extend_from_slice(&h);
                nh_slot = at;
                rest = &rest[i + l..];
                nhc_desc = format!("ext{}", eid);
                compressed = nhbit == 1;
            } else if b < 0x80 {
                // every assigned LOWPAN_NHC id (RFC 6282 extension header / UDP, RFC 7400 GHC) has
                // the top bit set: this octet cannot be a next-header compression id at all, the
                // IPHC header that announced one does not fit what follows it
                return Err(Undec::Protocol("unassigned-nhc-id", format!("IPHC announces a compressed next header but the octet that follows ({:#04x}) is not an assigned LOWPAN_NHC id", b)));
            } else {
                return Err(Undec::Unsupported(format!("LOWPAN_NHC octet {:#04x}", b)));
            }
        }
        pkt.extend_from_slice(rest);
        let plen = match total {
            Some(t) => t.saturating_sub(40),
            None => pkt.len() - 40,
        };
        pkt[4] = (plen >> 8) as u8;
        pkt[5] = plen as u8;
        Ok(Decomp { packet: pkt, udp_cksum_elided, nhc: nhc_desc })
    }
}

struct Decomp {
    packet: Vec<u8>,
    udp_cksum_elided: bool,
    nhc: String,
}
enum Undec {
    /// a form this monitor does not decode: counted as "not decodable", never a violation
    Unsupported(String),
    /// the compressed header itself is inconsistent with the frame
    Malformed(&'static str, String),
    /// the compressed header claims an encoding that does not exist
    Protocol(&'static str, String),
}
