//! The byte-level frame builders, the many-socket worlds and the seed catalogue of the C03
//! harness (`crate::frames`) are private to that module. They are compiled a second time here,
//! from the SAME source files, so that C10 validates the replies to exactly the C03 catalogue
//! without editing (or depending on the feature of) the other module.
#![allow(dead_code, unused_imports, unused_variables)]

#[path = "../frames/pkt.rs"]
pub mod pkt;
#[path = "../frames/seeds.rs"]
pub mod seeds;
#[path = "../frames/world.rs"]
pub mod world;
