//! Part (c): replies to the C03 mutant catalogue. Every seed frame, every truncation and every
//! single-byte mutant (with and without checksum fix-up) is injected into a fresh many-socket
//! world of its medium; every frame that comes out goes through the EgressMonitor.

use super::c03::pkt;
use super::c03::seeds::{self, Seed};
use super::c03::world::{Cfg, Outcome, World};
use super::mon::*;
use super::rig::own_addrs;
use super::tcpx::Agg;
use crate::core::*;
use crate::sim::hex;
use rayon::prelude::*;
use serde_json::{json, Value};
use smoltcp::phy::Medium;
use std::collections::BTreeMap;

const BOUNDARY: [u8; 13] = [0, 1, 7, 8, 0x0f, 0x28, 0x2f, 0x3f, 0x40, 0x7f, 0x80, 0xf0, 0xff];

/// The C03 catalogue marks how much mutation a seed deserves (members of systematic seed
/// families are injected as they are). The field changed its type over time: read either.
trait MutLevel {
    fn level(&self) -> u8;
}
impl MutLevel for bool {
    fn level(&self) -> u8 {
        if *self {
            2
        } else {
            1
        }
    }
}
impl MutLevel for u8 {
    fn level(&self) -> u8 {
        *self
    }
}

#[derive(Clone, Copy)]
enum Unit {
    Base(usize),
    Byte(usize, usize),
}

#[derive(Default)]
pub struct CatOut {
    pub agg: Agg,
    pub injected: u64,
    pub replied: u64,
    pub with_fixup: u64,
    pub polls_that_panicked: u64,
    pub pending_trains: u64,
    /// signature -> (count, first detail, first replay)
    pub findings: BTreeMap<String, (u64, String, Value)>,
    /// signature -> seeds whose mutants produced it
    pub finding_seeds: BTreeMap<String, std::collections::BTreeSet<String>>,
    pub machinery: Vec<String>,
    pub seeds: u64,
    pub units: u64,
}
impl CatOut {
    fn merge(&mut self, o: CatOut) {
        self.agg.merge(&o.agg);
        self.injected += o.injected;
        self.replied += o.replied;
        self.with_fixup += o.with_fixup;
        self.polls_that_panicked += o.polls_that_panicked;
        self.pending_trains += o.pending_trains;
        for (k, (n, d, r)) in o.findings {
            let e = self.findings.entry(k).or_insert((0, d, r));
            e.0 += n;
        }
        for (k, v) in o.finding_seeds {
            self.finding_seeds.entry(k).or_default().extend(v);
        }
        self.machinery.extend(o.machinery);
        self.seeds += o.seeds;
        self.units += o.units;
    }
}

/// inject one frame into a fresh world; returns (frames emitted, verdicts), None if set-up failed
pub fn eval(cfg: Cfg, frame: &[u8], out: &mut CatOut, seed_name: &str, log: Option<&mut Vec<String>>) {
    let mut w = match World::new(cfg) {
        Ok(w) => w,
        Err(e) => {
            out.machinery.push(format!("[{}] world set-up failed: {}", cfg.name(), e));
            return;
        }
    };
    w.take_tx();
    let before = own_addrs(&w.iface);
    let o = w.inject(frame);
    out.injected += 1;
    if !matches!(o, Outcome::Ok) {
        // a panic / hang on a received frame is C03's verdict; frames emitted before it are
        // still validated below
        out.polls_that_panicked += 1;
    }
    let mut own = before;
    for a in own_addrs(&w.iface) {
        if !own.contains(&a) {
            own.push(a);
        }
    }
    let tx = w.take_tx();
    if !tx.is_empty() {
        out.replied += 1;
    }
    let mut mon = Monitor::new();
    let ctx = Ctx { medium: cfg.medium, mtu: w.dev.mtu, own, ck: TxCk::ALL, raw: false };
    let mut log = log;
    for f in &tx {
        let v = mon.validate(f, &ctx);
        out.agg.record(f, &v);
        if let Some(l) = log.as_deref_mut() {
            l.push(format!("TX[{}] {} {}", f.len(), v.shape, hex(f)));
            for x in &v.findings {
                l.push(format!("   !! {} :: {}", x.sig(), x.detail));
            }
        }
        for x in &v.findings {
            let e = out.findings.entry(x.sig()).or_insert_with(|| {
                (
                    0,
                    format!("reply to a mutant of C03 seed '{}' in world {}: {} | injected[{}] {} | emitted[{}] {} ({})", seed_name, cfg.name(), x.detail, frame.len(), hex(frame), f.len(), hex(f), v.shape),
                    json!({"part": "catalogue", "cfg": cfg.to_json(), "frame": hex(frame), "seed": seed_name}),
                )
            });
            e.0 += 1;
            out.finding_seeds.entry(x.sig()).or_default().insert(seed_name.to_string());
        }
    }
    out.pending_trains += mon.pending() as u64;
}

fn fix(cfg: Cfg, seed: &Seed, f: &mut [u8]) -> bool {
    match cfg.medium {
        Medium::Ieee802154 => match &seed.l4 {
            Some(i) => pkt::fixup_l4info(i, f),
            None => false,
        },
        m => pkt::fixup(m, f),
    }
}

fn positions(seed: &Seed, tier: Tier) -> Vec<usize> {
    let head = if tier == Tier::Quick { 64 } else { 96 };
    let mut p: Vec<usize> = (0..seed.frame.len().min(head)).collect();
    if tier == Tier::Thorough {
        if let Some(h) = &seed.hot {
            for i in h.clone() {
                if i >= head && i < seed.frame.len() {
                    p.push(i);
                }
            }
        }
    }
    p
}

fn run_unit(cfg: Cfg, seeds: &[Seed], tier: Tier, u: Unit) -> CatOut {
    let mut out = CatOut::default();
    out.units = 1;
    match u {
        Unit::Base(si) => {
            let s = &seeds[si];
            eval(cfg, &s.frame, &mut out, &s.name, None);
            if s.mutate.level() >= 1 {
                for len in 0..s.frame.len() {
                    eval(cfg, &s.frame[..len], &mut out, &s.name, None);
                }
            }
        }
        Unit::Byte(si, pos) => {
            let s = &seeds[si];
            let orig = s.frame[pos];
            let vals: Vec<u8> = match tier {
                Tier::Thorough => (0..=255u8).collect(),
                Tier::Quick => {
                    let mut v = BOUNDARY.to_vec();
                    v.push(orig ^ 1);
                    v.sort();
                    v.dedup();
                    v
                }
            };
            let mut m = s.frame.clone();
            for v in vals {
                if v == orig {
                    continue;
                }
                m.copy_from_slice(&s.frame);
                m[pos] = v;
                eval(cfg, &m, &mut out, &s.name, None);
                let mut f = m.clone();
                if fix(cfg, s, &mut f) && f != m && f != s.frame {
                    out.with_fixup += 1;
                    eval(cfg, &f, &mut out, &s.name, None);
                }
            }
        }
    }
    out
}

pub fn worlds() -> Vec<Cfg> {
    let mut v = vec![];
    for medium in [Medium::Ethernet, Medium::Ip, Medium::Ieee802154] {
        for variant in [0u8, 1, 2] {
            // built through the JSON form: fields the C03 harness adds later take their defaults
            let j = json!({"medium": super::rig::medium_name(medium), "variant": variant, "join_154": false});
            if let Some(c) = Cfg::from_json(&j) {
                // a variant the catalogue does not know yet simply fails to set up
                if World::new(c).is_ok() {
                    v.push(c);
                }
            }
        }
    }
    v
}

pub fn run(tier: Tier) -> BTreeMap<String, CatOut> {
    let mut res = BTreeMap::new();
    for cfg in worlds() {
        let mut total = CatOut::default();
        let scout = match World::new(cfg) {
            Ok(w) => w,
            Err(e) => {
                total.machinery.push(format!("[{}] world set-up failed: {}", cfg.name(), e));
                res.insert(cfg.name(), total);
                continue;
            }
        };
        let seeds = seeds::catalogue(cfg, &scout.learned);
        drop(scout);
        let mut units = vec![];
        for (si, s) in seeds.iter().enumerate() {
            units.push(Unit::Base(si));
            if s.mutate.level() < 2 {
                continue;
            }
            for p in positions(s, tier) {
                units.push(Unit::Byte(si, p));
            }
        }
        let outs: Vec<CatOut> = units
            .par_iter()
            .map(|&u| match std::panic::catch_unwind(std::panic::AssertUnwindSafe(|| run_unit(cfg, &seeds, tier, u))) {
                Ok(o) => o,
                Err(e) => {
                    let mut o = CatOut::default();
                    o.machinery.push(format!("HARNESS PANIC in catalogue unit: {} at {}", panic_msg(e), last_panic_loc()));
                    o
                }
            })
            .collect();
        total.seeds = seeds.len() as u64;
        // merged in unit order: deterministic
        for o in outs {
            total.merge(o);
        }
        res.insert(cfg.name(), total);
    }
    res
}

pub fn replay(art: &Value) -> i32 {
    let Some(cfg) = Cfg::from_json(&art["replay"]["cfg"]) else {
        eprintln!("bad configuration in artefact");
        return 2;
    };
    let frame = crate::sim::unhex(art["replay"]["frame"].as_str().unwrap_or(""));
    let mut out = CatOut::default();
    let mut log = vec![];
    println!("world {} <- frame[{}] {}", cfg.name(), frame.len(), hex(&frame));
    eval(cfg, &frame, &mut out, art["replay"]["seed"].as_str().unwrap_or("?"), Some(&mut log));
    for l in log {
        println!("  {}", l);
    }
    for m in &out.machinery {
        eprintln!("MACHINERY ERROR: {}", m);
    }
    if !out.machinery.is_empty() {
        return 2;
    }
    let want = art["signature"].as_str().unwrap_or("");
    if out.findings.is_empty() {
        println!("no violation on replay");
        0
    } else {
        for (s, (_, d, _)) in &out.findings {
            println!("violation: {}{} :: {}", s, if s == want { " (the recorded signature)" } else { "" }, d);
        }
        1
    }
}
