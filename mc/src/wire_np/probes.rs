//! C07 probes: one function per view type. Each does `new_checked` and, on `Ok`, calls every
//! read accessor that applies to the packet's own message type, then `Repr::parse`, then the
//! `Display` / `PrettyPrinter` output where the type has one. Every call goes through
//! `Ctx::call`, i.e. runs under `catch_unwind` and is counted.
//!
//! Applicability tables (reviewed against each module's doc comments):
//!  * `Ipv6Option::data_len/data`: documented to panic for the 1-byte Pad1 option -> skipped for Pad1.
//!  * `Ipv6RoutingHeader::home_address` only for Type2, `cmpr_i/cmpr_e/pad/addresses` only for
//!    RPL ("may panic if this header is not the ... routing type").
//!  * `Icmpv4Packet::echo_*` only for echo request/reply ("may panic if this packet is not...").
//!  * `Icmpv6Packet`: echo / mtu / pointer / NDISC / MLD getters only for their own message type,
//!    dispatched exactly like `Icmpv6Repr::parse`, `NdiscRepr::parse`, `MldRepr::parse`.
//!  * `NdiscOption`: `link_layer_addr` for SLL/TLL, `mtu` for MTU, `prefix_*`/lifetimes for
//!    Prefix Information, dispatched like `NdiscOptionRepr::parse`.
//!  * `Ieee802154Frame`: auxiliary-security-header getters only when `security_enabled()`.
//!  * `UdpPacket/TcpPacket::verify_*checksum`, `Repr::parse`: documented to panic unless both
//!    addresses are of one family -> always called with same-family pairs.
//!  * Setters, `*_mut`, `emit`, `fill_checksum`, `clear_reserved`: not read accessors, never called.

use super::catalog::{LL_EXT_A, LL_EXT_B, LL_SHORT_A, V4A, V4B, V6A, V6B};
use super::Ctx;
use smoltcp::phy::ChecksumCapabilities;
use smoltcp::wire::*;

pub type Probe = fn(&mut Ctx, &[u8]);

pub const PROBES: &[(&str, Probe)] = &[
    ("EthernetFrame", p_ethernet),
    ("ArpPacket", p_arp),
    ("Ipv4Packet", p_ipv4),
    ("Ipv6Packet", p_ipv6),
    ("Ipv6ExtHeader", p_ipv6ext),
    ("Ipv6HopByHopHeader", p_hbh),
    ("Ipv6FragmentHeader", p_ipv6frag),
    ("Ipv6RoutingHeader", p_ipv6routing),
    ("Ipv6Option", p_ipv6option),
    ("Icmpv4Packet", p_icmpv4),
    ("Icmpv6Packet", p_icmpv6),
    ("MldAddressRecord", p_mldrecord),
    ("NdiscOption", p_ndiscoption),
    ("IgmpPacket", p_igmp),
    ("UdpPacket", p_udp),
    ("TcpPacket", p_tcp),
    ("TcpOption", p_tcpoption),
    ("DhcpPacket", p_dhcp),
    ("DnsPacket", p_dns),
    ("DnsQuestion", p_dnsquestion),
    ("DnsRecord", p_dnsrecord),
    ("Ieee802154Frame", p_ieee802154),
    ("SixlowpanPacket", p_lowpan_dispatch),
    ("SixlowpanNhcPacket", p_nhc_dispatch),
    ("SixlowpanIphcPacket", p_iphc),
    ("SixlowpanExtHeaderPacket", p_nhc_ext),
    ("SixlowpanUdpNhcPacket", p_nhc_udp),
    ("SixlowpanFragPacket", p_lowpan_frag),
];

macro_rules! c {
    ($cx:ident, $b:ident, $n:literal, $e:expr) => {
        $cx.call($b, $n, || $e)
    };
}

macro_rules! checked {
    ($cx:ident, $b:ident, $t:ident) => {
        match $cx.call($b, "new_checked", || $t::new_checked($b)) {
            Some(Ok(p)) => {
                $cx.accepted();
                p
            }
            _ => return,
        }
    };
}

fn caps_default() -> ChecksumCapabilities {
    ChecksumCapabilities::default()
}
fn caps_ignored() -> ChecksumCapabilities {
    ChecksumCapabilities::ignored()
}

fn p_ethernet(cx: &mut Ctx, b: &[u8]) {
    let p = checked!(cx, b, EthernetFrame);
    c!(cx, b, "dst_addr", p.dst_addr());
    c!(cx, b, "src_addr", p.src_addr());
    c!(cx, b, "ethertype", p.ethertype());
    c!(cx, b, "payload", p.payload());
    cx.show(b, "Display", &p);
    c!(cx, b, "Repr::parse", EthernetRepr::parse(&p).is_ok());
    cx.show(b, "PrettyPrinter", &PrettyPrinter::<EthernetFrame<&[u8]>>::new("", &b));
}

fn p_arp(cx: &mut Ctx, b: &[u8]) {
    let p = checked!(cx, b, ArpPacket);
    c!(cx, b, "hardware_type", p.hardware_type());
    c!(cx, b, "protocol_type", p.protocol_type());
    c!(cx, b, "hardware_len", p.hardware_len());
    c!(cx, b, "protocol_len", p.protocol_len());
    c!(cx, b, "operation", p.operation());
    c!(cx, b, "source_hardware_addr", p.source_hardware_addr());
    c!(cx, b, "source_protocol_addr", p.source_protocol_addr());
    c!(cx, b, "target_hardware_addr", p.target_hardware_addr());
    c!(cx, b, "target_protocol_addr", p.target_protocol_addr());
    cx.show(b, "Display", &p);
    c!(cx, b, "Repr::parse", ArpRepr::parse(&p).is_ok());
    cx.show(b, "PrettyPrinter", &PrettyPrinter::<ArpPacket<&[u8]>>::new("", &b));
}

fn p_ipv4(cx: &mut Ctx, b: &[u8]) {
    let p = checked!(cx, b, Ipv4Packet);
    c!(cx, b, "version", p.version());
    c!(cx, b, "header_len", p.header_len());
    c!(cx, b, "dscp", p.dscp());
    c!(cx, b, "ecn", p.ecn());
    c!(cx, b, "total_len", p.total_len());
    c!(cx, b, "ident", p.ident());
    c!(cx, b, "dont_frag", p.dont_frag());
    c!(cx, b, "more_frags", p.more_frags());
    c!(cx, b, "frag_offset", p.frag_offset());
    c!(cx, b, "hop_limit", p.hop_limit());
    c!(cx, b, "next_header", p.next_header());
    c!(cx, b, "checksum", p.checksum());
    c!(cx, b, "src_addr", p.src_addr());
    c!(cx, b, "dst_addr", p.dst_addr());
    c!(cx, b, "verify_checksum", p.verify_checksum());
    c!(cx, b, "get_key", p.get_key());
    c!(cx, b, "payload", p.payload());
    cx.show(b, "Display", &p);
    c!(cx, b, "Repr::parse", Ipv4Repr::parse(&p, &caps_default()).is_ok());
    c!(cx, b, "Repr::parse(ignored-checksums)", Ipv4Repr::parse(&p, &caps_ignored()).is_ok());
    cx.show(b, "PrettyPrinter", &PrettyPrinter::<Ipv4Packet<&[u8]>>::new("", &b));
}

fn p_ipv6(cx: &mut Ctx, b: &[u8]) {
    let p = checked!(cx, b, Ipv6Packet);
    c!(cx, b, "header_len", p.header_len());
    c!(cx, b, "version", p.version());
    c!(cx, b, "traffic_class", p.traffic_class());
    c!(cx, b, "flow_label", p.flow_label());
    c!(cx, b, "payload_len", p.payload_len());
    c!(cx, b, "total_len", p.total_len());
    c!(cx, b, "next_header", p.next_header());
    c!(cx, b, "hop_limit", p.hop_limit());
    c!(cx, b, "src_addr", p.src_addr());
    c!(cx, b, "dst_addr", p.dst_addr());
    c!(cx, b, "payload", p.payload());
    cx.show(b, "Display", &p);
    c!(cx, b, "Repr::parse", Ipv6Repr::parse(&p).is_ok());
    cx.show(b, "PrettyPrinter", &PrettyPrinter::<Ipv6Packet<&[u8]>>::new("", &b));
}

fn p_ipv6ext(cx: &mut Ctx, b: &[u8]) {
    let p = checked!(cx, b, Ipv6ExtHeader);
    c!(cx, b, "next_header", p.next_header());
    c!(cx, b, "header_len", p.header_len());
    c!(cx, b, "payload", p.payload());
    c!(cx, b, "Repr::parse", Ipv6ExtHeaderRepr::parse(&p).is_ok());
}

fn p_hbh(cx: &mut Ctx, b: &[u8]) {
    let p = checked!(cx, b, Ipv6HopByHopHeader);
    c!(cx, b, "options", p.options());
    c!(cx, b, "Repr::parse", Ipv6HopByHopRepr::parse(&p).is_ok());
    // termination of the option iterator: every Ok item consumes >= 1 byte, so it must stop
    // within len+1 items
    let r = c!(cx, b, "Ipv6OptionsIterator", {
        let mut n = 0usize;
        let mut ok = true;
        for _item in Ipv6OptionsIterator::new(p.options()) {
            n += 1;
            if n > b.len() + 1 {
                ok = false;
                break;
            }
        }
        ok
    });
    if r == Some(false) {
        cx.looped(b, "Ipv6OptionsIterator", format!("iterator yielded more than len+1 = {} items", b.len() + 1));
    }
}

fn p_ipv6frag(cx: &mut Ctx, b: &[u8]) {
    let p = checked!(cx, b, Ipv6FragmentHeader);
    c!(cx, b, "frag_offset", p.frag_offset());
    c!(cx, b, "more_frags", p.more_frags());
    c!(cx, b, "ident", p.ident());
    cx.show(b, "Display", &p);
    c!(cx, b, "Repr::parse", Ipv6FragmentRepr::parse(&p).is_ok());
}

fn p_ipv6routing(cx: &mut Ctx, b: &[u8]) {
    let p = checked!(cx, b, Ipv6RoutingHeader);
    let ty = c!(cx, b, "routing_type", p.routing_type());
    c!(cx, b, "segments_left", p.segments_left());
    match ty {
        Some(Ipv6RoutingType::Type2) => {
            c!(cx, b, "home_address", p.home_address());
        }
        Some(Ipv6RoutingType::Rpl) => {
            c!(cx, b, "cmpr_i", p.cmpr_i());
            c!(cx, b, "cmpr_e", p.cmpr_e());
            c!(cx, b, "pad", p.pad());
            c!(cx, b, "addresses", p.addresses());
        }
        _ => {}
    }
    cx.show(b, "Display", &p);
    c!(cx, b, "Repr::parse", Ipv6RoutingRepr::parse(&p).is_ok());
}

fn p_ipv6option(cx: &mut Ctx, b: &[u8]) {
    let p = checked!(cx, b, Ipv6Option);
    let ty = c!(cx, b, "option_type", p.option_type());
    if ty != Some(Ipv6OptionType::Pad1) && ty.is_some() {
        c!(cx, b, "data_len", p.data_len());
        c!(cx, b, "data", p.data());
    }
    cx.show(b, "Display", &p);
    c!(cx, b, "Repr::parse", Ipv6OptionRepr::parse(&p).is_ok());
}

fn p_icmpv4(cx: &mut Ctx, b: &[u8]) {
    let p = checked!(cx, b, Icmpv4Packet);
    let ty = c!(cx, b, "msg_type", p.msg_type());
    c!(cx, b, "msg_code", p.msg_code());
    c!(cx, b, "checksum", p.checksum());
    if matches!(ty, Some(Icmpv4Message::EchoRequest) | Some(Icmpv4Message::EchoReply)) {
        c!(cx, b, "echo_ident", p.echo_ident());
        c!(cx, b, "echo_seq_no", p.echo_seq_no());
    }
    c!(cx, b, "header_len", p.header_len());
    c!(cx, b, "verify_checksum", p.verify_checksum());
    c!(cx, b, "data", p.data());
    cx.show(b, "Display", &p);
    c!(cx, b, "Repr::parse", Icmpv4Repr::parse(&p, &caps_default()).is_ok());
    c!(cx, b, "Repr::parse(ignored-checksums)", Icmpv4Repr::parse(&p, &caps_ignored()).is_ok());
    cx.show(b, "PrettyPrinter", &PrettyPrinter::<Icmpv4Packet<&[u8]>>::new("", &b));
}

fn p_icmpv6(cx: &mut Ctx, b: &[u8]) {
    let p = checked!(cx, b, Icmpv6Packet);
    let ty = match c!(cx, b, "msg_type", p.msg_type()) {
        Some(t) => t,
        None => return,
    };
    c!(cx, b, "msg_code", p.msg_code());
    c!(cx, b, "checksum", p.checksum());
    c!(cx, b, "header_len", p.header_len());
    c!(cx, b, "verify_checksum", p.verify_checksum(&V6A, &V6B));
    c!(cx, b, "payload", p.payload());
    match ty {
        Icmpv6Message::EchoRequest | Icmpv6Message::EchoReply => {
            c!(cx, b, "echo_ident", p.echo_ident());
            c!(cx, b, "echo_seq_no", p.echo_seq_no());
        }
        Icmpv6Message::PktTooBig => {
            c!(cx, b, "pkt_too_big_mtu", p.pkt_too_big_mtu());
        }
        Icmpv6Message::ParamProblem => {
            c!(cx, b, "param_problem_ptr", p.param_problem_ptr());
        }
        Icmpv6Message::RouterAdvert => {
            c!(cx, b, "current_hop_limit", p.current_hop_limit());
            c!(cx, b, "router_flags", p.router_flags());
            c!(cx, b, "router_lifetime", p.router_lifetime());
            c!(cx, b, "reachable_time", p.reachable_time());
            c!(cx, b, "retrans_time", p.retrans_time());
        }
        Icmpv6Message::NeighborSolicit => {
            c!(cx, b, "target_addr", p.target_addr());
        }
        Icmpv6Message::NeighborAdvert => {
            c!(cx, b, "neighbor_flags", p.neighbor_flags());
            c!(cx, b, "target_addr", p.target_addr());
        }
        Icmpv6Message::Redirect => {
            c!(cx, b, "target_addr", p.target_addr());
            c!(cx, b, "dest_addr", p.dest_addr());
        }
        Icmpv6Message::MldQuery => {
            c!(cx, b, "max_resp_code", p.max_resp_code());
            c!(cx, b, "mcast_addr", p.mcast_addr());
            c!(cx, b, "s_flag", p.s_flag());
            c!(cx, b, "qrv", p.qrv());
            c!(cx, b, "qqic", p.qqic());
            c!(cx, b, "num_srcs", p.num_srcs());
        }
        Icmpv6Message::MldReport => {
            c!(cx, b, "nr_mcast_addr_rcrds", p.nr_mcast_addr_rcrds());
        }
        _ => {}
    }
    if ty.is_ndisc() {
        c!(cx, b, "NdiscRepr::parse", NdiscRepr::parse(&p).is_ok());
    }
    if ty.is_mld() {
        c!(cx, b, "MldRepr::parse", MldRepr::parse(&p).is_ok());
    }
    c!(cx, b, "Repr::parse", Icmpv6Repr::parse(&V6A, &V6B, &p, &caps_default()).is_ok());
    c!(cx, b, "Repr::parse(ignored-checksums)", Icmpv6Repr::parse(&V6A, &V6B, &p, &caps_ignored()).is_ok());
}

fn p_mldrecord(cx: &mut Ctx, b: &[u8]) {
    let p = checked!(cx, b, MldAddressRecord);
    c!(cx, b, "record_type", p.record_type());
    c!(cx, b, "aux_data_len", p.aux_data_len());
    c!(cx, b, "num_srcs", p.num_srcs());
    c!(cx, b, "mcast_addr", p.mcast_addr());
    c!(cx, b, "payload", p.payload());
    c!(cx, b, "Repr::parse", MldAddressRecordRepr::parse(&p).is_ok());
}

fn p_ndiscoption(cx: &mut Ctx, b: &[u8]) {
    let p = checked!(cx, b, NdiscOption);
    let ty = c!(cx, b, "option_type", p.option_type());
    c!(cx, b, "data_len", p.data_len());
    c!(cx, b, "data", p.data());
    match ty {
        Some(NdiscOptionType::SourceLinkLayerAddr) | Some(NdiscOptionType::TargetLinkLayerAddr) => {
            c!(cx, b, "link_layer_addr", p.link_layer_addr());
        }
        Some(NdiscOptionType::Mtu) => {
            c!(cx, b, "mtu", p.mtu());
        }
        Some(NdiscOptionType::PrefixInformation) => {
            c!(cx, b, "prefix_len", p.prefix_len());
            c!(cx, b, "prefix_flags", p.prefix_flags());
            c!(cx, b, "valid_lifetime", p.valid_lifetime());
            c!(cx, b, "preferred_lifetime", p.preferred_lifetime());
            c!(cx, b, "prefix", p.prefix());
        }
        _ => {}
    }
    cx.show(b, "Display", &p);
    c!(cx, b, "Repr::parse", NdiscOptionRepr::parse(&p).is_ok());
    cx.show(b, "PrettyPrinter", &PrettyPrinter::<NdiscOption<&[u8]>>::new("", &b));
}

fn p_igmp(cx: &mut Ctx, b: &[u8]) {
    let p = checked!(cx, b, IgmpPacket);
    c!(cx, b, "msg_type", p.msg_type());
    c!(cx, b, "max_resp_code", p.max_resp_code());
    c!(cx, b, "checksum", p.checksum());
    c!(cx, b, "group_addr", p.group_addr());
    c!(cx, b, "verify_checksum", p.verify_checksum());
    cx.show(b, "Display", &p);
    c!(cx, b, "Repr::parse", IgmpRepr::parse(&p).is_ok());
    cx.show(b, "PrettyPrinter", &PrettyPrinter::<IgmpPacket<&[u8]>>::new("", &b));
}

fn p_udp(cx: &mut Ctx, b: &[u8]) {
    let p = checked!(cx, b, UdpPacket);
    let (a4, b4): (IpAddress, IpAddress) = (V4A.into(), V4B.into());
    let (a6, b6): (IpAddress, IpAddress) = (V6A.into(), V6B.into());
    c!(cx, b, "src_port", p.src_port());
    c!(cx, b, "dst_port", p.dst_port());
    c!(cx, b, "len", p.len());
    c!(cx, b, "checksum", p.checksum());
    c!(cx, b, "verify_partial_checksum(v4)", p.verify_partial_checksum(&a4, &b4));
    c!(cx, b, "verify_partial_checksum(v6)", p.verify_partial_checksum(&a6, &b6));
    c!(cx, b, "verify_checksum(v4)", p.verify_checksum(&a4, &b4));
    c!(cx, b, "verify_checksum(v6)", p.verify_checksum(&a6, &b6));
    c!(cx, b, "payload", p.payload());
    cx.show(b, "Display", &p);
    c!(cx, b, "Repr::parse(v4)", UdpRepr::parse(&p, &a4, &b4, &caps_default()).is_ok());
    c!(cx, b, "Repr::parse(v6)", UdpRepr::parse(&p, &a6, &b6, &caps_default()).is_ok());
    c!(cx, b, "Repr::parse(ignored-checksums)", UdpRepr::parse(&p, &a4, &b4, &caps_ignored()).is_ok());
    cx.show(b, "PrettyPrinter", &PrettyPrinter::<UdpPacket<&[u8]>>::new("", &b));
}

/// Drain a TCP option list the way every smoltcp caller does; returns Err(n) if an option
/// consumed no bytes or more items than bytes were produced (non-termination in any caller).
fn drain_tcp_options(opts: &[u8]) -> std::result::Result<usize, usize> {
    let mut o = opts;
    let mut n = 0usize;
    while !o.is_empty() {
        match TcpOption::parse(o) {
            Ok((rest, opt)) => {
                if rest.len() >= o.len() {
                    return Err(n);
                }
                if opt == TcpOption::EndOfList {
                    break;
                }
                o = rest;
            }
            Err(_) => break,
        }
        n += 1;
        if n > opts.len() {
            return Err(n);
        }
    }
    Ok(n)
}

fn p_tcp(cx: &mut Ctx, b: &[u8]) {
    let p = checked!(cx, b, TcpPacket);
    let (a4, b4): (IpAddress, IpAddress) = (V4A.into(), V4B.into());
    let (a6, b6): (IpAddress, IpAddress) = (V6A.into(), V6B.into());
    c!(cx, b, "src_port", p.src_port());
    c!(cx, b, "dst_port", p.dst_port());
    c!(cx, b, "seq_number", p.seq_number());
    c!(cx, b, "ack_number", p.ack_number());
    c!(cx, b, "flags", (p.fin(), p.syn(), p.rst(), p.psh(), p.ack(), p.urg(), p.ece(), p.cwr(), p.ns()));
    c!(cx, b, "header_len", p.header_len());
    c!(cx, b, "window_len", p.window_len());
    c!(cx, b, "checksum", p.checksum());
    c!(cx, b, "urgent_at", p.urgent_at());
    c!(cx, b, "segment_len", p.segment_len());
    c!(cx, b, "selective_ack_permitted", p.selective_ack_permitted().is_ok());
    c!(cx, b, "selective_ack_ranges", p.selective_ack_ranges().is_ok());
    c!(cx, b, "options_summary", p.options_summary().is_ok());
    c!(cx, b, "verify_partial_checksum(v4)", p.verify_partial_checksum(&a4, &b4));
    c!(cx, b, "verify_checksum(v4)", p.verify_checksum(&a4, &b4));
    c!(cx, b, "verify_checksum(v6)", p.verify_checksum(&a6, &b6));
    c!(cx, b, "options", p.options());
    c!(cx, b, "payload", p.payload());
    let r = c!(cx, b, "TcpOption::parse(options)", drain_tcp_options(p.options()));
    if let Some(Err(n)) = r {
        cx.looped(b, "TcpOption::parse(options)", format!("option list made no progress / exceeded its byte count after {} options", n));
    }
    cx.show(b, "Display", &p);
    c!(cx, b, "Repr::parse(v4)", TcpRepr::parse(&p, &a4, &b4, &caps_default()).is_ok());
    c!(cx, b, "Repr::parse(v6)", TcpRepr::parse(&p, &a6, &b6, &caps_default()).is_ok());
    c!(cx, b, "Repr::parse(ignored-checksums)", TcpRepr::parse(&p, &a4, &b4, &caps_ignored()).is_ok());
    cx.show(b, "PrettyPrinter", &PrettyPrinter::<TcpPacket<&[u8]>>::new("", &b));
}

/// `TcpOption::parse` on the raw buffer (no checked constructor exists for this type).
fn p_tcpoption(cx: &mut Ctx, b: &[u8]) {
    match c!(cx, b, "parse", TcpOption::parse(b).map(|(rest, _)| rest.len())) {
        Some(Ok(_)) => cx.accepted(),
        _ => return,
    }
    let r = c!(cx, b, "parse(list)", drain_tcp_options(b));
    if let Some(Err(n)) = r {
        cx.looped(b, "parse(list)", format!("option list made no progress / exceeded its byte count after {} options", n));
    }
}

fn p_dhcp(cx: &mut Ctx, b: &[u8]) {
    let p = checked!(cx, b, DhcpPacket);
    c!(cx, b, "opcode", p.opcode());
    c!(cx, b, "hardware_type", p.hardware_type());
    c!(cx, b, "hardware_len", p.hardware_len());
    c!(cx, b, "transaction_id", p.transaction_id());
    c!(cx, b, "client_hardware_address", p.client_hardware_address());
    c!(cx, b, "hops", p.hops());
    c!(cx, b, "secs", p.secs());
    c!(cx, b, "magic_number", p.magic_number());
    c!(cx, b, "client_ip", p.client_ip());
    c!(cx, b, "your_ip", p.your_ip());
    c!(cx, b, "server_ip", p.server_ip());
    c!(cx, b, "relay_agent_ip", p.relay_agent_ip());
    c!(cx, b, "flags", p.flags());
    c!(cx, b, "get_sname", p.get_sname().is_ok());
    c!(cx, b, "get_boot_file", p.get_boot_file().is_ok());
    // every yielded option consumes >= 2 bytes: the iterator must stop within len items
    let r = c!(cx, b, "options", {
        let mut n = 0usize;
        let mut ok = true;
        for o in p.options() {
            std::hint::black_box(o.data.len());
            n += 1;
            if n > b.len() {
                ok = false;
                break;
            }
        }
        ok
    });
    if r == Some(false) {
        cx.looped(b, "options", format!("option iterator yielded more than len = {} items", b.len()));
    }
    c!(cx, b, "Repr::parse", DhcpRepr::parse(&p).is_ok());
}

/// Drain one `parse_name` iterator; false = it produced more than `limit` items.
/// (The iterator keeps returning `Some(Err)` after an error, so stop at the first error the
/// way `socket::dns` does with `?`.)
fn drain_name(p: &DnsPacket<&[u8]>, bytes: &[u8], limit: usize) -> bool {
    let mut n = 0usize;
    for item in p.parse_name(bytes) {
        n += 1;
        match item {
            Ok(l) => {
                std::hint::black_box(l.len());
            }
            Err(_) => break,
        }
        if n > limit {
            return false;
        }
    }
    true
}

const DNS_NAME_OFFSETS: usize = 96;

fn p_dns(cx: &mut Ctx, b: &[u8]) {
    let p = checked!(cx, b, DnsPacket);
    c!(cx, b, "payload", p.payload().len());
    c!(cx, b, "transaction_id", p.transaction_id());
    c!(cx, b, "flags", p.flags());
    c!(cx, b, "opcode", p.opcode());
    c!(cx, b, "rcode", p.rcode());
    c!(cx, b, "question_count", p.question_count());
    c!(cx, b, "answer_record_count", p.answer_record_count());
    c!(cx, b, "authority_record_count", p.authority_record_count());
    c!(cx, b, "additional_record_count", p.additional_record_count());
    // Each item consumes >= 1 byte that is never parsed again => at most len items + the
    // terminator. Start the name at every offset of the first 96 payload bytes (and at the
    // last 4) so that every pointer in a small message is followed from every position.
    let limit = b.len() + 2;
    let r = c!(cx, b, "parse_name", {
        let mut bad: Option<usize> = None;
        let end = b.len().min(12 + DNS_NAME_OFFSETS);
        for off in (12..end).chain(b.len().saturating_sub(4).max(end)..b.len()) {
            if !drain_name(&p, &b[off..], limit) {
                bad = Some(off);
                break;
            }
        }
        bad
    });
    if let Some(Some(off)) = r {
        cx.looped(b, "parse_name", format!("name starting at offset {} yielded more than len+2 = {} labels", off, limit));
    }
    // the walk socket::dns performs: questions, then records, names resolved through the packet
    let r = c!(cx, b, "Question/Record walk", {
        let mut ok = true;
        let mut payload = p.payload();
        let mut fine = true;
        for _ in 0..p.question_count() {
            match DnsQuestion::parse(payload) {
                Ok((rest, q)) => {
                    ok &= drain_name(&p, q.name, limit);
                    payload = rest;
                }
                Err(_) => {
                    fine = false;
                    break;
                }
            }
        }
        if fine {
            let total = p.answer_record_count() as u32 + p.authority_record_count() as u32 + p.additional_record_count() as u32;
            for _ in 0..total {
                match DnsRecord::parse(payload) {
                    Ok((rest, r)) => {
                        ok &= drain_name(&p, r.name, limit);
                        if let DnsRecordData::Cname(d) = r.data {
                            ok &= drain_name(&p, d, limit);
                        }
                        payload = rest;
                    }
                    Err(_) => break,
                }
            }
        }
        ok
    });
    if r == Some(false) {
        cx.looped(b, "Question/Record walk", format!("a name iterator yielded more than len+2 = {} labels", limit));
    }
}

fn p_dnsquestion(cx: &mut Ctx, b: &[u8]) {
    match c!(cx, b, "parse", DnsQuestion::parse(b).map(|(rest, q)| (rest.len(), q.name.len()))) {
        Some(Ok(_)) => cx.accepted(),
        _ => {}
    }
}

fn p_dnsrecord(cx: &mut Ctx, b: &[u8]) {
    match c!(cx, b, "parse", DnsRecord::parse(b).map(|(rest, r)| (rest.len(), r.name.len()))) {
        Some(Ok(_)) => cx.accepted(),
        _ => {}
    }
}

fn p_ieee802154(cx: &mut Ctx, b: &[u8]) {
    let p = checked!(cx, b, Ieee802154Frame);
    c!(cx, b, "frame_type", p.frame_type());
    let sec = c!(cx, b, "security_enabled", p.security_enabled());
    c!(cx, b, "frame_pending", p.frame_pending());
    c!(cx, b, "ack_request", p.ack_request());
    c!(cx, b, "pan_id_compression", p.pan_id_compression());
    c!(cx, b, "sequence_number_suppression", p.sequence_number_suppression());
    c!(cx, b, "ie_present", p.ie_present());
    c!(cx, b, "dst_addressing_mode", p.dst_addressing_mode());
    c!(cx, b, "frame_version", p.frame_version());
    c!(cx, b, "src_addressing_mode", p.src_addressing_mode());
    c!(cx, b, "sequence_number", p.sequence_number());
    c!(cx, b, "dst_pan_id", p.dst_pan_id());
    c!(cx, b, "dst_addr", p.dst_addr());
    c!(cx, b, "src_pan_id", p.src_pan_id());
    c!(cx, b, "src_addr", p.src_addr());
    c!(cx, b, "mac_header", p.mac_header());
    c!(cx, b, "payload", p.payload());
    if sec == Some(true) {
        // auxiliary security header getters: only meaningful when the header is present
        c!(cx, b, "security_level", p.security_level());
        c!(cx, b, "key_identifier_mode", p.key_identifier_mode());
        c!(cx, b, "frame_counter_suppressed", p.frame_counter_suppressed());
        c!(cx, b, "frame_counter", p.frame_counter());
        c!(cx, b, "key_source", p.key_source());
        c!(cx, b, "key_index", p.key_index());
        c!(cx, b, "message_integrity_code", p.message_integrity_code());
    }
    cx.show(b, "Display", &p);
    c!(cx, b, "Repr::parse", Ieee802154Repr::parse(&p).is_ok());
}

fn p_lowpan_dispatch(cx: &mut Ctx, b: &[u8]) {
    match c!(cx, b, "dispatch", SixlowpanPacket::dispatch(b)) {
        Some(Ok(_)) => cx.accepted(),
        _ => {}
    }
}

fn p_nhc_dispatch(cx: &mut Ctx, b: &[u8]) {
    match c!(cx, b, "dispatch", SixlowpanNhcPacket::dispatch(b).is_ok()) {
        Some(true) => cx.accepted(),
        _ => {}
    }
}

fn p_iphc(cx: &mut Ctx, b: &[u8]) {
    let p = checked!(cx, b, SixlowpanIphcPacket);
    let ctx = [SixlowpanAddressContext([0x20, 0x01, 0x0d, 0xb8, 0, 0, 0, 1]), SixlowpanAddressContext([0xfd, 0, 0, 0, 0, 0, 0, 2])];
    c!(cx, b, "next_header", p.next_header());
    c!(cx, b, "hop_limit", p.hop_limit());
    c!(cx, b, "src_context_id", p.src_context_id());
    c!(cx, b, "dst_context_id", p.dst_context_id());
    c!(cx, b, "ecn_field", p.ecn_field());
    c!(cx, b, "dscp_field", p.dscp_field());
    c!(cx, b, "flow_label_field", p.flow_label_field());
    c!(cx, b, "src_addr", p.src_addr().is_ok());
    c!(cx, b, "dst_addr", p.dst_addr().is_ok());
    c!(cx, b, "src_addr.resolve", p.src_addr().map(|a| (a.resolve(Some(LL_EXT_A), &ctx).is_ok(), a.resolve(Some(LL_SHORT_A), &[]).is_ok(), a.resolve(None, &ctx[..1]).is_ok())).is_ok());
    c!(cx, b, "dst_addr.resolve", p.dst_addr().map(|a| (a.resolve(Some(LL_EXT_B), &ctx).is_ok(), a.resolve(Some(LL_SHORT_A), &[]).is_ok(), a.resolve(None, &ctx[..1]).is_ok())).is_ok());
    c!(cx, b, "header_len", p.header_len());
    c!(cx, b, "payload", p.payload());
    c!(cx, b, "Repr::parse(ext,ctx)", SixlowpanIphcRepr::parse(&p, Some(LL_EXT_A), Some(LL_EXT_B), &ctx).is_ok());
    c!(cx, b, "Repr::parse(short,no-ctx)", SixlowpanIphcRepr::parse(&p, Some(LL_SHORT_A), Some(LL_SHORT_A), &[]).is_ok());
    c!(cx, b, "Repr::parse(no-ll)", SixlowpanIphcRepr::parse(&p, None, None, &ctx[..1]).is_ok());
}

fn p_nhc_ext(cx: &mut Ctx, b: &[u8]) {
    let p = checked!(cx, b, SixlowpanExtHeaderPacket);
    c!(cx, b, "extension_header_id", p.extension_header_id());
    c!(cx, b, "length", p.length());
    c!(cx, b, "next_header", p.next_header());
    c!(cx, b, "payload", p.payload());
    c!(cx, b, "Repr::parse", SixlowpanExtHeaderRepr::parse(&p).is_ok());
}

fn p_nhc_udp(cx: &mut Ctx, b: &[u8]) {
    let p = checked!(cx, b, SixlowpanUdpNhcPacket);
    c!(cx, b, "src_port", p.src_port());
    c!(cx, b, "dst_port", p.dst_port());
    c!(cx, b, "checksum", p.checksum());
    c!(cx, b, "payload", p.payload());
    c!(cx, b, "Repr::parse", SixlowpanUdpNhcRepr::parse(&p, &V6A, &V6B, &caps_default()).is_ok());
    c!(cx, b, "Repr::parse(ignored-checksums)", SixlowpanUdpNhcRepr::parse(&p, &V6A, &V6B, &caps_ignored()).is_ok());
}

fn p_lowpan_frag(cx: &mut Ctx, b: &[u8]) {
    let p = checked!(cx, b, SixlowpanFragPacket);
    // get_key unwraps the link-layer addresses of the representation it is given: supply both
    let ll = Ieee802154Repr {
        frame_type: Ieee802154FrameType::Data,
        security_enabled: false,
        frame_pending: false,
        ack_request: false,
        sequence_number: Some(1),
        pan_id_compression: true,
        frame_version: Ieee802154FrameVersion::Ieee802154_2006,
        dst_pan_id: Some(Ieee802154Pan(0xabcd)),
        dst_addr: Some(LL_EXT_B),
        src_pan_id: None,
        src_addr: Some(LL_EXT_A),
    };
    c!(cx, b, "dispatch", p.dispatch());
    c!(cx, b, "datagram_size", p.datagram_size());
    c!(cx, b, "datagram_tag", p.datagram_tag());
    c!(cx, b, "datagram_offset", p.datagram_offset());
    c!(cx, b, "is_first_fragment", p.is_first_fragment());
    c!(cx, b, "get_key", p.get_key(&ll));
    c!(cx, b, "payload", p.payload());
    c!(cx, b, "Repr::parse", SixlowpanFragRepr::parse(&p).is_ok());
}
