//! C07 catalogue: well-formed packets of every wire type, built with the corresponding
//! `Repr::emit` where one exists (hand-assembled where smoltcp has no emitter for the form:
//! DNS responses, IPv4 options, TCP unknown options, 802.15.4 security headers, IPHC
//! traffic-class/context forms, NHC-UDP with elided checksum).
//!
//! Every entry is only a *seed*: the check enumerates truncations / corruptions of it and feeds
//! each result to every view type, so a seed does not have to be accepted by anything.

use smoltcp::phy::ChecksumCapabilities;
use smoltcp::time::Duration;
use smoltcp::wire::*;

pub struct Entry {
    pub name: String,
    pub bytes: Vec<u8>,
    /// positions used for pair corruptions (<= 24 positions)
    pub hot: Vec<u16>,
    /// two positions (type/dispatch/flag + length/code bytes that select the layout) whose full
    /// 256 x 256 cross product is enumerated in the thorough tier
    pub key2: Option<(u16, u16)>,
}

/// key positions by catalogue family (entry name prefix)
fn key2_for(name: &str, len: usize) -> Option<(u16, u16)> {
    const HEAD: &[&str] = &[
        "ieee802154/", "iphc/", "nhc-ext/", "nhc-udp/", "lowpan-frag/", "ipv6opt/", "ndiscopt/", "ipv6ext/", "ipv6routing/", "hbh/", "icmpv4/",
        "icmpv6/", "igmp/", "ipv4/", "ipv6/", "mldrecord/", "arp/",
    ];
    let k = if HEAD.iter().any(|p| name.starts_with(p)) {
        (0, 1)
    } else if name.starts_with("tcp/") {
        (12, 13) // data offset + flags
    } else if name.starts_with("dhcp/") {
        (243, 244) // kind + length of the second option
    } else if name.starts_with("dns/") {
        (12, 13) // first label length / pointer
    } else {
        return None;
    };
    if (k.1 as usize) < len {
        Some(k)
    } else {
        None
    }
}

pub const MAC_A: EthernetAddress = EthernetAddress([0x02, 0x00, 0x00, 0x00, 0x00, 0x01]);
pub const MAC_B: EthernetAddress = EthernetAddress([0x02, 0x00, 0x00, 0x00, 0x00, 0x02]);
pub const V4A: Ipv4Address = Ipv4Address::new(192, 168, 1, 1);
pub const V4B: Ipv4Address = Ipv4Address::new(192, 168, 1, 2);
pub const V6A: Ipv6Address = Ipv6Address::new(0xfe80, 0, 0, 0, 0, 0, 0, 1);
pub const V6B: Ipv6Address = Ipv6Address::new(0xfe80, 0, 0, 0, 0, 0, 0, 2);
pub const V6G: Ipv6Address = Ipv6Address::new(0x2001, 0xdb8, 0, 0, 0, 0, 0, 0x99);
pub const V6M: Ipv6Address = Ipv6Address::new(0xff02, 0, 0, 0, 0, 0, 0, 1);
pub const LL_SHORT_A: Ieee802154Address = Ieee802154Address::Short([0x12, 0x34]);
pub const LL_EXT_A: Ieee802154Address = Ieee802154Address::Extended([0x02, 0x11, 0x22, 0x33, 0x44, 0x55, 0x66, 0x77]);
pub const LL_EXT_B: Ieee802154Address = Ieee802154Address::Extended([0x02, 0xaa, 0xbb, 0xcc, 0xdd, 0xee, 0xff, 0x01]);

fn caps() -> ChecksumCapabilities {
    ChecksumCapabilities::default()
}

struct Cat {
    v: Vec<Entry>,
}

impl Cat {
    fn add(&mut self, name: &str, bytes: Vec<u8>) {
        let n = bytes.len().min(24);
        let hot = (0..n as u16).collect();
        let key2 = key2_for(name, bytes.len());
        self.v.push(Entry { name: name.to_string(), bytes, hot, key2 });
    }
    fn add_hot(&mut self, name: &str, bytes: Vec<u8>, hot: &[usize]) {
        let mut h: Vec<u16> = hot.iter().filter(|&&p| p < bytes.len()).map(|&p| p as u16).collect();
        h.sort();
        h.dedup();
        h.truncate(24);
        let key2 = key2_for(name, bytes.len());
        self.v.push(Entry { name: name.to_string(), bytes, hot: h, key2 });
    }
}

fn cat2(a: &[u8], b: &[u8]) -> Vec<u8> {
    let mut v = a.to_vec();
    v.extend_from_slice(b);
    v
}

// ------------------------------------------------------------------------------------------
// builders for single layers
// ------------------------------------------------------------------------------------------

pub fn eth(ethertype: EthernetProtocol, payload: &[u8]) -> Vec<u8> {
    let r = EthernetRepr { src_addr: MAC_A, dst_addr: MAC_B, ethertype };
    let mut b = vec![0u8; r.buffer_len() + payload.len()];
    r.emit(&mut EthernetFrame::new_unchecked(&mut b[..]));
    b[14..].copy_from_slice(payload);
    b
}

pub fn arp(op: ArpOperation) -> Vec<u8> {
    let r = ArpRepr::EthernetIpv4 {
        operation: op,
        source_hardware_addr: MAC_A,
        source_protocol_addr: V4A,
        target_hardware_addr: MAC_B,
        target_protocol_addr: V4B,
    };
    let mut b = vec![0u8; r.buffer_len()];
    r.emit(&mut ArpPacket::new_unchecked(&mut b[..]));
    b
}

pub fn ipv4(proto: IpProtocol, payload: &[u8]) -> Vec<u8> {
    let r = Ipv4Repr { src_addr: V4A, dst_addr: V4B, next_header: proto, payload_len: payload.len(), hop_limit: 64 };
    let mut b = vec![0u8; r.buffer_len() + payload.len()];
    r.emit(&mut Ipv4Packet::new_unchecked(&mut b[..]), &caps());
    b[20..].copy_from_slice(payload);
    b
}

/// IPv4 header with `nopt` 32-bit words of options (hand-assembled: Ipv4Repr never emits options)
pub fn ipv4_opts(proto: IpProtocol, nopt: usize, payload: &[u8]) -> Vec<u8> {
    let base = ipv4(proto, &[]);
    let mut b = base[..20].to_vec();
    for i in 0..nopt {
        // NOP NOP NOP EOL / record-route-ish filler
        b.extend_from_slice(if i == 0 { &[0x07, 0x04, 0x04, 0x00] } else { &[0x01, 0x01, 0x01, 0x00] });
    }
    b.extend_from_slice(payload);
    b[0] = 0x40 | (5 + nopt as u8);
    let tl = b.len() as u16;
    b[2..4].copy_from_slice(&tl.to_be_bytes());
    Ipv4Packet::new_unchecked(&mut b[..]).fill_checksum();
    b
}

pub fn ipv6(nh: IpProtocol, payload: &[u8]) -> Vec<u8> {
    ipv6_sd(V6A, V6B, nh, payload)
}
pub fn ipv6_sd(src: Ipv6Address, dst: Ipv6Address, nh: IpProtocol, payload: &[u8]) -> Vec<u8> {
    let r = Ipv6Repr { src_addr: src, dst_addr: dst, next_header: nh, payload_len: payload.len(), hop_limit: 64 };
    let mut b = vec![0u8; r.buffer_len() + payload.len()];
    r.emit(&mut Ipv6Packet::new_unchecked(&mut b[..]));
    b[40..].copy_from_slice(payload);
    b
}

pub fn udp4(sp: u16, dp: u16, payload: &[u8]) -> Vec<u8> {
    let r = UdpRepr { src_port: sp, dst_port: dp };
    let mut b = vec![0u8; r.header_len() + payload.len()];
    r.emit(
        &mut UdpPacket::new_unchecked(&mut b[..]),
        &V4A.into(),
        &V4B.into(),
        payload.len(),
        |p| p.copy_from_slice(payload),
        &caps(),
    );
    b
}
pub fn udp6(sp: u16, dp: u16, payload: &[u8]) -> Vec<u8> {
    let r = UdpRepr { src_port: sp, dst_port: dp };
    let mut b = vec![0u8; r.header_len() + payload.len()];
    r.emit(
        &mut UdpPacket::new_unchecked(&mut b[..]),
        &V6A.into(),
        &V6B.into(),
        payload.len(),
        |p| p.copy_from_slice(payload),
        &caps(),
    );
    b
}

pub fn tcp(r: &TcpRepr, v6: bool) -> Vec<u8> {
    let mut b = vec![0u8; r.buffer_len()];
    let (s, d): (IpAddress, IpAddress) = if v6 { (V6A.into(), V6B.into()) } else { (V4A.into(), V4B.into()) };
    r.emit(&mut TcpPacket::new_unchecked(&mut b[..]), &s, &d, &caps());
    b
}

fn tcp_base<'a>() -> TcpRepr<'a> {
    TcpRepr {
        src_port: 49152,
        dst_port: 80,
        control: TcpControl::None,
        seq_number: TcpSeqNumber(0x01234567),
        ack_number: None,
        window_len: 4096,
        window_scale: None,
        max_seg_size: None,
        sack_permitted: false,
        sack_ranges: [None, None, None],
        timestamp: None,
        payload: &[],
    }
}

/// TCP header with hand-assembled option bytes (padded to 32-bit), checksum filled for v4 A->B
pub fn tcp_raw_opts(opts: &[u8], payload: &[u8]) -> Vec<u8> {
    let base = tcp(&TcpRepr { control: TcpControl::Syn, ..tcp_base() }, false);
    let mut b = base[..20].to_vec();
    b.extend_from_slice(opts);
    while b.len() % 4 != 0 {
        b.push(0);
    }
    let hl = b.len();
    b.extend_from_slice(payload);
    b[12] = ((hl / 4) as u8) << 4;
    TcpPacket::new_unchecked(&mut b[..]).fill_checksum(&V4A.into(), &V4B.into());
    b
}

pub fn icmpv4(r: &Icmpv4Repr) -> Vec<u8> {
    let mut b = vec![0u8; r.buffer_len()];
    r.emit(&mut Icmpv4Packet::new_unchecked(&mut b[..]), &caps());
    b
}

pub fn icmpv6(r: &Icmpv6Repr) -> Vec<u8> {
    icmpv6_len(r, r.buffer_len())
}
pub fn icmpv6_len(r: &Icmpv6Repr, len: usize) -> Vec<u8> {
    let mut b = vec![0u8; len];
    r.emit(&V6A, &V6B, &mut Icmpv6Packet::new_unchecked(&mut b[..]), &caps());
    b
}

pub fn igmp(r: &IgmpRepr) -> Vec<u8> {
    let mut b = vec![0u8; r.buffer_len()];
    r.emit(&mut IgmpPacket::new_unchecked(&mut b[..]));
    b
}

pub fn ndisc_opt(r: &NdiscOptionRepr) -> Vec<u8> {
    let mut b = vec![0u8; r.buffer_len()];
    r.emit(&mut NdiscOption::new_unchecked(&mut b[..]));
    b
}

pub fn ipv6_opt(r: &Ipv6OptionRepr) -> Vec<u8> {
    let mut b = vec![0u8; r.buffer_len()];
    r.emit(&mut Ipv6Option::new_unchecked(&mut b[..]));
    b
}

/// generic extension header: [next header, length] + body padded to 8n
pub fn ext_hdr(nh: IpProtocol, body: &[u8]) -> Vec<u8> {
    let total = (2 + body.len()).div_ceil(8) * 8;
    let mut b = vec![0u8; total];
    b[2..2 + body.len()].copy_from_slice(body);
    // pad with PadN / Pad1 so that the option list stays well-formed
    let padlen = total - 2 - body.len();
    if padlen == 1 {
        b[2 + body.len()] = 0;
    } else if padlen >= 2 {
        b[2 + body.len()] = 1;
        b[3 + body.len()] = (padlen - 2) as u8;
    }
    let r = Ipv6ExtHeaderRepr { next_header: nh, length: (total / 8 - 1) as u8, data: &[] };
    r.emit(&mut Ipv6ExtHeader::new_unchecked(&mut b[..]));
    b
}

pub fn hbh(r: &Ipv6HopByHopRepr) -> Vec<u8> {
    let mut b = vec![0u8; r.buffer_len()];
    r.emit(&mut Ipv6HopByHopHeader::new_unchecked(&mut b[..]));
    b
}

pub fn frag_hdr(r: &Ipv6FragmentRepr) -> Vec<u8> {
    let mut b = vec![0u8; r.buffer_len()];
    r.emit(&mut Ipv6FragmentHeader::new_unchecked(&mut b[..]));
    b
}

pub fn routing_hdr(r: &Ipv6RoutingRepr) -> Vec<u8> {
    let mut b = vec![0u8; r.buffer_len()];
    r.emit(&mut Ipv6RoutingHeader::new_unchecked(&mut b[..]));
    b
}

pub fn dhcp(r: &DhcpRepr) -> Vec<u8> {
    let mut b = vec![0u8; r.buffer_len()];
    r.emit(&mut DhcpPacket::new_unchecked(&mut b[..])).expect("dhcp emit");
    b
}

fn dhcp_base<'a>(mt: DhcpMessageType) -> DhcpRepr<'a> {
    DhcpRepr {
        message_type: mt,
        transaction_id: 0x12345678,
        secs: 3,
        client_hardware_address: MAC_A,
        client_ip: Ipv4Address::UNSPECIFIED,
        your_ip: Ipv4Address::UNSPECIFIED,
        server_ip: Ipv4Address::UNSPECIFIED,
        router: None,
        subnet_mask: None,
        relay_agent_ip: Ipv4Address::UNSPECIFIED,
        broadcast: false,
        requested_ip: None,
        client_identifier: None,
        server_identifier: None,
        parameter_request_list: None,
        dns_servers: None,
        max_size: None,
        lease_duration: None,
        renew_duration: None,
        rebind_duration: None,
        additional_options: &[],
    }
}

pub fn dns_query(name: &[u8], ty: DnsQueryType) -> Vec<u8> {
    let r = DnsRepr {
        transaction_id: 0x1234,
        opcode: DnsOpcode::Query,
        flags: DnsFlags::RECURSION_DESIRED,
        question: DnsQuestion { name, type_: ty },
    };
    let mut b = vec![0u8; r.buffer_len()];
    r.emit(&mut DnsPacket::new_unchecked(&mut b[..]));
    b
}

pub fn ieee(r: &Ieee802154Repr, payload: &[u8]) -> Vec<u8> {
    let mut b = vec![0u8; r.buffer_len() + payload.len()];
    r.emit(&mut Ieee802154Frame::new_unchecked(&mut b[..]));
    let n = b.len() - payload.len();
    b[n..].copy_from_slice(payload);
    b
}

fn ieee_base() -> Ieee802154Repr {
    Ieee802154Repr {
        frame_type: Ieee802154FrameType::Data,
        security_enabled: false,
        frame_pending: false,
        ack_request: true,
        sequence_number: Some(0x2a),
        pan_id_compression: true,
        frame_version: Ieee802154FrameVersion::Ieee802154_2006,
        dst_pan_id: Some(Ieee802154Pan(0xabcd)),
        dst_addr: Some(LL_EXT_B),
        src_pan_id: None,
        src_addr: Some(LL_EXT_A),
    }
}

pub fn iphc(r: &SixlowpanIphcRepr, payload: &[u8]) -> Vec<u8> {
    let mut b = vec![0u8; r.buffer_len() + payload.len()];
    r.emit(&mut SixlowpanIphcPacket::new_unchecked(&mut b[..]));
    let n = b.len() - payload.len();
    b[n..].copy_from_slice(payload);
    b
}

fn iphc_base() -> SixlowpanIphcRepr {
    SixlowpanIphcRepr {
        src_addr: V6A,
        ll_src_addr: None,
        dst_addr: V6B,
        ll_dst_addr: None,
        next_header: SixlowpanNextHeader::Uncompressed(IpProtocol::Udp),
        hop_limit: 64,
        ecn: None,
        dscp: None,
        flow_label: None,
    }
}

pub fn nhc_ext(id: SixlowpanExtHeaderId, nh: SixlowpanNextHeader, payload: &[u8]) -> Vec<u8> {
    let r = SixlowpanExtHeaderRepr { ext_header_id: id, next_header: nh, length: payload.len() as u8 };
    let mut b = vec![0u8; r.buffer_len() + payload.len()];
    r.emit(&mut SixlowpanExtHeaderPacket::new_unchecked(&mut b[..]));
    let n = b.len() - payload.len();
    b[n..].copy_from_slice(payload);
    b
}

pub fn nhc_udp(sp: u16, dp: u16, payload: &[u8]) -> Vec<u8> {
    let r = SixlowpanUdpNhcRepr(UdpRepr { src_port: sp, dst_port: dp });
    let mut b = vec![0u8; r.header_len() + payload.len()];
    r.emit(
        &mut SixlowpanUdpNhcPacket::new_unchecked(&mut b[..]),
        &V6A,
        &V6B,
        payload.len(),
        |p| p.copy_from_slice(payload),
        &caps(),
    );
    b
}

pub fn lowpan_frag(r: &SixlowpanFragRepr, payload: &[u8]) -> Vec<u8> {
    let mut b = vec![0u8; r.buffer_len() + payload.len()];
    r.emit(&mut SixlowpanFragPacket::new_unchecked(&mut b[..]));
    let n = b.len() - payload.len();
    b[n..].copy_from_slice(payload);
    b
}

// ------------------------------------------------------------------------------------------

pub fn build() -> Vec<Entry> {
    let mut c = Cat { v: vec![] };
    let data8: [u8; 8] = [0xde, 0xad, 0xbe, 0xef, 0x01, 0x02, 0x03, 0x04];
    let data13: &[u8] = b"hello, world\n";

    // ---- ARP / Ethernet
    let arp_req = arp(ArpOperation::Request);
    c.add("arp/request", arp_req.clone());
    c.add("arp/reply", arp(ArpOperation::Reply));
    c.add("arp/op-unknown", arp(ArpOperation::Unknown(9)));
    c.add("eth/arp", eth(EthernetProtocol::Arp, &arp_req));
    c.add("eth/unknown-type", eth(EthernetProtocol::Unknown(0x88cc), &data8));
    c.add("eth/empty", eth(EthernetProtocol::Ipv4, &[]));

    // ---- UDP
    let u4 = udp4(68, 67, data13);
    let u6 = udp6(5353, 5353, data13);
    c.add("udp/v4", u4.clone());
    c.add("udp/v6", u6.clone());
    c.add("udp/v4-empty", udp4(1, 2, &[]));
    {
        let mut z = u4.clone();
        z[6] = 0;
        z[7] = 0;
        c.add("udp/v4-zero-checksum", z);
    }

    // ---- TCP
    let t_syn = tcp(
        &TcpRepr {
            control: TcpControl::Syn,
            max_seg_size: Some(1460),
            window_scale: Some(7),
            sack_permitted: true,
            timestamp: Some(TcpTimestampRepr::new(0x11223344, 0)),
            ..tcp_base()
        },
        false,
    );
    let t_ack_sack = tcp(
        &TcpRepr {
            ack_number: Some(TcpSeqNumber(0x0badcafe_u32 as i32)),
            sack_ranges: [Some((1000, 2000)), Some((3000, 4000)), Some((5000, 6000))],
            timestamp: Some(TcpTimestampRepr::new(5, 6)),
            ..tcp_base()
        },
        false,
    );
    let t_psh = tcp(
        &TcpRepr { control: TcpControl::Psh, ack_number: Some(TcpSeqNumber(77)), payload: data13, ..tcp_base() },
        false,
    );
    c.add("tcp/syn-all-options", t_syn.clone());
    c.add_hot("tcp/ack-3sack-ts", t_ack_sack.clone(), &[12, 13, 20, 21, 22, 23, 24, 25, 30, 31, 46, 47, 48, 49, 50, 51, 58, 59]);
    c.add("tcp/psh-data", t_psh.clone());
    c.add("tcp/fin", tcp(&TcpRepr { control: TcpControl::Fin, ack_number: Some(TcpSeqNumber(1)), ..tcp_base() }, false));
    c.add("tcp/rst", tcp(&TcpRepr { control: TcpControl::Rst, ..tcp_base() }, false));
    c.add("tcp/syn-mss-v6", tcp(&TcpRepr { control: TcpControl::Syn, max_seg_size: Some(1220), ..tcp_base() }, true));
    c.add(
        "tcp/one-sack",
        tcp(&TcpRepr { ack_number: Some(TcpSeqNumber(9)), sack_ranges: [Some((1, 2)), None, None], ..tcp_base() }, false),
    );
    c.add_hot(
        "tcp/raw-unknown-nop-eol",
        tcp_raw_opts(&[0x01, 0x01, 0xfe, 0x04, 0xaa, 0xbb, 0x03, 0x03, 0x05, 0x00], data13),
        &[12, 13, 20, 21, 22, 23, 24, 25, 26, 27, 28, 29, 30, 31],
    );
    c.add_hot(
        "tcp/raw-4sack-maxhdr",
        tcp_raw_opts(
            &[
                0x05, 0x22, 0, 0, 0, 1, 0, 0, 0, 2, 0, 0, 0, 3, 0, 0, 0, 4, 0, 0, 0, 5, 0, 0, 0, 6, 0, 0, 0, 7, 0, 0, 0, 8,
                0x02, 0x04, 0x05, 0xb4, 0x01, 0x00,
            ],
            &data8,
        ),
        &[12, 13, 20, 21, 22, 23, 54, 55, 56, 57, 58, 59],
    );

    // ---- ICMPv4
    let inner4 = Ipv4Repr { src_addr: V4B, dst_addr: V4A, next_header: IpProtocol::Udp, payload_len: 8, hop_limit: 63 };
    let ic4_echo = icmpv4(&Icmpv4Repr::EchoRequest { ident: 0x1234, seq_no: 0xabcd, data: data13 });
    c.add("icmpv4/echo-request", ic4_echo.clone());
    c.add("icmpv4/echo-reply", icmpv4(&Icmpv4Repr::EchoReply { ident: 1, seq_no: 2, data: &[] }));
    let ic4_du = icmpv4(&Icmpv4Repr::DstUnreachable { reason: Icmpv4DstUnreachable::PortUnreachable, header: inner4, data: &data8 });
    c.add_hot("icmpv4/dst-unreachable-port", ic4_du.clone(), &[0, 1, 2, 3, 8, 9, 10, 11, 14, 15, 16, 17, 18, 19, 20, 21]);
    c.add(
        "icmpv4/dst-unreachable-frag",
        icmpv4(&Icmpv4Repr::DstUnreachable { reason: Icmpv4DstUnreachable::FragRequired, header: inner4, data: &data8 }),
    );
    c.add(
        "icmpv4/time-exceeded",
        icmpv4(&Icmpv4Repr::TimeExceeded { reason: Icmpv4TimeExceeded::TtlExpired, header: inner4, data: &data8 }),
    );
    {
        // nested error-in-error for the pretty printer recursion
        let inner_err = ipv4(IpProtocol::Icmp, &ic4_du);
        let mut b = vec![3u8, 1, 0, 0, 0, 0, 0, 0];
        b.extend_from_slice(&inner_err);
        Icmpv4Packet::new_unchecked(&mut b[..]).fill_checksum();
        c.add_hot("icmpv4/dst-unreachable-nested", b, &[0, 1, 8, 9, 10, 11, 17, 28, 29, 36, 37, 38, 39, 45]);
    }

    // ---- IGMP
    c.add(
        "igmp/query-v2-general",
        igmp(&IgmpRepr::MembershipQuery { max_resp_time: Duration::from_millis(10_000), group_addr: Ipv4Address::UNSPECIFIED, version: IgmpVersion::Version2 }),
    );
    c.add(
        "igmp/query-v1",
        igmp(&IgmpRepr::MembershipQuery { max_resp_time: Duration::from_millis(0), group_addr: Ipv4Address::UNSPECIFIED, version: IgmpVersion::Version1 }),
    );
    c.add(
        "igmp/query-v2-group-long",
        igmp(&IgmpRepr::MembershipQuery { max_resp_time: Duration::from_millis(3_000_000), group_addr: Ipv4Address::new(224, 0, 0, 251), version: IgmpVersion::Version2 }),
    );
    let igmp_rep = igmp(&IgmpRepr::MembershipReport { group_addr: Ipv4Address::new(224, 0, 0, 251), version: IgmpVersion::Version2 });
    c.add("igmp/report-v2", igmp_rep.clone());
    c.add("igmp/report-v1", igmp(&IgmpRepr::MembershipReport { group_addr: Ipv4Address::new(239, 1, 2, 3), version: IgmpVersion::Version1 }));
    c.add("igmp/leave", igmp(&IgmpRepr::LeaveGroup { group_addr: Ipv4Address::new(224, 0, 0, 251) }));

    // ---- IPv4 (+ Ethernet stacks for the pretty printer)
    let ip4_udp = ipv4(IpProtocol::Udp, &u4);
    let ip4_tcp = ipv4(IpProtocol::Tcp, &t_syn);
    let ip4_icmp = ipv4(IpProtocol::Icmp, &ic4_echo);
    let ip4_icmp_du = ipv4(IpProtocol::Icmp, &ic4_du);
    c.add("ipv4/udp", ip4_udp.clone());
    c.add("ipv4/tcp-syn", ip4_tcp.clone());
    c.add("ipv4/icmp-echo", ip4_icmp.clone());
    c.add("ipv4/icmp-dst-unreachable", ip4_icmp_du.clone());
    c.add("ipv4/igmp", ipv4(IpProtocol::Igmp, &igmp_rep));
    c.add("ipv4/unknown-proto-empty", ipv4(IpProtocol::Unknown(253), &[]));
    c.add_hot("ipv4/options-1", ipv4_opts(IpProtocol::Udp, 1, &u4), &[0, 1, 2, 3, 6, 7, 9, 20, 21, 22, 23, 24, 25, 28, 29, 30, 31]);
    c.add("ipv4/options-10-maxihl", ipv4_opts(IpProtocol::Tcp, 10, &t_psh));
    {
        let mut f = ip4_udp.clone();
        f[6] = 0x20; // MF
        f[7] = 0x00;
        Ipv4Packet::new_unchecked(&mut f[..]).fill_checksum();
        c.add("ipv4/first-fragment", f);
        let mut f = ip4_udp.clone();
        f[6] = 0x00;
        f[7] = 0x10;
        Ipv4Packet::new_unchecked(&mut f[..]).fill_checksum();
        c.add("ipv4/last-fragment", f);
    }
    c.add_hot("eth/ipv4/udp", eth(EthernetProtocol::Ipv4, &ip4_udp), &[12, 13, 14, 16, 17, 20, 21, 23, 24, 25, 34, 35, 36, 37, 38, 39, 40, 41]);
    c.add_hot("eth/ipv4/tcp-syn", eth(EthernetProtocol::Ipv4, &ip4_tcp), &[12, 13, 14, 16, 17, 20, 21, 23, 46, 47, 54, 55, 56, 57, 58, 59, 60, 61]);
    c.add_hot("eth/ipv4/icmp-echo", eth(EthernetProtocol::Ipv4, &ip4_icmp), &[12, 13, 14, 16, 17, 20, 21, 23, 34, 35, 36, 37, 38, 39]);
    c.add_hot(
        "eth/ipv4/icmp-dst-unreachable",
        eth(EthernetProtocol::Ipv4, &ip4_icmp_du),
        &[12, 13, 14, 16, 17, 23, 34, 35, 36, 37, 42, 44, 45, 51, 62, 63, 66, 67],
    );

    // ---- IPv6 option / HBH / ext / fragment / routing
    c.add("ipv6opt/pad1", ipv6_opt(&Ipv6OptionRepr::Pad1));
    c.add("ipv6opt/padn0", ipv6_opt(&Ipv6OptionRepr::PadN(0)));
    c.add("ipv6opt/padn4", ipv6_opt(&Ipv6OptionRepr::PadN(4)));
    c.add("ipv6opt/router-alert-mld", ipv6_opt(&Ipv6OptionRepr::RouterAlert(Ipv6OptionRouterAlert::MulticastListenerDiscovery)));
    c.add("ipv6opt/router-alert-rsvp", ipv6_opt(&Ipv6OptionRepr::RouterAlert(Ipv6OptionRouterAlert::Rsvp)));
    c.add("ipv6opt/unknown", ipv6_opt(&Ipv6OptionRepr::Unknown { type_: Ipv6OptionType::Unknown(0x1e), length: 5, data: &[1, 2, 3, 4, 5] }));
    c.add("ipv6opt/unknown-discard", ipv6_opt(&Ipv6OptionRepr::Unknown { type_: Ipv6OptionType::Unknown(0xc2), length: 4, data: &[0, 0, 0x10, 0] }));
    c.add("ipv6opt/rpl", ipv6_opt(&Ipv6OptionRepr::Unknown { type_: Ipv6OptionType::Rpl, length: 4, data: &[0, 0x1e, 0, 1] }));
    let mut hbh_r = Ipv6HopByHopRepr::mldv2_router_alert();
    hbh_r.push_padn_option(0);
    let hbh_opts = hbh(&hbh_r);
    c.add("hbh/router-alert-padn", hbh_opts.clone());
    {
        let mut r = Ipv6HopByHopRepr { options: Default::default() };
        r.options.push(Ipv6OptionRepr::Pad1).unwrap();
        r.options.push(Ipv6OptionRepr::Unknown { type_: Ipv6OptionType::Unknown(0x3e), length: 3, data: &[9, 9, 9] }).unwrap();
        r.options.push(Ipv6OptionRepr::PadN(2)).unwrap();
        r.options.push(Ipv6OptionRepr::Pad1).unwrap();
        c.add("hbh/pad1-unknown-padn", hbh(&r));
    }
    let ext_hbh = ext_hdr(IpProtocol::Icmpv6, &hbh_opts);
    c.add("ipv6ext/hbh-8", ext_hbh.clone());
    c.add("ipv6ext/dstopts-16", ext_hdr(IpProtocol::Udp, &[0x1e, 0x08, 1, 2, 3, 4, 5, 6, 7, 8]));
    c.add("ipv6frag/first", frag_hdr(&Ipv6FragmentRepr { frag_offset: 0, more_frags: true, ident: 0xdeadbeef }));
    c.add("ipv6frag/last", frag_hdr(&Ipv6FragmentRepr { frag_offset: 1480 / 8, more_frags: false, ident: 7 }));
    c.add("ipv6routing/type2", routing_hdr(&Ipv6RoutingRepr::Type2 { segments_left: 1, home_address: V6G }));
    c.add(
        "ipv6routing/rpl",
        routing_hdr(&Ipv6RoutingRepr::Rpl { segments_left: 2, cmpr_i: 14, cmpr_e: 14, pad: 0, addresses: &[0, 2, 0, 3, 0, 4, 0, 5] }),
    );
    c.add(
        "ipv6routing/rpl-full",
        routing_hdr(&Ipv6RoutingRepr::Rpl { segments_left: 1, cmpr_i: 0, cmpr_e: 0, pad: 0, addresses: &V6G.octets() }),
    );
    c.add("ipv6routing/unknown-type", vec![0x00, 0x03, 0, 0, 0, 0, 1, 2]);

    // ---- NDISC options
    let raw6 = RawHardwareAddress::from_bytes(MAC_A.as_bytes());
    let raw8 = RawHardwareAddress::from_bytes(LL_EXT_A.as_bytes());
    let pfx = NdiscPrefixInformation {
        prefix_len: 64,
        flags: NdiscPrefixInfoFlags::ON_LINK | NdiscPrefixInfoFlags::ADDRCONF,
        valid_lifetime: Duration::from_secs(86400),
        preferred_lifetime: Duration::from_secs(14400),
        prefix: Ipv6Address::new(0x2001, 0xdb8, 0, 1, 0, 0, 0, 0),
    };
    let redirected_inner = Ipv6Repr { src_addr: V6G, dst_addr: V6B, next_header: IpProtocol::Udp, payload_len: 8, hop_limit: 5 };
    let redir = NdiscRedirectedHeader { header: redirected_inner, data: &data8 };
    c.add("ndiscopt/sll-eth", ndisc_opt(&NdiscOptionRepr::SourceLinkLayerAddr(raw6)));
    c.add("ndiscopt/tll-eui64", ndisc_opt(&NdiscOptionRepr::TargetLinkLayerAddr(raw8)));
    c.add("ndiscopt/prefix-info", ndisc_opt(&NdiscOptionRepr::PrefixInformation(pfx)));
    c.add_hot("ndiscopt/redirected-header", ndisc_opt(&NdiscOptionRepr::RedirectedHeader(redir)), &[0, 1, 2, 7, 8, 9, 12, 13, 14, 15, 16, 47, 48, 55]);
    c.add("ndiscopt/mtu", ndisc_opt(&NdiscOptionRepr::Mtu(1500)));
    c.add("ndiscopt/unknown", ndisc_opt(&NdiscOptionRepr::Unknown { type_: 25, length: 2, data: &[0u8; 14] }));

    // ---- ICMPv6 (+ NDISC + MLD)
    let inner6 = Ipv6Repr { src_addr: V6B, dst_addr: V6A, next_header: IpProtocol::Udp, payload_len: 21, hop_limit: 63 };
    let ic6_echo = icmpv6(&Icmpv6Repr::EchoRequest { ident: 0x1234, seq_no: 7, data: data13 });
    c.add("icmpv6/echo-request", ic6_echo.clone());
    c.add("icmpv6/echo-reply-empty", icmpv6(&Icmpv6Repr::EchoReply { ident: 1, seq_no: 2, data: &[] }));
    let ic6_du = icmpv6(&Icmpv6Repr::DstUnreachable { reason: Icmpv6DstUnreachable::PortUnreachable, header: inner6, data: &u6 });
    c.add_hot("icmpv6/dst-unreachable", ic6_du.clone(), &[0, 1, 2, 3, 4, 7, 8, 12, 13, 14, 15, 48, 49, 52, 53]);
    c.add("icmpv6/pkt-too-big", icmpv6(&Icmpv6Repr::PktTooBig { mtu: 1280, header: inner6, data: &u6 }));
    c.add("icmpv6/time-exceeded", icmpv6(&Icmpv6Repr::TimeExceeded { reason: Icmpv6TimeExceeded::HopLimitExceeded, header: inner6, data: &data8 }));
    c.add(
        "icmpv6/param-problem",
        icmpv6(&Icmpv6Repr::ParamProblem { reason: Icmpv6ParamProblem::UnrecognizedOption, pointer: 40, header: inner6, data: &data8 }),
    );
    c.add("icmpv6/rs", icmpv6(&Icmpv6Repr::Ndisc(NdiscRepr::RouterSolicit { lladdr: None })));
    c.add("icmpv6/rs-lladdr", icmpv6(&Icmpv6Repr::Ndisc(NdiscRepr::RouterSolicit { lladdr: Some(raw6) })));
    let ra = icmpv6(&Icmpv6Repr::Ndisc(NdiscRepr::RouterAdvert {
        hop_limit: 64,
        flags: NdiscRouterFlags::MANAGED,
        router_lifetime: Duration::from_secs(1800),
        reachable_time: Duration::from_millis(30_000),
        retrans_time: Duration::from_millis(1000),
        lladdr: Some(raw6),
        mtu: Some(1500),
        prefix_info: Some(pfx),
    }));
    c.add_hot("icmpv6/ra-lladdr-mtu-prefix", ra.clone(), &[0, 1, 4, 5, 16, 17, 18, 24, 25, 26, 32, 33, 34, 35, 36, 63]);
    c.add(
        "icmpv6/ra-bare",
        icmpv6(&Icmpv6Repr::Ndisc(NdiscRepr::RouterAdvert {
            hop_limit: 0,
            flags: NdiscRouterFlags::empty(),
            router_lifetime: Duration::from_secs(0),
            reachable_time: Duration::from_millis(0),
            retrans_time: Duration::from_millis(0),
            lladdr: None,
            mtu: None,
            prefix_info: None,
        })),
    );
    let ns = icmpv6(&Icmpv6Repr::Ndisc(NdiscRepr::NeighborSolicit { target_addr: V6B, lladdr: Some(raw6) }));
    c.add_hot("icmpv6/ns-lladdr", ns.clone(), &[0, 1, 4, 8, 23, 24, 25, 26, 31]);
    c.add("icmpv6/ns-eui64", icmpv6(&Icmpv6Repr::Ndisc(NdiscRepr::NeighborSolicit { target_addr: V6B, lladdr: Some(raw8) })));
    c.add("icmpv6/ns-bare", icmpv6(&Icmpv6Repr::Ndisc(NdiscRepr::NeighborSolicit { target_addr: V6B, lladdr: None })));
    c.add(
        "icmpv6/na-lladdr",
        icmpv6(&Icmpv6Repr::Ndisc(NdiscRepr::NeighborAdvert {
            flags: NdiscNeighborFlags::SOLICITED | NdiscNeighborFlags::OVERRIDE,
            target_addr: V6A,
            lladdr: Some(raw6),
        })),
    );
    c.add_hot(
        "icmpv6/redirect-lladdr-hdr",
        icmpv6(&Icmpv6Repr::Ndisc(NdiscRepr::Redirect { target_addr: V6A, dest_addr: V6G, lladdr: Some(raw6), redirected_hdr: Some(redir) })),
        &[0, 1, 4, 39, 40, 41, 42, 47, 48, 49, 50, 56, 60, 61, 62, 63],
    );
    c.add(
        "icmpv6/redirect-bare",
        icmpv6(&Icmpv6Repr::Ndisc(NdiscRepr::Redirect { target_addr: V6A, dest_addr: V6G, lladdr: None, redirected_hdr: None })),
    );
    let mut srcs = Vec::new();
    srcs.extend_from_slice(&V6G.octets());
    srcs.extend_from_slice(&V6A.octets());
    c.add_hot(
        "icmpv6/mld-query-2src",
        icmpv6(&Icmpv6Repr::Mld(MldRepr::Query { max_resp_code: 0x0400, mcast_addr: V6M, s_flag: true, qrv: 2, qqic: 0x12, num_srcs: 2, data: &srcs })),
        &[0, 1, 4, 5, 6, 7, 8, 24, 25, 26, 27, 28, 43, 44],
    );
    c.add(
        "icmpv6/mld-query-general",
        icmpv6(&Icmpv6Repr::Mld(MldRepr::Query { max_resp_code: 1000, mcast_addr: Ipv6Address::UNSPECIFIED, s_flag: false, qrv: 0, qqic: 0, num_srcs: 0, data: &[] })),
    );
    // report: raw record bytes built through the record emitter
    let rec_a = MldAddressRecordRepr { record_type: MldRecordType::ChangeToInclude, aux_data_len: 0, num_srcs: 1, mcast_addr: V6M, payload: &[] };
    let rec_b = MldAddressRecordRepr::new(MldRecordType::ModeIsExclude, Ipv6Address::new(0xff02, 0, 0, 0, 0, 0, 0, 0xfb));
    let mut recs = vec![0u8; 20 + 16 + 20];
    rec_a.emit(&mut MldAddressRecord::new_unchecked(&mut recs[0..20]));
    recs[20..36].copy_from_slice(&V6G.octets());
    rec_b.emit(&mut MldAddressRecord::new_unchecked(&mut recs[36..56]));
    c.add("mldrecord/with-source", recs[0..36].to_vec());
    c.add("mldrecord/exclude-empty", recs[36..56].to_vec());
    c.add_hot(
        "icmpv6/mld-report-2records",
        icmpv6(&Icmpv6Repr::Mld(MldRepr::Report { nr_mcast_addr_rcrds: 2, data: &recs })),
        &[0, 1, 4, 5, 6, 7, 8, 9, 10, 11, 12, 28, 44, 45, 46, 47],
    );
    {
        // ReportRecordReprs: buffer_len() covers only the fixed header, so size the buffer by hand
        let rr = [rec_b];
        let r = Icmpv6Repr::Mld(MldRepr::ReportRecordReprs(&rr));
        c.add("icmpv6/mld-report-reprs", icmpv6_len(&r, 8 + 20));
    }

    // ---- IPv6 stacks
    let ip6_udp = ipv6(IpProtocol::Udp, &u6);
    let t6 = tcp(&TcpRepr { control: TcpControl::Syn, max_seg_size: Some(1220), ..tcp_base() }, true);
    let ip6_tcp = ipv6(IpProtocol::Tcp, &t6);
    let ip6_icmp = ipv6(IpProtocol::Icmpv6, &ns);
    c.add("ipv6/udp", ip6_udp.clone());
    c.add("ipv6/tcp-syn", ip6_tcp.clone());
    c.add("ipv6/icmpv6-ns", ip6_icmp.clone());
    c.add("ipv6/hbh-icmpv6", ipv6(IpProtocol::HopByHop, &cat2(&ext_hbh, &ic6_echo)));
    c.add("ipv6/empty-nonxt", ipv6(IpProtocol::Ipv6NoNxt, &[]));
    c.add_hot("eth/ipv6/udp", eth(EthernetProtocol::Ipv6, &ip6_udp), &[12, 13, 14, 18, 19, 20, 21, 54, 55, 56, 57, 58, 59, 60, 61]);
    c.add_hot("eth/ipv6/tcp-syn", eth(EthernetProtocol::Ipv6, &ip6_tcp), &[12, 13, 14, 18, 19, 20, 66, 67, 74, 75, 76, 77]);

    // ---- DHCP
    let prl: &[u8] = &[1, 3, 6, 15, 42];
    let dhcp_hot: Vec<usize> = [0usize, 1, 2, 10, 236, 237, 238, 239].into_iter().chain(240..256).collect();
    let extra = [
        DhcpOption { kind: 12, data: b"host" },
        DhcpOption { kind: 58, data: &[0, 0, 0x0e, 0x10] },
        DhcpOption { kind: 59, data: &[0, 0, 0x18, 0x9c] },
    ];
    let discover = dhcp(&DhcpRepr {
        broadcast: true,
        client_identifier: Some(MAC_A),
        max_size: Some(1432),
        parameter_request_list: Some(prl),
        ..dhcp_base(DhcpMessageType::Discover)
    });
    c.add_hot("dhcp/discover", discover.clone(), &dhcp_hot);
    // heapless::Vec<Ipv4Address, 3>, named through FromIterator (heapless is not a direct dependency)
    let dns_list = [Ipv4Address::new(8, 8, 8, 8), Ipv4Address::new(1, 1, 1, 1), Ipv4Address::new(9, 9, 9, 9)];
    let offer_r = DhcpRepr {
        your_ip: V4B,
        server_ip: V4A,
        router: Some(V4A),
        subnet_mask: Some(Ipv4Address::new(255, 255, 255, 0)),
        server_identifier: Some(V4A),
        dns_servers: Some(dns_list.into_iter().collect()),
        lease_duration: Some(3600),
        additional_options: &extra,
        ..dhcp_base(DhcpMessageType::Offer)
    };
    c.add_hot("dhcp/offer-many-options", dhcp(&offer_r), &dhcp_hot);
    c.add_hot("dhcp/ack-many-options", dhcp(&DhcpRepr { message_type: DhcpMessageType::Ack, ..offer_r.clone() }), &dhcp_hot);
    c.add_hot(
        "dhcp/request",
        dhcp(&DhcpRepr {
            requested_ip: Some(V4B),
            server_identifier: Some(V4A),
            client_identifier: Some(MAC_A),
            max_size: Some(576),
            parameter_request_list: Some(prl),
            ..dhcp_base(DhcpMessageType::Request)
        }),
        &dhcp_hot,
    );
    c.add_hot("dhcp/nak", dhcp(&DhcpRepr { server_identifier: Some(V4A), ..dhcp_base(DhcpMessageType::Nak) }), &dhcp_hot);
    c.add_hot(
        "dhcp/decline",
        dhcp(&DhcpRepr { requested_ip: Some(V4B), server_identifier: Some(V4A), ..dhcp_base(DhcpMessageType::Decline) }),
        &dhcp_hot,
    );
    c.add_hot(
        "dhcp/release",
        dhcp(&DhcpRepr { client_ip: V4B, server_identifier: Some(V4A), ..dhcp_base(DhcpMessageType::Release) }),
        &dhcp_hot,
    );
    c.add_hot("dhcp/inform", dhcp(&DhcpRepr { client_ip: V4B, ..dhcp_base(DhcpMessageType::Inform) }), &dhcp_hot);
    {
        // pads before options, sname / file filled, option overload present
        let mut b = discover.clone();
        for (i, x) in b[34..50].iter_mut().enumerate() {
            *x = b'a' + i as u8;
        }
        for (i, x) in b[108..120].iter_mut().enumerate() {
            *x = b'A' + i as u8;
        }
        let opts: Vec<u8> = b[240..].to_vec();
        b.truncate(240);
        b.extend_from_slice(&[0, 0, 52, 1, 3]);
        b.extend_from_slice(&opts);
        c.add_hot("dhcp/discover-pads-sname-file-overload", b, &dhcp_hot);
    }
    c.add_hot("udp/v4/dhcp-discover", udp4(68, 67, &discover), &[0, 1, 2, 3, 4, 5, 6, 7, 8, 9, 10, 244, 245, 246, 247, 248, 249, 250]);

    // ---- DNS
    let qname: &[u8] = b"\x07example\x03com\x00";
    let dq = dns_query(qname, DnsQueryType::A);
    c.add_hot("dns/query-a", dq.clone(), &[2, 3, 4, 5, 6, 7, 12, 13, 20, 21, 24, 25, 26, 27, 28]);
    c.add("dns/query-aaaa-root", dns_query(b"\x00", DnsQueryType::Aaaa));
    c.add("dns/query-long-labels", dns_query(b"\x3fabcdefghijklmnopqrstuvwxyzabcdefghijklmnopqrstuvwxyzabcdefghijk\x01x\x00", DnsQueryType::Cname));
    {
        // response: question + CNAME (compressed target) + A via pointer + AAAA
        let mut b = dq.clone();
        b[2] = 0x81;
        b[3] = 0x80;
        b[7] = 3; // ancount
        // answer 1: name=ptr(12) CNAME ttl rdlen=6 "\x03www" ptr(12)
        b.extend_from_slice(&[0xc0, 0x0c, 0, 5, 0, 1, 0, 0, 0, 60, 0, 6, 3, b'w', b'w', b'w', 0xc0, 0x0c]);
        // answer 2: name=ptr(41 -> "\x03www" ptr 12) A
        b.extend_from_slice(&[0xc0, 41, 0, 1, 0, 1, 0, 0, 0, 60, 0, 4, 93, 184, 216, 34]);
        // answer 3: name=ptr(41) AAAA
        b.extend_from_slice(&[0xc0, 41, 0, 28, 0, 1, 0, 0, 0, 60, 0, 16]);
        b.extend_from_slice(&V6G.octets());
        c.add_hot("dns/response-cname-a-aaaa", b, &[3, 5, 7, 9, 11, 12, 20, 24, 29, 30, 39, 40, 41, 45, 46, 47, 48, 58, 59, 75]);
    }
    {
        // pointer shapes for the termination clause: self, forward, mutual, pointer to pointer
        let hdr = |qd: u8, an: u8| vec![0x12, 0x34, 0x81, 0x80, 0, qd, 0, an, 0, 0, 0, 0];
        let mut b = hdr(1, 0);
        b.extend_from_slice(&[0xc0, 0x0c, 0, 1, 0, 1]);
        c.add("dns/ptr-self", b);
        let mut b = hdr(1, 0);
        b.extend_from_slice(&[0xc0, 0x12, 0, 1, 0, 1, 0x01, b'a', 0x00]);
        c.add("dns/ptr-forward", b);
        let mut b = hdr(1, 1);
        b.extend_from_slice(&[0xc0, 0x12, 0, 1, 0, 1, 0xc0, 0x0c, 0, 1, 0, 1, 0, 0, 0, 1, 0, 4, 1, 2, 3, 4]);
        c.add("dns/ptr-mutual", b);
        let mut b = hdr(1, 1);
        b.extend_from_slice(&[0x01, b'a', 0xc0, 0x10, 0, 1, 0, 1, 0xc0, 0x0e, 0, 1, 0, 1, 0, 0, 0, 1, 0, 4, 1, 2, 3, 4]);
        c.add("dns/ptr-into-label-loop", b);
        let mut b = hdr(2, 0);
        b.extend_from_slice(&[0x01, b'a', 0x00, 0, 1, 0, 1, 0xc0, 0x0c, 0, 28, 0, 1]);
        c.add("dns/two-questions-backptr", b);
        let mut b = hdr(0, 1);
        b.extend_from_slice(&[0x00, 0, 16, 0, 1, 0, 0, 0, 0, 0xff, 0xff, 1, 2]);
        c.add("dns/record-rdlen-oversized", b);
    }
    c.add_hot("udp/v4/dns-query", udp4(53000, 53, &dq), &[0, 1, 2, 3, 4, 5, 6, 7, 10, 11, 12, 13, 14, 15, 20, 21, 28, 29]);

    // ---- IEEE 802.15.4
    let lowpan_payload: Vec<u8> = {
        // IPHC (uncompressed next header = ICMPv6) + echo request
        let r = SixlowpanIphcRepr {
            src_addr: LL_EXT_A.as_link_local_address().unwrap(),
            ll_src_addr: Some(LL_EXT_A),
            dst_addr: LL_EXT_B.as_link_local_address().unwrap(),
            ll_dst_addr: Some(LL_EXT_B),
            next_header: SixlowpanNextHeader::Uncompressed(IpProtocol::Icmpv6),
            ..iphc_base()
        };
        iphc(&r, &ic6_echo)
    };
    c.add("ieee802154/data-ext-ext-compress+iphc", ieee(&ieee_base(), &lowpan_payload));
    c.add(
        "ieee802154/data-short-short",
        ieee(&Ieee802154Repr { dst_addr: Some(Ieee802154Address::BROADCAST), src_addr: Some(LL_SHORT_A), ..ieee_base() }, &data8),
    );
    c.add(
        "ieee802154/data-short-ext-nocompress",
        ieee(
            &Ieee802154Repr {
                pan_id_compression: false,
                dst_addr: Some(LL_SHORT_A),
                src_pan_id: Some(Ieee802154Pan(0x1111)),
                src_addr: Some(LL_EXT_A),
                frame_version: Ieee802154FrameVersion::Ieee802154_2003,
                ..ieee_base()
            },
            &data8,
        ),
    );
    c.add(
        "ieee802154/beacon-nopayload",
        ieee(&Ieee802154Repr { frame_type: Ieee802154FrameType::Beacon, ack_request: false, ..ieee_base() }, &[]),
    );
    c.add(
        "ieee802154/maccommand",
        ieee(&Ieee802154Repr { frame_type: Ieee802154FrameType::MacCommand, ..ieee_base() }, &[0x04]),
    );
    // hand-assembled forms the Repr cannot express
    c.add("ieee802154/ack-imm", vec![0x02, 0x00, 0x2a]);
    c.add("ieee802154/ack-2015-short", vec![0x02, 0x28, 0x2a, 0xcd, 0xab, 0x34, 0x12]);
    c.add("ieee802154/data-2015-no-addr", vec![0x01, 0x20, 0x07, 0xaa, 0xbb]);
    c.add("ieee802154/data-2015-panid-only", vec![0x41, 0x20, 0x07, 0xcd, 0xab, 0xaa]);
    c.add("ieee802154/data-2015-src-only", vec![0x01, 0xa0, 0x07, 0xcd, 0xab, 0x34, 0x12, 0xaa]);
    c.add("ieee802154/data-2003-src-only", vec![0x01, 0x80, 0x07, 0xcd, 0xab, 0x34, 0x12, 0xaa]);
    {
        // secured frames (security enabled bit 3): aux header = control, frame counter, key id, then payload, MIC
        let hdr: Vec<u8> = {
            let mut h = ieee(&ieee_base(), &[]);
            h[0] |= 0x08;
            h
        };
        let mk = |ctl: u8, counter: bool, keyid: &[u8], payload: &[u8], mic: usize| {
            let mut b = hdr.clone();
            b.push(ctl);
            if counter {
                b.extend_from_slice(&[1, 0, 0, 0]);
            }
            b.extend_from_slice(keyid);
            b.extend_from_slice(payload);
            b.extend(std::iter::repeat(0x5a).take(mic));
            b
        };
        let n = hdr.len();
        let hot: Vec<usize> = [0usize, 1, 2].into_iter().chain(n..n + 16).collect();
        c.add_hot("ieee802154/sec-lvl5-keymode1", mk(0x05 | (1 << 3), true, &[0x01], &data8, 4), &hot);
        c.add_hot("ieee802154/sec-lvl6-keymode2", mk(0x06 | (2 << 3), true, &[1, 2, 3, 4, 9], &data8, 8), &hot);
        c.add_hot("ieee802154/sec-lvl7-keymode3", mk(0x07 | (3 << 3), true, &[1, 2, 3, 4, 5, 6, 7, 8, 9], &data8, 16), &hot);
        c.add_hot("ieee802154/sec-lvl4-keymode0", mk(0x04, true, &[], &data8, 0), &hot);
        c.add_hot("ieee802154/sec-lvl1-nocounter-keymode1", mk(0x01 | (1 << 3) | 0x20, false, &[0x07], &data8, 4), &hot);
        c.add_hot("ieee802154/sec-lvl0-nocounter-keymode0", mk(0x20, false, &[], &data8, 0), &hot);
        // secured frames without any addressing field (2015 frame version, no PAN id compression)
        let mk2 = |fc0: u8, ctl: u8, counter: bool, keyid: &[u8], payload: &[u8], mic: usize| {
            let mut b = vec![fc0 | 0x08, 0x20, 0x07, ctl];
            if counter {
                b.extend_from_slice(&[1, 0, 0, 0]);
            }
            b.extend_from_slice(keyid);
            b.extend_from_slice(payload);
            b.extend(std::iter::repeat(0x5a).take(mic));
            b
        };
        c.add("ieee802154/sec-noaddr-lvl7-keymode3", mk2(0x01, 0x07 | (3 << 3), true, &[1, 2, 3, 4, 5, 6, 7, 8, 9], &data8, 16));
        c.add("ieee802154/sec-noaddr-lvl2-keymode1", mk2(0x01, 0x02 | (1 << 3), true, &[3], &[], 8));
        c.add("ieee802154/sec-noaddr-lvl3-nocounter", mk2(0x01, 0x03 | 0x20, false, &[], &[], 16));
        c.add("ieee802154/sec-noaddr-lvl1-nocounter-keymode2-ack", mk2(0x02, 0x01 | (2 << 3) | 0x20, false, &[1, 2, 3, 4, 5], &[], 4));
    }

    // ---- 6LoWPAN IPHC
    c.add("iphc/ll-elided-both-ext", lowpan_payload.clone());
    c.add(
        "iphc/ll-short-elided",
        iphc(
            &SixlowpanIphcRepr {
                src_addr: Ipv6Address::new(0xfe80, 0, 0, 0, 0, 0xff, 0xfe00, 0x1234),
                ll_src_addr: Some(LL_SHORT_A),
                dst_addr: Ipv6Address::new(0xfe80, 0, 0, 0, 0, 0xff, 0xfe00, 0x5678),
                ll_dst_addr: None,
                hop_limit: 255,
                ..iphc_base()
            },
            &u6,
        ),
    );
    c.add("iphc/ll-64bit-inline", iphc(&SixlowpanIphcRepr { hop_limit: 1, ..iphc_base() }, &u6));
    c.add(
        "iphc/global-full-inline",
        iphc(&SixlowpanIphcRepr { src_addr: V6G, dst_addr: Ipv6Address::new(0x2001, 0xdb8, 0, 0, 0, 0, 0, 0x77), hop_limit: 17, ..iphc_base() }, &u6),
    );
    c.add(
        "iphc/unspecified-src-mcast8",
        iphc(
            &SixlowpanIphcRepr { src_addr: Ipv6Address::UNSPECIFIED, dst_addr: V6M, next_header: SixlowpanNextHeader::Uncompressed(IpProtocol::Icmpv6), ..iphc_base() },
            &ns,
        ),
    );
    c.add("iphc/mcast32", iphc(&SixlowpanIphcRepr { dst_addr: Ipv6Address::new(0xff05, 0, 0, 0, 0, 0, 0x0001, 0x0003), ..iphc_base() }, &u6));
    c.add("iphc/mcast48", iphc(&SixlowpanIphcRepr { dst_addr: Ipv6Address::new(0xff0e, 0, 0, 0, 0, 0x0011, 0x2233, 0x4455), ..iphc_base() }, &u6));
    c.add("iphc/mcast-full", iphc(&SixlowpanIphcRepr { dst_addr: Ipv6Address::new(0xff0e, 1, 2, 3, 4, 5, 6, 7), ..iphc_base() }, &u6));
    let nhc_u = nhc_udp(0xf0b1, 0xf0b2, data13);
    c.add(
        "iphc/nh-compressed+udp-nhc",
        iphc(&SixlowpanIphcRepr { next_header: SixlowpanNextHeader::Compressed, ..iphc_base() }, &nhc_u),
    );
    // hand-assembled: traffic class / flow label forms, context identifier extension
    c.add("iphc/raw-tf00-nh-inline", {
        let mut b = vec![0x60 | 0x02, 0x33, 0x40 | 0x05, 0x01, 0x23, 0x45, 17];
        b.extend_from_slice(&u6);
        b
    });
    c.add("iphc/raw-tf01", {
        let mut b = vec![0x60 | 0x08 | 0x02, 0x33, 0x80 | 0x0a, 0xbc, 0xde, 58];
        b.extend_from_slice(&ic6_echo);
        b
    });
    c.add("iphc/raw-tf10-hlim-inline", {
        let mut b = vec![0x60 | 0x10, 0x33, 0x2e, 17, 33];
        b.extend_from_slice(&u6);
        b
    });
    c.add("iphc/raw-cid-sac-dac-64", {
        // CID=1 SAC=1 SAM=01 DAC=1 DAM=01, tf=11, nh inline, hlim=64
        let mut b = vec![0x60 | 0x18 | 0x02, 0x80 | 0x40 | 0x10 | 0x04 | 0x01, 0x01, 17];
        b.extend_from_slice(&[1, 2, 3, 4, 5, 6, 7, 8]);
        b.extend_from_slice(&[9, 10, 11, 12, 13, 14, 15, 16]);
        b.extend_from_slice(&u6);
        b
    });
    c.add("iphc/raw-cid-sac-dac-16", {
        let mut b = vec![0x60 | 0x18 | 0x02, 0x80 | 0x40 | 0x20 | 0x04 | 0x02, 0x10, 17, 0xaa, 0xbb, 0xcc, 0xdd];
        b.extend_from_slice(&u6);
        b
    });
    c.add("iphc/raw-cid-elided-ctx", vec![0x60 | 0x18 | 0x02, 0x80 | 0x40 | 0x30 | 0x04 | 0x03, 0x00, 59]);
    c.add("iphc/raw-mcast-dac-unicast-prefix", vec![0x7a, 0x33 | 0x0c, 17, 1, 2, 3, 4, 5, 6, 9, 9]);

    // ---- 6LoWPAN NHC
    c.add("nhc-ext/hbh-nh-inline", nhc_ext(SixlowpanExtHeaderId::HopByHopHeader, SixlowpanNextHeader::Uncompressed(IpProtocol::Icmpv6), &hbh_opts));
    c.add("nhc-ext/hbh-nh-compressed+udp", cat2(&nhc_ext(SixlowpanExtHeaderId::HopByHopHeader, SixlowpanNextHeader::Compressed, &[0x01, 0x04, 0, 0, 0, 0]), &nhc_u));
    c.add(
        "nhc-ext/routing",
        nhc_ext(
            SixlowpanExtHeaderId::RoutingHeader,
            SixlowpanNextHeader::Uncompressed(IpProtocol::Udp),
            &routing_hdr(&Ipv6RoutingRepr::Rpl { segments_left: 1, cmpr_i: 14, cmpr_e: 14, pad: 2, addresses: &[0, 2, 0, 0] }),
        ),
    );
    c.add("nhc-ext/fragment", nhc_ext(SixlowpanExtHeaderId::FragmentHeader, SixlowpanNextHeader::Uncompressed(IpProtocol::Udp), &[0, 0, 0, 1, 0, 0, 0, 7]));
    c.add("nhc-ext/dstopts-empty", nhc_ext(SixlowpanExtHeaderId::DestinationOptionsHeader, SixlowpanNextHeader::Compressed, &[]));
    c.add("nhc-ext/mobility", nhc_ext(SixlowpanExtHeaderId::MobilityHeader, SixlowpanNextHeader::Compressed, &[1, 2]));
    c.add("nhc-ext/ipv6-header", nhc_ext(SixlowpanExtHeaderId::Header, SixlowpanNextHeader::Compressed, &[0x7a, 0x33, 17]));
    c.add("nhc-udp/ports-4bit", nhc_u.clone());
    c.add("nhc-udp/src-8bit", nhc_udp(0xf012, 5683, data13));
    c.add("nhc-udp/dst-8bit", nhc_udp(5683, 0xf034, data13));
    c.add("nhc-udp/ports-inline", nhc_udp(5683, 5684, data13));
    c.add("nhc-udp/raw-checksum-elided-4bit", vec![0xf0 | 0x04 | 0x03, 0x12, 1, 2, 3]);
    c.add("nhc-udp/raw-checksum-elided-inline", vec![0xf0 | 0x04, 0x16, 0x33, 0x16, 0x34, 1, 2, 3]);

    // ---- 6LoWPAN fragments
    c.add("lowpan-frag/first", lowpan_frag(&SixlowpanFragRepr::FirstFragment { size: 307, tag: 0x63 }, &lowpan_payload));
    c.add("lowpan-frag/nth", lowpan_frag(&SixlowpanFragRepr::Fragment { size: 307, tag: 0x63, offset: 17 }, &data8));
    c.add("lowpan-frag/nth-no-payload", lowpan_frag(&SixlowpanFragRepr::Fragment { size: 2047, tag: 0xffff, offset: 255 }, &[]));
    {
        let r = Ieee802154Repr { dst_addr: Some(LL_SHORT_A), src_addr: Some(Ieee802154Address::Short([0, 1])), ..ieee_base() };
        c.add("ieee802154/short-short+frag1+iphc", ieee(&r, &lowpan_frag(&SixlowpanFragRepr::FirstFragment { size: 100, tag: 1 }, &lowpan_payload)));
    }

    // ---- long packets (lengths up to the 2048 bound of the property)
    {
        let big: Vec<u8> = (0..2048 - 14 - 20 - 8).map(|i| (i * 7 + 3) as u8).collect();
        let e = eth(EthernetProtocol::Ipv4, &ipv4(IpProtocol::Udp, &udp4(4000, 4001, &big)));
        assert_eq!(e.len(), 2048);
        c.add_hot("long/eth-ipv4-udp-2048", e, &[12, 13, 14, 16, 17, 20, 21, 23, 24, 25, 34, 35, 36, 37, 38, 39, 40, 41]);
        let big6: Vec<u8> = (0..2048 - 40 - 8).map(|i| (i * 5 + 1) as u8).collect();
        let p = ipv6(IpProtocol::Icmpv6, &icmpv6(&Icmpv6Repr::EchoRequest { ident: 9, seq_no: 9, data: &big6 }));
        assert_eq!(p.len(), 2048);
        c.add_hot("long/ipv6-icmpv6-echo-2048", p, &[0, 4, 5, 6, 7, 40, 41, 42, 43, 44, 45, 46, 47]);
        let big_t: Vec<u8> = (0..2048 - 20).map(|i| (i * 3) as u8).collect();
        let t = tcp(&TcpRepr { ack_number: Some(TcpSeqNumber(5)), payload: &big_t, ..tcp_base() }, false);
        assert_eq!(t.len(), 2048);
        c.add_hot("long/tcp-2048", t, &[0, 1, 2, 3, 12, 13, 14, 15, 16, 17, 18, 19, 20, 21]);
    }

    c.v
}
