//! SimDevice: in-memory `phy::Device` owned by the explorer. Records every buffer handed to
//! `TxToken::consume`, can refuse `transmit()` (back-pressure), configurable MTU / checksum
//! capabilities / burst size. Plus small helpers shared by the network harnesses.

use smoltcp::phy::{self, ChecksumCapabilities, Device, DeviceCapabilities, Medium};
use smoltcp::time::Instant;
use std::collections::VecDeque;

pub struct SimDevice {
    pub medium: Medium,
    pub mtu: usize,
    pub checksum: ChecksumCapabilities,
    pub max_burst: Option<usize>,
    pub rx: VecDeque<Vec<u8>>,
    /// frames handed to the device, with the timestamp smoltcp passed to transmit/receive
    pub tx: Vec<(i64, Vec<u8>)>,
    /// None = unlimited; Some(n) = at most n more successful `transmit()` calls
    pub tx_budget: Option<usize>,
    /// counts how many times transmit() was refused
    pub refused: usize,
}

impl SimDevice {
    pub fn new(medium: Medium, mtu: usize) -> SimDevice {
        SimDevice {
            medium,
            mtu,
            checksum: ChecksumCapabilities::default(),
            max_burst: None,
            rx: VecDeque::new(),
            tx: Vec::new(),
            tx_budget: None,
            refused: 0,
        }
    }
    pub fn take_tx(&mut self) -> Vec<(i64, Vec<u8>)> {
        std::mem::take(&mut self.tx)
    }
}

pub struct SimRx(Vec<u8>);
pub struct SimTx<'a> {
    tx: &'a mut Vec<(i64, Vec<u8>)>,
    ts: i64,
}

impl phy::RxToken for SimRx {
    fn consume<R, F>(self, f: F) -> R
    where
        F: FnOnce(&[u8]) -> R,
    {
        f(&self.0)
    }
}
impl<'a> phy::TxToken for SimTx<'a> {
    fn consume<R, F>(self, len: usize, f: F) -> R
    where
        F: FnOnce(&mut [u8]) -> R,
    {
        if self.tx.len() >= 20_000 {
            // a single poll never legitimately emits this many frames: smoltcp is looping
            panic!("HANG: Interface::poll keeps transmitting without returning (>20000 frames handed to the device since the harness last looked)");
        }
        let mut buf = vec![0u8; len];
        let r = f(&mut buf);
        self.tx.push((self.ts, buf));
        r
    }
}

impl Device for SimDevice {
    type RxToken<'a> = SimRx;
    type TxToken<'a> = SimTx<'a>;
    fn capabilities(&self) -> DeviceCapabilities {
        let mut c = DeviceCapabilities::default();
        c.medium = self.medium;
        c.max_transmission_unit = self.mtu;
        c.max_burst_size = self.max_burst;
        c.checksum = self.checksum.clone();
        c
    }
    fn receive(&mut self, ts: Instant) -> Option<(SimRx, SimTx<'_>)> {
        let f = self.rx.pop_front()?;
        Some((SimRx(f), SimTx { tx: &mut self.tx, ts: ts.total_micros() }))
    }
    fn transmit(&mut self, ts: Instant) -> Option<SimTx<'_>> {
        match self.tx_budget {
            Some(0) => {
                self.refused += 1;
                None
            }
            Some(ref mut n) => {
                *n -= 1;
                Some(SimTx { tx: &mut self.tx, ts: ts.total_micros() })
            }
            None => Some(SimTx { tx: &mut self.tx, ts: ts.total_micros() }),
        }
    }
}

// ---------------------------------------------------------------------------------------
// sPCG32 inversion: choose the n-th PRNG output through Config::random_seed
// ---------------------------------------------------------------------------------------

const PCG_M: u64 = 0xbb2efcec3c39611d;
const PCG_A: u64 = 0x7590ef39;

fn modinv(a: u64) -> u64 {
    // Newton iteration for the inverse of an odd number modulo 2^64
    let mut x = a;
    for _ in 0..6 {
        x = x.wrapping_mul(2u64.wrapping_sub(a.wrapping_mul(x)));
    }
    x
}
fn pcg_out(s: u64) -> u32 {
    (s >> (29 - (s >> 61))) as u32
}
fn pcg_step(s: u64) -> u64 {
    s.wrapping_mul(PCG_M).wrapping_add(PCG_A)
}

/// Returns a seed such that the `draw`-th (1-based) call of rand_u32 returns `want`,
/// assuming the earlier draws do not loop (Interface::new retries on zero values; the
/// caller verifies the result on the wire and tries the next `salt` otherwise).
pub fn seed_for_nth_output(want: u32, draw: u32, salt: u64) -> u64 {
    // rand_u32: state = state*M + A ; output computed from the NEW state.
    // choose new state s with (s >> (29 - (s>>61))) as u32 == want; take top3 = 0 => shift 29
    let top3 = 0u64;
    let s = (top3 << 61) | ((want as u64) << 29) | (salt & ((1 << 29) - 1));
    debug_assert_eq!(pcg_out(s), want);
    let minv = modinv(PCG_M);
    let mut st = s;
    for _ in 0..draw {
        st = st.wrapping_sub(PCG_A).wrapping_mul(minv);
    }
    // sanity: forward
    let mut f = st;
    for _ in 0..draw {
        f = pcg_step(f);
    }
    debug_assert_eq!(f, s);
    st
}

pub fn hex(b: &[u8]) -> String {
    let mut s = String::with_capacity(b.len() * 2);
    for x in b {
        s.push_str(&format!("{:02x}", x));
    }
    s
}
pub fn unhex(s: &str) -> Vec<u8> {
    let s: Vec<u8> = s.bytes().filter(|c| c.is_ascii_hexdigit()).collect();
    s.chunks(2)
        .filter(|c| c.len() == 2)
        .map(|c| u8::from_str_radix(std::str::from_utf8(c).unwrap(), 16).unwrap())
        .collect()
}
