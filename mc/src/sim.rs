//! stub
