use mc::core::*;

fn usage() -> ! {
    eprintln!("usage: mc <ID> [--tier quick|thorough] [--replay <file>]");
    std::process::exit(2)
}

fn main() {
    let args: Vec<String> = std::env::args().collect();
    if args.len() < 2 {
        usage();
    }
    let id = args[1].clone();
    let mut tier = match std::env::var("VERIF_TIER").as_deref() {
        Ok("thorough") => Tier::Thorough,
        _ => Tier::Quick,
    };
    let mut replay: Option<String> = None;
    let mut i = 2;
    while i < args.len() {
        match args[i].as_str() {
            "--tier" => {
                i += 1;
                tier = match args.get(i).map(|s| s.as_str()) {
                    Some("quick") => Tier::Quick,
                    Some("thorough") => Tier::Thorough,
                    _ => usage(),
                }
            }
            "--replay" => {
                i += 1;
                replay = Some(args.get(i).cloned().unwrap_or_else(|| usage()));
            }
            _ => usage(),
        }
        i += 1;
    }
    install_quiet_panic_hook();
    let threads = std::env::var("VERIF_THREADS").ok().and_then(|s| s.parse().ok()).unwrap_or(16usize);
    rayon::ThreadPoolBuilder::new().num_threads(threads).stack_size(64 << 20).build_global().ok();
    let art = replay.map(|p| {
        let s = std::fs::read_to_string(&p).unwrap_or_else(|e| {
            eprintln!("cannot read {}: {}", p, e);
            std::process::exit(2)
        });
        serde_json::from_str::<serde_json::Value>(&s).unwrap_or_else(|e| {
            eprintln!("bad artefact {}: {}", p, e);
            std::process::exit(2)
        })
    });
    let id2 = id.clone();
    let r = std::panic::catch_unwind(std::panic::AssertUnwindSafe(|| run_check(&id, tier, art)));
    let code = match r {
        Ok(c) => c,
        Err(e) => {
            // a panic escaped a harness: if it was raised inside the subject (absolute source
            // path) it is a finding about the subject that the harness failed to localise;
            // otherwise the machinery itself is broken
            let loc = last_panic_loc();
            let msg = panic_msg(e);
            if loc.starts_with('/') {
                let dir = verif_dir().join("out").join(&id2);
                let _ = std::fs::create_dir_all(&dir);
                let path = dir.join("escaped-panic.json");
                let art = serde_json::json!({"property": id2, "signature": format!("panic/{}", panic_site()),
                    "detail": format!("panic escaped the harness: {} at {}", msg, loc), "replay": {"note": "re-run the check; the harness did not isolate the failing case"}});
                let _ = std::fs::write(&path, serde_json::to_string_pretty(&art).unwrap());
                println!("VIOLATION property={} replay={}", id2, path.display());
                println!("  signature: panic/{}", panic_site());
                println!("  detail: panic escaped the harness: {} at {}", msg, loc);
                1
            } else {
                eprintln!("MACHINERY ERROR: harness panicked: {} at {}", msg, loc);
                2
            }
        }
    };
    std::process::exit(code);
}

fn run_check(id: &str, tier: Tier, art: Option<serde_json::Value>) -> i32 {
    let code = match (id, art) {
        #[cfg(feature = "m_asm")]
        ("C15", None) => mc::asm::run(tier),
        #[cfg(feature = "m_asm")]
        ("C15", Some(a)) => mc::asm::replay(&a),
        #[cfg(feature = "m_ring")]
        ("C14", None) => mc::ring::run(tier),
        #[cfg(feature = "m_ring")]
        ("C14", Some(a)) => mc::ring::replay(&a),
        #[cfg(feature = "m_tcp2")]
        ("C01", None) => mc::tcp2::run_c01(tier),
        #[cfg(feature = "m_tcp2")]
        ("C01", Some(a)) => mc::tcp2::replay_c01(&a),
        #[cfg(all(feature = "m_tcp2", not(feature = "m_tcpsend")))]
        ("C02", None) => mc::tcp2::run_c02(tier),
        #[cfg(all(feature = "m_tcp2", not(feature = "m_tcpsend")))]
        ("C02", Some(a)) => mc::tcp2::replay_c02(&a),
        #[cfg(feature = "m_tcpsend")]
        ("C02", None) => mc::tcpsend::run_c02(tier),
        #[cfg(feature = "m_tcpsend")]
        ("C02", Some(a)) => mc::tcpsend::replay_c02(&a),
        #[cfg(feature = "m_tcp1")]
        ("C04", None) => mc::tcp1::run_c04(tier),
        #[cfg(feature = "m_tcp1")]
        ("C04", Some(a)) => mc::tcp1::replay_c04(&a),
        #[cfg(feature = "m_tcp1")]
        ("C17", None) => mc::tcp1::run_c17(tier),
        #[cfg(feature = "m_tcp1")]
        ("C17", Some(a)) => mc::tcp1::replay_c17(&a),
        #[cfg(feature = "m_tcpsend")]
        ("C05", None) => mc::tcpsend::run(tier),
        #[cfg(feature = "m_tcpsend")]
        ("C05", Some(a)) => mc::tcpsend::replay(&a),
        #[cfg(feature = "m_wire_rt")]
        ("C06", None) => mc::wire_rt::run(tier),
        #[cfg(feature = "m_wire_rt")]
        ("C06", Some(a)) => mc::wire_rt::replay(&a),
        #[cfg(feature = "m_wire_np")]
        ("C07", None) => mc::wire_np::run(tier),
        #[cfg(feature = "m_wire_np")]
        ("C07", Some(a)) => mc::wire_np::replay(&a),
        #[cfg(feature = "m_cksum")]
        ("C08", None) => mc::cksum::run(tier),
        #[cfg(feature = "m_cksum")]
        ("C08", Some(a)) => mc::cksum::replay(&a),
        #[cfg(feature = "m_frames")]
        ("C03", None) => mc::frames::run(tier),
        #[cfg(feature = "m_frames")]
        ("C03", Some(a)) => mc::frames::replay(&a),
        #[cfg(feature = "m_dgram")]
        ("C09", None) => mc::dgram::run(tier),
        #[cfg(feature = "m_dgram")]
        ("C09", Some(a)) => mc::dgram::replay(&a),
        #[cfg(feature = "m_egress")]
        ("C10", None) => mc::egress::run(tier),
        #[cfg(feature = "m_egress")]
        ("C10", Some(a)) => mc::egress::replay(&a),
        #[cfg(feature = "m_addr")]
        ("C11", None) => mc::addr::run(tier),
        #[cfg(feature = "m_addr")]
        ("C11", Some(a)) => mc::addr::replay(&a),
        #[cfg(feature = "m_frag4")]
        ("C12", None) => mc::frag4::run(tier),
        #[cfg(feature = "m_frag4")]
        ("C12", Some(a)) => mc::frag4::replay(&a),
        #[cfg(feature = "m_pollat")]
        ("C13", None) => mc::pollat::run(tier),
        #[cfg(feature = "m_pollat")]
        ("C13", Some(a)) => mc::pollat::replay(&a),
        #[cfg(feature = "m_neigh")]
        ("C16", None) => mc::neigh::run(tier),
        #[cfg(feature = "m_neigh")]
        ("C16", Some(a)) => mc::neigh::replay(&a),
        #[cfg(feature = "m_dhcp")]
        ("C18", None) => mc::dhcp::run(tier),
        #[cfg(feature = "m_dhcp")]
        ("C18", Some(a)) => mc::dhcp::replay(&a),
        #[cfg(feature = "m_dns")]
        ("C19", None) => mc::dns::run(tier),
        #[cfg(feature = "m_dns")]
        ("C19", Some(a)) => mc::dns::replay(&a),
        #[cfg(feature = "m_lowpan")]
        ("C20", None) => mc::lowpan::run(tier),
        #[cfg(feature = "m_lowpan")]
        ("C20", Some(a)) => mc::lowpan::replay(&a),
        _ => {
            eprintln!("unknown property {}", id);
            2
        }
    };
    code
}
