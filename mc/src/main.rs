mod asm;
mod core;
mod ring;

use crate::core::*;

fn usage() -> ! {
    eprintln!("usage: mc <ID> [--tier quick|thorough] [--replay <file>]");
    std::process::exit(2)
}

fn main() {
    let args: Vec<String> = std::env::args().collect();
    if args.len() < 2 {
        usage();
    }
    let id = args[1].clone();
    let mut tier = match std::env::var("VERIF_TIER").as_deref() {
        Ok("thorough") => Tier::Thorough,
        _ => Tier::Quick,
    };
    let mut replay: Option<String> = None;
    let mut i = 2;
    while i < args.len() {
        match args[i].as_str() {
            "--tier" => {
                i += 1;
                tier = match args.get(i).map(|s| s.as_str()) {
                    Some("quick") => Tier::Quick,
                    Some("thorough") => Tier::Thorough,
                    _ => usage(),
                }
            }
            "--replay" => {
                i += 1;
                replay = Some(args.get(i).cloned().unwrap_or_else(|| usage()));
            }
            _ => usage(),
        }
        i += 1;
    }
    install_quiet_panic_hook();
    let threads = std::env::var("VERIF_THREADS").ok().and_then(|s| s.parse().ok()).unwrap_or(16usize);
    rayon::ThreadPoolBuilder::new().num_threads(threads).stack_size(64 << 20).build_global().ok();
    let art = replay.map(|p| {
        let s = std::fs::read_to_string(&p).unwrap_or_else(|e| {
            eprintln!("cannot read {}: {}", p, e);
            std::process::exit(2)
        });
        serde_json::from_str::<serde_json::Value>(&s).unwrap_or_else(|e| {
            eprintln!("bad artefact {}: {}", p, e);
            std::process::exit(2)
        })
    });
    let code = match (id.as_str(), art) {
        ("C15", None) => asm::run(tier),
        ("C15", Some(a)) => asm::replay(&a),
        ("C14", None) => ring::run(tier),
        ("C14", Some(a)) => ring::replay(&a),
        _ => {
            eprintln!("unknown property {}", id);
            2
        }
    };
    std::process::exit(code);
}
