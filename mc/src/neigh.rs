//! C16 — link-layer addressing: unicast IP packets go only to the hardware address learned for
//! their next hop; discovery is rate limited; learned addresses stop being used after 60 s
//! without confirmation; socket data waits for resolution and is not lost.
//!
//! Explicit-state BFS (core::bfs) over event histories executed on a REAL `Interface` with real
//! `udp::Socket`s on a `SimDevice` (Ethernet+IPv4/ARP, Ethernet+IPv6/NDISC, IEEE 802.15.4+
//! 6LoWPAN/NDISC).  A state is the history of events; it is replayed on a fresh interface.
//!
//! Reference model (independent of smoltcp): own addresses, a longest-prefix route table with
//! expiry, a table IP -> {(hardware address, time of last eligible assertion/confirmation)}
//! fed only by eligible messages, and one FIFO per socket of accepted, not yet transmitted
//! datagrams.  Oracle: every frame handed to the device is parsed by `neigh::parse` (no
//! smoltcp::wire) and judged against the model; see `NeighH::check_frame`.
//!
//! Progress ("socket data stays queued ... the gateway of the longest-prefix unexpired matching
//! route"): see `NeighH::poll` — a poll during which nothing is rate limited and the socket is
//! not backing off must either transmit the socket's oldest datagram or ask for its next hop
//! whenever the model has a next hop (on-link or an unexpired matching route). This is what
//! exposes a route lookup that wrongly answers "no route". Configurations `routing` and
//! `routes2` hold overlapping routes (/24 or /64, /16 or /48, default) with lifetimes 60 s and
//! 120 s via the same and via different gateways; `frag2` has a second neighbor whose oversized
//! echo request competes for the single fragmentation buffer while fragments are pending.
//!
//! Discovery requests themselves (`NeighH::discovery`): an ARP request must name as sender an own
//! address on the target's subnet when there is one (configuration `twonet`: two IPv4 subnets,
//! scripted neighbors answer only senders inside their own subnet); a neighbor solicitation
//! must come from an own unicast address. `twonet` and `routing` also send to off-link unicast
//! destinations whose host part is all ones / all zeros under our masks (/24, /20).
//!
//! Validity of NDISC messages (configuration `hoplimit`, IPv6 media): NA (solicited/unsolicited,
//! Override set/clear) and NS with a source link-layer option that carry a neighbor's or the
//! gateway's IPv6 source and a DIFFERENT hardware address, with hop limit 64 or 1 (forwarded
//! from off-link), ICMPv6 code 1 or a bad checksum, teach the model nothing (RFC 4861 7.1.1 /
//! 7.1.2: silently discard); the same messages with hop limit 255 are the ordinary
//! ReplyAlt / NaNoOverride / RequestAlt / Announce events. Using such an address shows up as
//! `C16/hwaddr/<med>/ineligible-hop-limit-not-255` (resp. `-icmp-code-not-0`, `-bad-checksum`).
//!
//! Time: every frame is judged at the time the harness passed to the interface call during
//! which it left, not at the timestamp the stack hands to the device (a stale stamp is counted,
//! only a future / never-used one is a machinery error). `rate-split` and `expiry-split` repeat
//! those alphabets with the lower-level driving discipline (poll_ingress_single per frame, then
//! poll_egress until quiet) instead of Interface::poll.
//! NA with a target different from its IPv6 source (configuration `natarget`, IPv6 media): the
//! entry concerned is the SOURCE's (pinned from process_ndisc); with Override it is replaced,
//! without Override an unexpired entry must stay as it is (strict there, see
//! `NeighCfg::strict_no_override`), cause `ineligible-override-clear-while-entry-live`.
//!
//! Lenient readings (statement leaves room; each can only accept more behaviours):
//!  * "confirmed": any eligible assertion, or any IP packet addressed to one of our unicast
//!    addresses whose IP source is the neighbor and whose link-layer source equals the asserted
//!    address (this is what the code refreshes on), even if the last confirmation is older than
//!    60 s ("resurrection": traffic from the neighbor at t confirms the address from t on).
//!  * the model never forgets an assertion on an address change (the code flushes its cache).
//!  * messages the RFCs allow a cache to take or leave (gratuitous ARP, NA without Override
//!    while an entry exists) ADD an acceptable address without removing the current one.
//!  * a route whose expiry instant equals the frame time may count as expired or not; two
//!    matching routes with the same prefix length: either gateway is accepted.
//!  * rate limit: only two requests for the SAME target less than 1 s apart are a violation;
//!    the global minimum gap between any two requests is recorded as evidence.
//!  * eligibility of a message: unicast hardware address, unicast protocol source that lies in
//!    one of our subnets at the time of reception (the code checks the latter for ARP only; for
//!    NDISC an off-link source can only create an entry that is never a next hop in the
//!    configurations explored here, so the difference is unobservable).

pub mod parse;
mod stim;

use crate::core::*;
use crate::sim::*;
use parse::*;
use serde_json::json;
use smoltcp::iface::{Config, Interface, PollResult, Route, SocketHandle, SocketSet};
use smoltcp::phy::Medium;
use smoltcp::socket::{icmp, udp};
use smoltcp::time::Instant;
use smoltcp::wire::{
    EthernetAddress, HardwareAddress, Ieee802154Address, Ieee802154Pan, IpAddress, IpCidr, IpEndpoint, Ipv4Address, Ipv6Address,
};
use std::collections::{BTreeMap, BTreeSet, VecDeque};
use std::sync::{Arc, Mutex};

const SEC: i64 = 1_000_000;
const LIFETIME: i64 = 60 * SEC;
const MIN_GAP: i64 = SEC;
const T0: i64 = 100 * SEC;
const PAN: u16 = 0xabcd;
const SOCK_PORT: u16 = 5000;
const PEER_PORT: u16 = 6000;
const ROUTE_LIFETIME: i64 = 60 * SEC;
const ICMP_LEN: usize = 9;
const BIG_ETH_MTU: usize = 114;
fn big_len(med: Med) -> usize {
    if med.is_eth() {
        200
    } else {
        250
    }
}

// ---------------------------------------------------------------------------------------
// world
// ---------------------------------------------------------------------------------------

#[derive(Clone, Copy, Debug, PartialEq, Eq, PartialOrd, Ord, Hash)]
pub enum Med {
    EthV4,
    EthV6,
    LowV6,
}
impl Med {
    fn name(self) -> &'static str {
        match self {
            Med::EthV4 => "eth-ipv4",
            Med::EthV6 => "eth-ipv6",
            Med::LowV6 => "154-ipv6",
        }
    }
    fn is_v4(self) -> bool {
        self == Med::EthV4
    }
    fn is_eth(self) -> bool {
        self != Med::LowV6
    }
}

#[derive(Clone, Copy, Debug, PartialEq, Eq, PartialOrd, Ord, Hash)]
pub enum Node {
    N1,
    N2,
    N3,
    G1,
    G2,
    /// IPv4 two-subnet configurations only: a neighbor on our FIRST subnet (172.20.0.0/20);
    /// all other nodes live on 192.168.1.0/24
    M1,
}
const NODES: [Node; 6] = [Node::N1, Node::N2, Node::N3, Node::G1, Node::G2, Node::M1];

#[derive(Clone, Copy, Debug, PartialEq, Eq, PartialOrd, Ord, Hash)]
pub enum Dst {
    N1,
    N2,
    N3,
    /// off-link, covered by the default route only
    R1,
    /// off-link, covered by the default route and by the (expiring) specific route via G2
    R2,
    /// the neighbor on the first subnet of the two-subnet configurations
    M1,
    /// off-link unicast whose host part under a /24 mask is all ones: 10.9.8.255
    RB1,
    /// off-link unicast whose host part under a /20 (and /24) mask is all ones: 10.9.15.255
    RB2,
    /// off-link unicast whose host part under a /24 mask is all zeros: 10.9.8.0
    RZ,
}

#[derive(Clone, Copy, Debug, PartialEq, Eq, PartialOrd, Ord, Hash)]
pub enum AddrState {
    Base,
    SameNet,
    OtherNet,
}

fn v4(a: u8, b: u8, c: u8, d: u8) -> Ip {
    Ip::V4([a, b, c, d])
}
fn v6(s: [u16; 8]) -> Ip {
    let mut b = [0u8; 16];
    for i in 0..8 {
        b[2 * i..2 * i + 2].copy_from_slice(&s[i].to_be_bytes());
    }
    Ip::V6(b)
}
fn smol(ip: &Ip) -> IpAddress {
    match ip {
        Ip::V4(b) => IpAddress::Ipv4(Ipv4Address::new(b[0], b[1], b[2], b[3])),
        Ip::V6(b) => IpAddress::Ipv6(Ipv6Address::from(*b)),
    }
}

fn node_code(n: Node) -> u8 {
    match n {
        Node::N1 => 0x11,
        Node::N2 => 0x12,
        Node::N3 => 0x13,
        Node::G1 => 0xa1,
        Node::G2 => 0xa2,
        Node::M1 => 0xb1,
    }
}

fn our_hw(med: Med) -> Vec<u8> {
    if med.is_eth() {
        vec![2, 0, 0, 0, 0, 1]
    } else {
        vec![2, 0, 0, 0, 0, 0, 0, 1]
    }
}
/// which: 0 = the node's true address, 1 = alternative address (node moved / claims another)
fn node_hw(med: Med, n: Node, which: u8) -> Vec<u8> {
    if med.is_eth() {
        vec![2, 0, 0, 0, 1 + which, node_code(n)]
    } else {
        vec![2, 0, 0, 0, 0, 0, 1 + which, node_code(n)]
    }
}
fn spoof_hw(med: Med) -> Vec<u8> {
    if med.is_eth() {
        vec![2, 0, 0, 0, 0, 0xee]
    } else {
        vec![2, 0, 0, 0, 0, 0, 0, 0xee]
    }
}
fn node_ip(med: Med, n: Node) -> Ip {
    let c = node_code(n) as u16;
    match med {
        Med::EthV4 => match n {
            Node::N1 => v4(192, 168, 1, 11),
            Node::N2 => v4(192, 168, 1, 12),
            Node::N3 => v4(192, 168, 1, 13),
            Node::G1 => v4(192, 168, 1, 101),
            Node::G2 => v4(192, 168, 1, 102),
            Node::M1 => v4(172, 20, 0, 11),
        },
        Med::EthV6 => match n {
            Node::N3 | Node::G1 => v6([0xfe80, 0, 0, 0, 0, 0, 0, c]),
            _ => v6([0x2001, 0xdb8, 0, 0, 0, 0, 0, c]),
        },
        // N1, N2, G1: link-local with the IID derived from the node's true EUI-64 (so that
        // 6LoWPAN elides it); N3, G2 global
        Med::LowV6 => match n {
            Node::N1 | Node::N2 | Node::G1 => v6([0xfe80, 0, 0, 0, 0, 0, 0, 0x0100 | c]),
            _ => v6([0x2001, 0xdb8, 0, 0, 0, 0, 0, c]),
        },
    }
}
fn dst_ip(med: Med, d: Dst) -> Ip {
    match d {
        Dst::N1 => node_ip(med, Node::N1),
        Dst::N2 => node_ip(med, Node::N2),
        Dst::N3 => node_ip(med, Node::N3),
        Dst::M1 => node_ip(med, Node::M1),
        // the boundary destinations only mean something for IPv4 (IPv6 has no broadcast)
        Dst::RB1 | Dst::RB2 | Dst::RZ if !med.is_v4() => v6([0x2001, 0xdb8, 1, 0, 0, 0, 0, 0xff]),
        Dst::RB1 => v4(10, 9, 8, 255),
        Dst::RB2 => v4(10, 9, 15, 255),
        Dst::RZ => v4(10, 9, 8, 0),
        Dst::R1 => {
            if med.is_v4() {
                v4(10, 0, 0, 7)
            } else {
                v6([0x2001, 0xdb8, 1, 0, 0, 0, 0, 7])
            }
        }
        Dst::R2 => {
            if med.is_v4() {
                v4(10, 1, 0, 7)
            } else {
                v6([0x2001, 0xdb8, 2, 0, 0, 0, 0, 7])
            }
        }
    }
}
fn specific_route(med: Med) -> (Ip, u8) {
    if med.is_v4() {
        (v4(10, 1, 0, 0), 16)
    } else {
        (v6([0x2001, 0xdb8, 2, 0, 0, 0, 0, 0]), 48)
    }
}
fn default_net(med: Med) -> (Ip, u8) {
    if med.is_v4() {
        (v4(0, 0, 0, 0), 0)
    } else {
        (v6([0; 8]), 0)
    }
}
/// the subnet a scripted neighbor lives on (it only answers ARP requests whose sender
/// protocol address lies in it, like a real host — smoltcp's own process_arp included)
fn node_subnet(med: Med, n: Node) -> Option<(Ip, u8)> {
    if !med.is_v4() {
        return None;
    }
    Some(if n == Node::M1 { (v4(172, 20, 0, 0), 20) } else { (v4(192, 168, 1, 0), 24) })
}
fn our_addrs(med: Med, st: AddrState, two_nets: bool) -> Vec<(Ip, u8)> {
    if med.is_v4() {
        let main = match st {
            AddrState::Base => (v4(192, 168, 1, 1), 24),
            AddrState::SameNet => (v4(192, 168, 1, 2), 24),
            AddrState::OtherNet => (v4(192, 168, 2, 1), 24),
        };
        if two_nets {
            // the FIRST address is on another subnet (a /20) than all neighbors but M1
            vec![(v4(172, 20, 0, 1), 20), main]
        } else {
            vec![main]
        }
    } else {
        vec![
            (v6([0xfe80, 0, 0, 0, 0, 0, 0, 1]), 64),
            match st {
                AddrState::Base => (v6([0x2001, 0xdb8, 0, 0, 0, 0, 0, 1]), 64),
                AddrState::SameNet => (v6([0x2001, 0xdb8, 0, 0, 0, 0, 0, 2]), 64),
                AddrState::OtherNet => (v6([0x2001, 0xdb8, 9, 0, 0, 0, 0, 1]), 64),
            },
        ]
    }
}

// ---------------------------------------------------------------------------------------
// events
// ---------------------------------------------------------------------------------------

#[derive(Clone, Copy, Debug, PartialEq, Eq, PartialOrd, Ord, Hash)]
pub enum DiscKind {
    /// ARP reply / NA(S|O) with the node's true address, addressed to us
    Reply,
    /// same, but asserting the node's alternative address
    ReplyAlt,
    /// ARP request for our address / NS for our address with source link-layer option (true address)
    Request,
    /// NS for our address whose source link-layer option carries the alternative address
    RequestAlt,
    /// gratuitous ARP request (sender = target = node, broadcast), alternative address;
    /// for IPv6: unsolicited NA(O) to ff02::1, true address
    Announce,
    /// NA with only the Solicited flag (no Override) asserting the alternative address
    NaNoOverride,
    /// reply whose PROTOCOL source is the off-link host R1 (spoofed), hardware address of the spoofer
    OffLink,
    /// reply asserting the broadcast hardware address (802.15.4: short address 0xffff)
    BcastHw,
    /// reply asserting a multicast hardware address
    McastHw,
    /// IPv6 only: an NDISC message with the node's IPv6 source that did NOT originate on the
    /// link: hop limit below 255 (a router forwarded it; link-layer source = a gateway),
    /// addressed to our unicast address, announcing the node's alternative hardware address.
    /// RFC 4861 7.1.1/7.1.2: MUST be silently discarded, so nothing is learned from it.
    Forwarded { msg: FwdMsg, hop: u8 },
    /// IPv6 only: a valid NA (hop limit 255) from the node's IPv6 source whose TARGET address is
    /// another address (`other_node`: N2's, else an on-link address nobody owns), Solicited,
    /// Override as given, target link-layer option = the node's alternative hardware address
    NaTarget { override_flag: bool, other_node: bool },
    /// IPv6 only: NA(S|O) with hop limit 255 announcing the alternative address, but with ICMPv6
    /// code 1 (`bad_csum` false) or a corrupted checksum (`bad_csum` true): same rule
    Malformed { bad_csum: bool },
}

#[derive(Clone, Copy, Debug, PartialEq, Eq, PartialOrd, Ord, Hash)]
pub enum FwdMsg {
    /// NA, Solicited + Override
    NaSolOv,
    /// NA, Solicited only (taken by a cache that has no valid entry)
    NaSolNoOv,
    /// NA, Override only (unsolicited)
    NaUnsolOv,
    /// NS for our address with a source link-layer address option
    Ns,
}

#[derive(Clone, Copy, Debug, PartialEq, Eq, PartialOrd, Ord, Hash)]
pub enum TrafKind {
    /// echo request: we answer with a unicast echo reply
    EchoReq,
    /// echo reply from the node (silently ignored by the stack): pure "traffic from the neighbor"
    Quiet,
    /// the same from the node's alternative hardware address
    QuietAlt,
    /// UDP datagram to socket 0
    Udp,
    /// echo request with 120 data octets, arriving in two link-layer fragments; the echo reply
    /// needs fragmentation itself (only used in the `frag` configurations)
    EchoBig,
}

#[derive(Clone, Copy, Debug, PartialEq, Eq, PartialOrd, Ord, Hash)]
pub enum RouteOp {
    /// add (or renew) the specific route towards R2 via G2, expiring 60 s from now
    AddSpecific,
    /// default route: via G1 -> via G2 -> none -> via G1 ...
    CycleDefault,
    /// add (or replace) a route for `net` via `via` that expires `life_s` seconds from now
    Add { net: RNet, via: Node, life_s: u32 },
}

#[derive(Clone, Copy, Debug, PartialEq, Eq, PartialOrd, Ord, Hash)]
pub enum RNet {
    /// the most specific prefix containing R2: 10.1.0.0/24, 2001:db8:2::/64
    Narrow,
    /// 10.1.0.0/16, 2001:db8:2::/48 (also contains R2)
    Wide,
    /// 0.0.0.0/0, ::/0 — a default route WITH an expiry
    Default,
}
fn rnet(med: Med, n: RNet) -> (Ip, u8) {
    match n {
        RNet::Wide => specific_route(med),
        RNet::Default => default_net(med),
        RNet::Narrow => {
            if med.is_v4() {
                (v4(10, 1, 0, 0), 24)
            } else {
                (v6([0x2001, 0xdb8, 2, 0, 0, 0, 0, 0]), 64)
            }
        }
    }
}

#[derive(Clone, Copy, Debug, PartialEq, Eq, PartialOrd, Ord, Hash)]
pub enum Ev {
    Send { sock: u8, dst: Dst },
    Disc { from: Node, kind: DiscKind },
    Traffic { from: Node, kind: TrafKind },
    Route(RouteOp),
    /// cycle own addresses Base -> SameNet -> Base (false) or Base -> OtherNet -> Base (true)
    Addr { other_net: bool },
    /// advance the clock by this many milliseconds
    Advance(u32),
    /// Interface::poll at the current time
    Poll,
    /// cooperative environment: poll, answer every discovery request on the wire with the
    /// target's true address, poll again, advance 1 s; repeated until nothing is queued or 8 rounds
    Drain,
}

impl Ev {
    fn kind(&self) -> String {
        match self {
            Ev::Send { .. } => "send".into(),
            Ev::Disc { kind, .. } => format!("disc-{:?}", kind),
            Ev::Traffic { kind, .. } => format!("traffic-{:?}", kind),
            Ev::Route(r) => format!("route-{:?}", r),
            Ev::Addr { other_net } => format!("addr-{}", if *other_net { "othernet" } else { "samenet" }),
            Ev::Advance(ms) => format!("advance-{}ms", ms),
            Ev::Poll => "poll".into(),
            Ev::Drain => "drain".into(),
        }
    }
}

#[derive(Clone, Debug)]
pub struct NeighCfg {
    pub label: String,
    pub med: Med,
    /// number of UDP sockets (socket k is bound to port 5000+k)
    pub n_socks: usize,
    /// one more socket, index `n_socks`: an ICMP socket sending echo requests
    pub icmp: bool,
    /// IPv4 only: the interface has two addresses, the first one on 172.20.0.0/20, the second on
    /// the subnet of the usual neighbors
    pub two_nets: bool,
    /// the Poll event drives the interface with the lower-level API (frames already go through
    /// poll_ingress_single): poll_egress until it reports nothing, instead of Interface::poll
    pub split: bool,
    /// an NA without Override must leave an unexpired entry alone (strict, as process_ndisc
    /// documents). Only sound where the real cache cannot have lost the entry the model still
    /// holds: at most two protocol addresses ever speak (no eviction even with 2 slots) and the
    /// interface addresses never change (no flush). Elsewhere such an NA only ADDS a candidate.
    pub strict_no_override: bool,
    /// socket 0 sends datagrams that need three or more link-layer fragments (Ethernet: the
    /// device MTU is lowered to 114 octets; 802.15.4: 6LoWPAN fragmentation)
    pub big: bool,
    /// every event other than Poll/Drain is followed by Interface::poll
    pub autopoll: bool,
    pub alphabet: Arc<Vec<Ev>>,
    /// smoltcp::config::IFACE_NEIGHBOR_CACHE_COUNT of this build
    pub cache_slots: usize,
    pub verbose: bool,
}

// ---------------------------------------------------------------------------------------
// reference model
// ---------------------------------------------------------------------------------------

#[derive(Clone, Debug, PartialEq, Eq, Hash)]
struct Cand {
    hw: Vec<u8>,
    last: i64,
}
#[derive(Clone, Debug)]
struct RouteM {
    net: Ip,
    plen: u8,
    via: Ip,
    expires: Option<i64>,
}

#[derive(Default)]
struct Model {
    addrs: Vec<(Ip, u8)>,
    routes: Vec<RouteM>,
    table: BTreeMap<Ip, Vec<Cand>>,
    queues: Vec<VecDeque<Ip>>,
    last_req: BTreeMap<Ip, i64>,
    last_req_any: Option<i64>,
    // diagnostics only (choose the cause in a signature; never make something acceptable)
    rejected: Vec<(Ip, Vec<u8>, &'static str)>,
    replaced: Vec<(Ip, Vec<u8>)>,
}

enum Effect {
    Definite(Ip, Vec<u8>),
    Optional(Ip, Vec<u8>),
    Rejected(Ip, Vec<u8>, &'static str),
}

impl Model {
    fn on_link(&self, d: &Ip) -> bool {
        self.addrs.iter().any(|(n, p)| prefix_contains(n, *p, d))
    }
    fn is_subnet_broadcast(&self, d: &Ip) -> bool {
        if let Ip::V4(x) = d {
            for (a, p) in &self.addrs {
                if let Ip::V4(n) = a {
                    if *p < 31 {
                        let mask = if *p == 0 { 0 } else { u32::MAX << (32 - *p as u32) };
                        let b = (u32::from_be_bytes(*n) & mask) | !mask;
                        if u32::from_be_bytes(*x) == b {
                            return true;
                        }
                    }
                }
            }
        }
        false
    }
    fn best(&self, d: &Ip, t: i64, lenient: bool) -> Vec<Ip> {
        let mut best_len: i32 = -1;
        let mut v: Vec<Ip> = vec![];
        for r in &self.routes {
            let alive = match r.expires {
                None => true,
                Some(e) => {
                    if lenient {
                        t <= e
                    } else {
                        t < e
                    }
                }
            };
            if alive && prefix_contains(&r.net, r.plen, d) {
                if (r.plen as i32) > best_len {
                    best_len = r.plen as i32;
                    v = vec![r.via.clone()];
                } else if r.plen as i32 == best_len && !v.contains(&r.via) {
                    v.push(r.via.clone());
                }
            }
        }
        v
    }
    /// acceptable next hops of a unicast destination at time t (more than one only at the
    /// lenient boundaries described in the module comment)
    fn next_hops(&self, d: &Ip, t: i64) -> Vec<Ip> {
        if self.on_link(d) {
            return vec![d.clone()];
        }
        let mut v = self.best(d, t, false);
        for x in self.best(d, t, true) {
            if !v.contains(&x) {
                v.push(x);
            }
        }
        v
    }
    fn fresh(&self, ip: &Ip, hw: &[u8], t: i64) -> bool {
        self.table.get(ip).map_or(false, |c| c.iter().any(|c| c.hw == hw && t - c.last < LIFETIME))
    }
    fn any_fresh(&self, ip: &Ip, t: i64) -> bool {
        self.table.get(ip).map_or(false, |c| c.iter().any(|c| t - c.last < LIFETIME))
    }
    fn confirm(&mut self, ip: &Ip, hw: &[u8], t: i64) -> bool {
        let mut hit = false;
        if let Some(c) = self.table.get_mut(ip) {
            for c in c.iter_mut() {
                if c.hw == hw {
                    c.last = t;
                    hit = true;
                }
            }
        }
        hit
    }
    fn apply(&mut self, e: Effect, t: i64) {
        match e {
            Effect::Definite(ip, hw) => {
                let old = self.table.insert(ip.clone(), vec![Cand { hw: hw.clone(), last: t }]);
                for o in old.unwrap_or_default() {
                    if o.hw != hw && !self.replaced.contains(&(ip.clone(), o.hw.clone())) {
                        self.replaced.push((ip.clone(), o.hw));
                    }
                }
                self.replaced.retain(|(i, h)| !(i == &ip && h == &hw));
            }
            Effect::Optional(ip, hw) => {
                let c = self.table.entry(ip).or_default();
                match c.iter_mut().find(|c| c.hw == hw) {
                    Some(c) => c.last = t,
                    None => c.push(Cand { hw, last: t }),
                }
            }
            Effect::Rejected(ip, hw, why) => {
                if !self.rejected.iter().any(|(i, h, _)| i == &ip && h == &hw) {
                    self.rejected.push((ip, hw, why));
                }
            }
        }
    }
}

// ---------------------------------------------------------------------------------------
// statistics (evidence only; summed over every harness execution including BFS replays)
// ---------------------------------------------------------------------------------------

#[derive(Default, Clone)]
struct Stats {
    n: BTreeMap<String, u64>,
    outcomes: BTreeMap<String, u64>,
    min_gap_any: Option<i64>,
    min_gap_same: Option<i64>,
}
impl Stats {
    fn inc(&mut self, k: &str) {
        *self.n.entry(k.to_string()).or_insert(0) += 1;
    }
    fn merge(&mut self, o: &Stats) {
        for (k, v) in &o.n {
            *self.n.entry(k.clone()).or_insert(0) += v;
        }
        for (k, v) in &o.outcomes {
            *self.outcomes.entry(k.clone()).or_insert(0) += v;
        }
        let m = |a: Option<i64>, b: Option<i64>| match (a, b) {
            (Some(a), Some(b)) => Some(a.min(b)),
            (a, None) => a,
            (None, b) => b,
        };
        self.min_gap_any = m(self.min_gap_any, o.min_gap_any);
        self.min_gap_same = m(self.min_gap_same, o.min_gap_same);
    }
}
/// per configuration label
static GLOBAL: Mutex<BTreeMap<String, Stats>> = Mutex::new(BTreeMap::new());

// ---------------------------------------------------------------------------------------
// harness
// ---------------------------------------------------------------------------------------

pub struct NeighH {
    cfg: NeighCfg,
    med: Med,
    now: i64,
    iface: Interface,
    dev: SimDevice,
    sockets: SocketSet<'static>,
    handles: Vec<SocketHandle>,
    m: Model,
    addr_state: AddrState,
    default_state: u8, // 0 = via G1, 1 = via G2, 2 = none
    stats: Stats,
    emitted: Vec<&'static str>,
    log: Vec<String>,
    /// anything the oracles said about the start-up frames (reported with the first event)
    pending: Vec<Viol>,
    /// 6LoWPAN: tag and IP destination of the datagram whose fragments are being sent
    frag_dst: Option<(u16, Ip)>,
    /// per socket: time of the last poll that left data queued in it (socket back-off)
    last_pending_poll: Vec<Option<i64>>,
    /// source address of the latest discovery request per target (read by Drain in the same event)
    last_req_sender: BTreeMap<Ip, Ip>,
    /// every time value passed to an interface call so far (plausibility of device timestamps)
    call_times: BTreeSet<i64>,
}

impl Drop for NeighH {
    fn drop(&mut self) {
        if let Ok(mut g) = GLOBAL.lock() {
            g.entry(self.cfg.label.clone()).or_default().merge(&self.stats);
        }
    }
}

fn l4_show(l4: &L4) -> String {
    match l4 {
        L4::Udp { sport, dport } => format!("UDP {}->{}", sport, dport),
        L4::Icmp { ty, target: Some(t) } => format!("ICMP type {} target {}", ty, t.show()),
        L4::Icmp { ty, target: None } => format!("ICMP type {}", ty),
        L4::Frag => "later fragment".into(),
        L4::Other(p) => format!("protocol {}", p),
    }
}

fn strip_num(s: &mut String, key: &str) {
    if let Some(i) = s.find(key) {
        let start = i + key.len();
        let end = s[start..].find(|c: char| !c.is_ascii_digit()).map_or(s.len(), |e| start + e);
        s.replace_range(start..end, "_");
    }
}

/// Replace every `Instant { micros: N }` by a time-translation invariant token: future and
/// present instants by their distance to `now`, past instants by their dense rank among all
/// past instants of the image (the code only ever compares instants with `now` and — for the
/// eviction victim — with each other, so order is all that matters for past ones).
fn normalise_times(s: &str, now: i64) -> String {
    const KEY: &str = "Instant { micros: ";
    let mut vals: Vec<(usize, usize, i64)> = vec![];
    let mut pos = 0;
    while let Some(i) = s[pos..].find(KEY) {
        let start = pos + i + KEY.len();
        let end = s[start..].find(' ').map_or(s.len(), |e| start + e);
        let v: i64 = s[start..end].parse().unwrap_or(i64::MIN);
        vals.push((start, end, v));
        pos = end;
    }
    let mut past: Vec<i64> = vals.iter().map(|v| v.2).filter(|&v| v < now).collect();
    past.sort();
    past.dedup();
    let mut out = String::with_capacity(s.len());
    let mut last = 0;
    for (a, b, v) in vals {
        out.push_str(&s[last..a]);
        if v < now {
            out.push_str(&format!("P{}", past.binary_search(&v).unwrap()));
        } else {
            out.push_str(&format!("+{}", v - now));
        }
        last = b;
    }
    out.push_str(&s[last..]);
    out
}

impl NeighH {
    fn n_queues(&self) -> usize {
        self.cfg.n_socks + self.cfg.icmp as usize
    }
    /// (octets the real socket reports as queued, octets per datagram)
    fn real_queue(&self, k: usize) -> (usize, usize) {
        if k < self.cfg.n_socks {
            let per = if k == 0 && self.cfg.big { big_len(self.med) } else { 1 };
            (self.sockets.get::<udp::Socket>(self.handles[k]).send_queue(), per)
        } else {
            (self.sockets.get::<icmp::Socket>(self.handles[k]).send_queue(), ICMP_LEN)
        }
    }
    /// a datagram of socket k was seen on the wire
    fn transmitted(&mut self, k: usize, dst: &Ip, out: &mut Vec<Viol>) {
        match self.m.queues[k].front() {
            Some(h) if h == dst => {
                self.m.queues[k].pop_front();
                self.stats.inc("socket_datagrams_transmitted");
            }
            head => {
                let head = head.map(|h| h.show());
                self.viol(
                    out,
                    "queue",
                    "unexpected-datagram",
                    format!("socket {} transmitted a datagram to {} but the oldest accepted, untransmitted datagram is {:?} (duplicate or reordered)", k, dst.show(), head),
                );
            }
        }
    }
    fn ts(&self) -> Instant {
        Instant::from_micros(self.now)
    }
    fn note(&mut self, s: String) {
        if self.cfg.verbose {
            self.log.push(s);
        }
    }
    fn viol(&mut self, out: &mut Vec<Viol>, clause: &str, cause: &str, detail: String) {
        let sig = format!("C16/{}/{}/{}", clause, self.med.name(), cause);
        self.note(format!("      VIOLATION {} :: {}", sig, detail));
        out.push(Viol::new(sig, format!("t={:.3}s: {}", (self.now - T0) as f64 / 1e6, detail)));
    }
    fn machinery(&mut self, out: &mut Vec<Viol>, what: &str, detail: String) {
        self.note(format!("      MACHINERY {} :: {}", what, detail));
        out.push(Viol::new(format!("MACHINERY/{}", what), detail));
    }

    fn set_real_addrs(&mut self) {
        let addrs = self.m.addrs.clone();
        self.iface.update_ip_addrs(|a| {
            a.clear();
            for (ip, p) in &addrs {
                a.push(IpCidr::new(smol(ip), *p)).expect("IFACE_MAX_ADDR_COUNT too small for the harness");
            }
        });
    }

    /// our address a peer with this address would talk to
    fn our_addr_for(&self, peer: &Ip) -> Ip {
        match peer {
            Ip::V4(_) => self.m.addrs.iter().find(|(a, p)| prefix_contains(a, *p, peer)).unwrap_or(&self.m.addrs[0]).0.clone(),
            Ip::V6(b) => {
                if b[0] == 0xfe && b[1] == 0x80 {
                    self.m.addrs[0].0.clone()
                } else {
                    self.m.addrs[1].0.clone()
                }
            }
        }
    }

    /// link-layer encapsulation of an IP packet from a neighbor to us
    fn wrap_ip(&self, ll_dst: &[u8], ll_src: &[u8], src: &Ip, dst: &Ip, proto: u8, hop: u8, payload: &[u8]) -> Vec<u8> {
        match self.med {
            Med::EthV4 => stim::eth(ll_dst, ll_src, 0x0800, &stim::ipv4(src, dst, proto, hop, payload)),
            Med::EthV6 => stim::eth(ll_dst, ll_src, 0x86dd, &stim::ipv6(src, dst, proto, hop, payload)),
            Med::LowV6 => stim::lowpan(PAN, ll_dst, ll_src, 7, src, dst, proto, hop, payload),
        }
    }

    /// Build a discovery message and say what the reference model learns from it.
    fn build_disc(&self, from: Node, kind: DiscKind) -> Option<(Vec<u8>, Effect, Option<(Ip, Vec<u8>)>)> {
        let med = self.med;
        let ip = node_ip(med, from);
        let tru = node_hw(med, from, 0);
        let alt = node_hw(med, from, 1);
        let me = our_hw(med);
        let on_link = self.m.on_link(&ip);
        let eligible = |ip: Ip, hw: Vec<u8>, on_link: bool| {
            if on_link {
                Effect::Definite(ip, hw)
            } else {
                Effect::Rejected(ip, hw, "offlink")
            }
        };
        if med.is_v4() {
            let mine = self.our_addr_for(&ip);
            let bc = vec![0xffu8; 6];
            let r = match kind {
                DiscKind::Reply => (stim::eth(&me, &tru, 0x0806, &stim::arp(2, &tru, &ip, &me, &mine)), eligible(ip, tru, on_link)),
                DiscKind::ReplyAlt => (stim::eth(&me, &alt, 0x0806, &stim::arp(2, &alt, &ip, &me, &mine)), eligible(ip, alt, on_link)),
                DiscKind::Request => (stim::eth(&bc, &tru, 0x0806, &stim::arp(1, &tru, &ip, &[0; 6], &mine)), eligible(ip, tru, on_link)),
                DiscKind::RequestAlt => (stim::eth(&bc, &alt, 0x0806, &stim::arp(1, &alt, &ip, &[0; 6], &mine)), eligible(ip, alt, on_link)),
                DiscKind::Announce => {
                    // RFC 5227 announcement: lenient — a cache may or may not take it
                    let e = if on_link { Effect::Optional(ip.clone(), alt.clone()) } else { Effect::Rejected(ip.clone(), alt.clone(), "offlink") };
                    (stim::eth(&bc, &alt, 0x0806, &stim::arp(1, &alt, &ip, &[0; 6], &ip)), e)
                }
                DiscKind::OffLink => {
                    let r1 = dst_ip(med, Dst::R1);
                    let x = spoof_hw(med);
                    let e = if self.m.on_link(&r1) { Effect::Definite(r1.clone(), x.clone()) } else { Effect::Rejected(r1.clone(), x.clone(), "offlink") };
                    (stim::eth(&me, &x, 0x0806, &stim::arp(2, &x, &r1, &me, &mine)), e)
                }
                DiscKind::BcastHw => (stim::eth(&me, &tru, 0x0806, &stim::arp(2, &bc, &ip, &me, &mine)), Effect::Rejected(ip, bc.clone(), "nonunicast")),
                DiscKind::McastHw => {
                    let mc = vec![0x01, 0x00, 0x5e, 0x00, 0x00, 0x01];
                    (stim::eth(&me, &tru, 0x0806, &stim::arp(2, &mc, &ip, &me, &mine)), Effect::Rejected(ip, mc, "nonunicast"))
                }
                DiscKind::NaNoOverride | DiscKind::Forwarded { .. } | DiscKind::Malformed { .. } | DiscKind::NaTarget { .. } => return None,
            };
            return Some((r.0, r.1, None));
        }
        // NDISC. `traffic` = (IP source, link-layer source) when the packet is addressed to one
        // of our unicast addresses (then it also counts as traffic from that neighbor).
        let mine = self.our_addr_for(&ip);
        let all_nodes = v6([0xff02, 0, 0, 0, 0, 0, 0, 1]);
        let ll_mcast = |a: &Ip| if med.is_eth() { stim::eth_mcast_for(a) } else { vec![0xff, 0xff] };
        let na_uni = |ll_src: &[u8], src: &Ip, flags: u8, tlla: &[u8]| -> Vec<u8> {
            let dst = self.our_addr_for(src);
            self.wrap_ip(&me, ll_src, src, &dst, 58, 255, &stim::na(src, &dst, flags, src, Some(tlla)))
        };
        // Override clear, strict reading (configurations that cannot lose a cache entry): an
        // unexpired entry must not change; without one the advertisement creates the entry.
        // The packet itself is traffic from (source, alt) and is applied by the caller BEFORE this
        // effect, exactly like reset_expiry_if_existing precedes process_ndisc.
        let now = self.now;
        let live = self.m.any_fresh(&ip, now) && !self.m.fresh(&ip, &alt, now);
        let no_override = move |ip: Ip, hw: Vec<u8>| if live { Effect::Rejected(ip, hw, "override-clear-while-entry-live") } else { Effect::Definite(ip, hw) };
        let r: (Vec<u8>, Effect, Option<(Ip, Vec<u8>)>) = match kind {
            DiscKind::Reply => (na_uni(&tru, &ip, 0x60, &tru), eligible(ip.clone(), tru.clone(), on_link), Some((ip, tru))),
            DiscKind::ReplyAlt => (na_uni(&alt, &ip, 0x60, &alt), eligible(ip.clone(), alt.clone(), on_link), Some((ip, alt))),
            DiscKind::NaNoOverride => {
                let e = if !on_link {
                    Effect::Rejected(ip.clone(), alt.clone(), "offlink")
                } else if self.cfg.strict_no_override {
                    no_override(ip.clone(), alt.clone())
                } else {
                    Effect::Optional(ip.clone(), alt.clone())
                };
                (na_uni(&alt, &ip, 0x40, &alt), e, Some((ip, alt)))
            }
            DiscKind::NaTarget { override_flag, other_node } => {
                // pinned from process_ndisc: the entry an NA creates or updates is the one of its
                // IPv6 SOURCE, whatever the target says; nothing is learned about the target
                let target = if other_node && from != Node::N2 { node_ip(med, Node::N2) } else { v6([0x2001, 0xdb8, 0, 0, 0, 0, 0, 0x77]) };
                let flags = if override_flag { 0x60 } else { 0x40 };
                let e = if !on_link {
                    Effect::Rejected(ip.clone(), alt.clone(), "offlink")
                } else if override_flag {
                    Effect::Definite(ip.clone(), alt.clone())
                } else if self.cfg.strict_no_override {
                    no_override(ip.clone(), alt.clone())
                } else {
                    Effect::Optional(ip.clone(), alt.clone())
                };
                let f = self.wrap_ip(&me, &alt, &ip, &mine, 58, 255, &stim::na(&ip, &mine, flags, &target, Some(&alt)));
                (f, e, Some((ip, alt)))
            }
            DiscKind::Announce => {
                let f = self.wrap_ip(&ll_mcast(&all_nodes), &tru, &ip, &all_nodes, 58, 255, &stim::na(&ip, &all_nodes, 0x20, &ip, Some(&tru)));
                (f, eligible(ip, tru, on_link), None)
            }
            DiscKind::Request | DiscKind::RequestAlt => {
                let hw = if kind == DiscKind::Request { tru } else { alt };
                let sn = stim::solicited_node(&mine);
                let f = self.wrap_ip(&ll_mcast(&sn), &hw, &ip, &sn, 58, 255, &stim::ns(&ip, &sn, &mine, Some(&hw)));
                (f, eligible(ip, hw, on_link), None)
            }
            DiscKind::OffLink => {
                let r1 = dst_ip(med, Dst::R1);
                let x = spoof_hw(med);
                let e = if self.m.on_link(&r1) { Effect::Definite(r1.clone(), x.clone()) } else { Effect::Rejected(r1.clone(), x.clone(), "offlink") };
                (na_uni(&x, &r1, 0x60, &x), e, Some((r1, x)))
            }
            DiscKind::BcastHw => {
                let bad: Vec<u8> = if med.is_eth() { vec![0xff; 6] } else { vec![0xff, 0xff] };
                (na_uni(&tru, &ip, 0x60, &bad), Effect::Rejected(ip.clone(), bad, "nonunicast"), Some((ip, tru)))
            }
            DiscKind::Forwarded { msg, hop } => {
                // the last hop of a forwarded packet is a router: its link-layer source
                let router = node_hw(med, if from == Node::G1 { Node::G2 } else { Node::G1 }, 0);
                let body = match msg {
                    FwdMsg::NaSolOv => stim::na(&ip, &mine, 0x60, &ip, Some(&alt)),
                    FwdMsg::NaSolNoOv => stim::na(&ip, &mine, 0x40, &ip, Some(&alt)),
                    FwdMsg::NaUnsolOv => stim::na(&ip, &mine, 0x20, &ip, Some(&alt)),
                    FwdMsg::Ns => stim::ns(&ip, &mine, &mine, Some(&alt)),
                };
                let f = self.wrap_ip(&me, &router, &ip, &mine, 58, hop, &body);
                (f, Effect::Rejected(ip.clone(), alt, "hop-limit-not-255"), Some((ip, router)))
            }
            DiscKind::Malformed { bad_csum } => {
                let mut body = stim::na(&ip, &mine, 0x60, &ip, Some(&alt));
                if bad_csum {
                    body[2] ^= 0xff;
                } else {
                    body[1] = 1;
                    stim::icmp6_fix(&ip, &mine, &mut body);
                }
                let f = self.wrap_ip(&me, &alt, &ip, &mine, 58, 255, &body);
                (f, Effect::Rejected(ip.clone(), alt.clone(), if bad_csum { "bad-checksum" } else { "icmp-code-not-0" }), Some((ip, alt)))
            }
            DiscKind::McastHw => {
                if !med.is_eth() {
                    return None;
                }
                let bad = vec![0x33, 0x33, 0, 0, 0, 1];
                (na_uni(&tru, &ip, 0x60, &bad), Effect::Rejected(ip.clone(), bad, "nonunicast"), Some((ip, tru)))
            }
        };
        Some(r)
    }

    fn build_traffic(&self, from: Node, kind: TrafKind) -> (Vec<Vec<u8>>, (Ip, Vec<u8>)) {
        let med = self.med;
        let ip = node_ip(med, from);
        let hw = node_hw(med, from, if kind == TrafKind::QuietAlt { 1 } else { 0 });
        let me = our_hw(med);
        let mine = self.our_addr_for(&ip);
        if kind == TrafKind::EchoBig {
            let data = [0x55u8; 120];
            let frames = match med {
                Med::EthV4 => {
                    let m = stim::icmp4_echo(8, 1, 1, &data);
                    vec![
                        stim::eth(&me, &hw, 0x0800, &stim::ipv4_frag(&ip, &mine, 1, 64, 0x7777, 0, true, &m[..80])),
                        stim::eth(&me, &hw, 0x0800, &stim::ipv4_frag(&ip, &mine, 1, 64, 0x7777, 80, false, &m[80..])),
                    ]
                }
                Med::EthV6 => vec![stim::eth(&me, &hw, 0x86dd, &stim::ipv6(&ip, &mine, 58, 64, &stim::icmp6_echo(&ip, &mine, 128, 1, 1, &data)))],
                Med::LowV6 => stim::lowpan_two_frags(PAN, &me, &hw, 0x5151, &ip, &mine, 58, 64, &stim::icmp6_echo(&ip, &mine, 128, 1, 1, &data), 56),
            };
            return (frames, (ip, hw));
        }
        let (proto, payload) = match kind {
            TrafKind::Udp => (17, stim::udp(&ip, &mine, 7000, SOCK_PORT, &[0x55])),
            TrafKind::EchoReq => {
                if med.is_v4() {
                    (1, stim::icmp4_echo(8, 1, 1, &[0x55]))
                } else {
                    (58, stim::icmp6_echo(&ip, &mine, 128, 1, 1, &[0x55]))
                }
            }
            TrafKind::Quiet | TrafKind::QuietAlt => {
                if med.is_v4() {
                    (1, stim::icmp4_echo(0, 1, 1, &[0x55]))
                } else {
                    (58, stim::icmp6_echo(&ip, &mine, 129, 1, 1, &[0x55]))
                }
            }
            TrafKind::EchoBig => unreachable!(),
        };
        (vec![self.wrap_ip(&me, &hw, &ip, &mine, proto, 64, &payload)], (ip, hw))
    }

    /// hand one frame to the interface (poll_ingress_single) and judge whatever it answers
    fn ingress(&mut self, frame: Vec<u8>, out: &mut Vec<Viol>) -> Vec<Ip> {
        self.dev.rx.push_back(frame);
        let ts = self.ts();
        self.call_times.insert(self.now);
        let _ = self.iface.poll_ingress_single(ts, &mut self.dev, &mut self.sockets);
        if !self.dev.rx.is_empty() {
            self.machinery(out, "rx-not-consumed", "poll_ingress_single left a frame in the device".into());
            self.dev.rx.clear();
        }
        // keep socket 0's receive buffer empty (its content is irrelevant here)
        let h = self.handles[0];
        while self.sockets.get_mut::<udp::Socket>(h).recv().is_ok() {}
        self.check_tx(out)
    }

    fn poll(&mut self, out: &mut Vec<Viol>) -> Vec<Ip> {
        let before: Vec<usize> = self.m.queues.iter().map(|q| q.len()).collect();
        let heads: Vec<Option<Ip>> = self.m.queues.iter().map(|q| q.front().cloned()).collect();
        let limiter_idle = self.m.last_req_any.map_or(true, |p| self.now - p >= MIN_GAP);
        let ts = self.ts();
        self.call_times.insert(self.now);
        if self.cfg.split {
            let mut guard = 0;
            while self.iface.poll_egress(ts, &mut self.dev, &mut self.sockets) != PollResult::None {
                guard += 1;
                if guard > 64 {
                    self.machinery(out, "poll-egress-does-not-settle", "poll_egress kept reporting progress 64 times".into());
                    break;
                }
            }
        } else {
            let _ = self.iface.poll(ts, &mut self.dev, &mut self.sockets);
        }
        let reqs = self.check_tx(out);
        // Clause 2, progress part. A poll in which (a) no discovery request went out although
        // (b) the last one (for any target) is at least 1 s old, so nothing is rate limited, and
        // (c) the socket has not been turned away during the last second (its own back-off), must
        // transmit the socket's oldest datagram if the model has a next hop for it (on-link, or an
        // unexpired matching route even under the strict reading of "unexpired"): the interface
        // either knows the next hop's address (then it sends) or it does not (then it must ask).
        // Sitting still means it treats a routable destination as having no next hop.
        // Not applied while link-layer fragments may be pending (sockets are held back then).
        if !self.cfg.big && reqs.is_empty() && limiter_idle {
            for k in 0..self.n_queues() {
                let Some(d) = &heads[k] else { continue };
                let backoff_over = self.last_pending_poll[k].map_or(true, |p| self.now - p >= SEC);
                let on_link = self.m.on_link(d);
                let routable = on_link || !self.m.best(d, self.now, false).is_empty();
                if backoff_over && routable {
                    self.stats.inc("idle_poll_progress_checks");
                    if self.m.queues[k].len() >= before[k] {
                        let cause = if on_link { "stuck-on-link-without-discovery" } else { "stuck-despite-unexpired-route" };
                        let via = self.m.next_hops(d, self.now).iter().map(|h| h.show()).collect::<Vec<_>>().join(" or ");
                        self.viol(
                            out,
                            "queue",
                            cause,
                            format!("socket {}: oldest datagram to {} (next hop {}) neither transmitted nor was any discovery request sent, although no request was sent during the last second and the socket was not backing off", k, d.show(), via),
                        );
                    }
                }
            }
        }
        for k in 0..self.n_queues() {
            if !self.m.queues[k].is_empty() {
                self.last_pending_poll[k] = Some(self.now);
            }
        }
        reqs
    }

    /// judge all frames handed to the device since the last call; returns the discovery targets seen
    fn check_tx(&mut self, out: &mut Vec<Viol>) -> Vec<Ip> {
        let mut reqs = vec![];
        // Time is what the HARNESS passed to the interface call that produced the frame: every
        // frame is judged (60 s age, expiry, 1 s rate) at the time of the current call, whatever
        // timestamp the stack handed to the device. Only impossible stamps are machinery errors.
        let now = self.now;
        for (ts, f) in self.dev.take_tx() {
            if ts > now || !self.call_times.contains(&ts) {
                self.machinery(out, "tx-timestamp", format!("frame stamped {} which is in the future of / matches no interface call (harness time {})", ts, now));
            } else if ts != now {
                self.stats.inc("frames_stamped_with_the_time_of_an_earlier_call");
            }
            self.check_frame(now, &f, out, &mut reqs);
        }
        reqs
    }

    fn discovery(&mut self, target: Ip, sender: Ip, t: i64, out: &mut Vec<Viol>, reqs: &mut Vec<Ip>) {
        self.stats.inc("discovery_requests");
        self.emitted.push("discovery");
        // Wire clause on the request itself: the neighbor can only answer (and learn us) if the
        // request names one of OUR addresses it can reach: for ARP the sender protocol address
        // must be an own address on the target's subnet whenever we have one (a host ignores ARP
        // from senders outside its networks — process_arp does); otherwise, and for neighbor
        // solicitations (lenient), any own unicast address.
        self.last_req_sender.insert(target.clone(), sender.clone());
        let own_on_subnet: Vec<Ip> = self.m.addrs.iter().filter(|(a, p)| prefix_contains(a, *p, &target)).map(|(a, _)| a.clone()).collect();
        let own = self.m.addrs.iter().any(|(a, _)| *a == sender);
        if !own {
            let cause = if self.med.is_v4() { "arp-sender-address-not-own" } else { "ns-source-address-not-own" };
            self.viol(out, "discovery", cause, format!("discovery request for {} carries source address {} which is not an address of the interface", target.show(), sender.show()));
        } else if self.med.is_v4() && !own_on_subnet.is_empty() && !own_on_subnet.contains(&sender) {
            self.viol(
                out,
                "discovery",
                "arp-sender-address-not-on-target-subnet",
                format!("ARP request for {} carries sender protocol address {} although the interface has {} on the target's subnet; the target will not answer a sender outside its network", target.show(), sender.show(), own_on_subnet[0].show()),
            );
        } else {
            self.stats.inc("discovery_sender_address_checks_passed");
        }
        if self.m.any_fresh(&target, t) {
            // the model still holds a fresh address: the code lost it (eviction / flush)
            self.stats.inc("rediscovery_while_model_fresh(eviction-or-flush)");
        }
        if let Some(prev) = self.m.last_req_any {
            let gap = t - prev;
            self.stats.min_gap_any = Some(self.stats.min_gap_any.map_or(gap, |g| g.min(gap)));
        }
        if let Some(&prev) = self.m.last_req.get(&target) {
            let gap = t - prev;
            self.stats.min_gap_same = Some(self.stats.min_gap_same.map_or(gap, |g| g.min(gap)));
            if gap < MIN_GAP {
                self.viol(
                    out,
                    "rate",
                    "same-target-under-1s",
                    format!("two discovery requests for {} only {} us apart", target.show(), gap),
                );
            }
        }
        self.m.last_req.insert(target.clone(), t);
        self.m.last_req_any = Some(t);
        reqs.push(target);
    }

    fn check_frame(&mut self, t: i64, f: &[u8], out: &mut Vec<Viol>, reqs: &mut Vec<Ip>) {
        self.stats.inc("frames_emitted");
        let parsed = if self.med.is_eth() { parse_ethernet(f) } else { parse_ieee802154(f) };
        let p = match parsed {
            Ok(p) => p,
            Err(e) => {
                self.machinery(out, "unparsable-frame", format!("{}: {}", e, hex(f)));
                return;
            }
        };
        if self.cfg.verbose {
            let d = match &p.body {
                Body::Arp { op, spa, tpa, .. } => format!("ARP op={} spa={} tpa={}", op, spa.show(), tpa.show()),
                Body::Ip { src, dst, l4, .. } => format!("IP {} -> {} {}", src.show(), dst.show(), l4_show(l4)),
                Body::LowpanFragN { tag } => format!("6LoWPAN FRAGN tag={}", tag),
                Body::Other(s) => s.clone(),
            };
            let d = match p.frag1_tag {
                Some(t) => format!("{} [6LoWPAN FRAG1 tag={}]", d, t),
                None => d,
            };
            self.note(format!("      tx -> {} : {}", hw_show(&p.dst_hw), d));
        }
        if p.src_hw != our_hw(self.med) {
            self.machinery(out, "foreign-source-hwaddr", hex(f));
        }
        if let (Some(tag), Body::Ip { dst, .. }) = (p.frag1_tag, &p.body) {
            self.frag_dst = Some((tag, dst.clone()));
        }
        match p.body.clone() {
            Body::LowpanFragN { tag } => match self.frag_dst.clone() {
                Some((t0, dst)) if t0 == tag => {
                    self.emitted.push("fragment");
                    self.check_unicast(&dst, &p.dst_hw, t, &L4::Frag, out);
                }
                other => self.machinery(out, "fragn-unknown-tag", format!("FRAGN tag {} but first fragment seen was {:?}", tag, other)),
            },
            Body::Arp { op: 1, tpa, spa, .. } => self.discovery(tpa, spa, t, out, reqs),
            Body::Arp { .. } => {
                self.stats.inc("arp_replies_emitted");
                self.emitted.push("arp-reply");
            }
            Body::Ip { src, dst, l4, .. } => {
                let group = dst.is_multicast() || dst.is_limited_broadcast() || self.m.is_subnet_broadcast(&dst);
                if group {
                    if let L4::Icmp { ty: 135, target: Some(target) } = l4 {
                        self.discovery(target, src.clone(), t, out, reqs);
                    } else {
                        self.stats.inc("multicast_ip_frames_ignored");
                        self.emitted.push("mcast");
                    }
                    return;
                }
                self.check_unicast(&dst, &p.dst_hw, t, &l4, out);
                match l4 {
                    L4::Udp { sport, .. } if sport >= SOCK_PORT && ((sport - SOCK_PORT) as usize) < self.cfg.n_socks => {
                        let k = (sport - SOCK_PORT) as usize;
                        self.emitted.push("udp");
                        self.transmitted(k, &dst, out);
                    }
                    // echo requests are only ever originated by the ICMP socket
                    L4::Icmp { ty: 8, .. } | L4::Icmp { ty: 128, .. } if self.cfg.icmp => {
                        self.emitted.push("echo-request");
                        let k = self.cfg.n_socks;
                        self.transmitted(k, &dst, out);
                    }
                    L4::Icmp { ty: 135, target: Some(target) } => {
                        // unicast solicitation (reachability probe) still counts for the rate limit
                        self.discovery(target, src.clone(), t, out, reqs);
                    }
                    L4::Icmp { ty, .. } => {
                        self.emitted.push(if ty == 136 { "na" } else { "icmp" });
                    }
                    L4::Frag => self.emitted.push("fragment"),
                    _ => self.emitted.push("other-ip"),
                }
            }
            Body::Other(s) => {
                self.machinery(out, "unexpected-frame", format!("{}: {}", s, hex(f)));
            }
        }
    }

    /// clause 1 + 4: unicast IP packet -> hardware address asserted for the next hop, fresh
    fn check_unicast(&mut self, d: &Ip, hw: &[u8], t: i64, l4: &L4, out: &mut Vec<Viol>) {
        self.stats.inc("unicast_ip_frames_checked");
        let hops = self.m.next_hops(d, t);
        if hops.len() > 1 {
            self.stats.inc("unicast_checks_with_ambiguous_next_hop");
        }
        if hops.iter().any(|nh| self.m.fresh(nh, hw, t)) {
            if !self.m.on_link(d) {
                self.stats.inc("unicast_frames_via_gateway");
            }
            if let Some(nh) = hops.first() {
                if self.m.table.get(nh).map_or(0, |c| c.len()) > 1 {
                    self.stats.inc("unicast_checks_with_optional_candidates");
                }
            }
            return;
        }
        let what = format!("unicast IP packet ({}) to {} sent to hardware address {}", l4_show(l4), d.show(), hw_show(hw));
        // a fragment other than the first: the address was looked up when the FIRST fragment was
        // sent; keep these apart from lookups that go wrong
        let sfx = if *l4 == L4::Frag { "-later-fragment" } else { "" };
        let tab = |m: &Model, ip: &Ip| -> String {
            m.table
                .get(ip)
                .map(|c| c.iter().map(|c| format!("{}@{:.1}s ago", hw_show(&c.hw), (t - c.last) as f64 / 1e6)).collect::<Vec<_>>().join(","))
                .unwrap_or_else(|| "nothing".into())
        };
        if hops.is_empty() {
            self.viol(out, "hwaddr", &format!("no-route{}", sfx), format!("{}; the destination is off-link and no unexpired route matches", what));
            return;
        }
        let ctx = format!(
            "{}; next hop {} for which eligible messages asserted [{}]",
            what,
            hops.iter().map(|h| h.show()).collect::<Vec<_>>().join(" or "),
            hops.iter().map(|h| tab(&self.m, h)).collect::<Vec<_>>().join(" / ")
        );
        if hw_is_group(hw) {
            self.viol(out, "hwaddr", &format!("non-unicast-hwaddr{}", sfx), ctx);
            return;
        }
        for nh in &hops {
            if self.m.table.get(nh).map_or(false, |c| c.iter().any(|c| c.hw == hw)) {
                self.viol(out, "expiry", &format!("used-after-60s{}", sfx), ctx);
                return;
            }
        }
        for nh in &hops {
            if self.m.replaced.iter().any(|(i, h)| i == nh && h == hw) {
                self.viol(out, "hwaddr", &format!("replaced-address{}", sfx), ctx);
                return;
            }
            if let Some((_, _, why)) = self.m.rejected.iter().find(|(i, h, _)| i == nh && h == hw) {
                let why = *why;
                self.viol(out, "hwaddr", &format!("ineligible-{}{}", why, sfx), ctx);
                return;
            }
        }
        let owner = self.m.table.iter().find(|(_, c)| c.iter().any(|c| c.hw == hw)).map(|(i, _)| i.clone());
        if let Some(o) = owner {
            let cause = if &o == d {
                "direct-to-offlink-destination"
            } else if self.m.routes.iter().any(|r| r.via == o) {
                "other-gateways-address"
            } else {
                "other-neighbors-address"
            };
            self.viol(out, "hwaddr", &format!("{}{}", cause, sfx), format!("{}; that address was asserted for {}", ctx, o.show()));
            return;
        }
        if self.m.rejected.iter().any(|(_, h, _)| h == hw) {
            self.viol(out, "hwaddr", &format!("ineligible-senders-address{}", sfx), ctx);
            return;
        }
        self.viol(out, "hwaddr", &format!("never-asserted{}", sfx), ctx);
    }

    /// clause 2 (safety part): what the sockets still hold == accepted minus transmitted
    fn check_queues(&mut self, out: &mut Vec<Viol>) {
        for k in 0..self.n_queues() {
            let (octets, per) = self.real_queue(k);
            if octets % per != 0 {
                self.machinery(out, "queue-octets", format!("socket {} reports {} queued octets, datagrams are {} octets", k, octets, per));
            }
            let real = octets / per;
            let model = self.m.queues[k].len();
            if real < model {
                self.viol(
                    out,
                    "queue",
                    "datagram-lost",
                    format!("socket {} holds {} datagram(s) but {} accepted datagram(s) have not been seen on the wire", k, real, model),
                );
                // resynchronise so that one loss is reported once
                while self.m.queues[k].len() > real {
                    self.m.queues[k].pop_front();
                }
            } else if real > model {
                self.viol(
                    out,
                    "queue",
                    "datagram-still-queued-after-transmission",
                    format!("socket {} holds {} datagram(s), model expects {}", k, real, model),
                );
            }
        }
    }

    fn apply_disc(&mut self, from: Node, kind: DiscKind, out: &mut Vec<Viol>) -> (Vec<Ip>, bool) {
        let Some((frame, effect, traffic)) = self.build_disc(from, kind) else {
            return (vec![], false);
        };
        let now = self.now;
        if let Some((ip, hw)) = traffic {
            if self.m.confirm(&ip, &hw, now) {
                self.stats.inc("confirmations_by_traffic");
            }
        }
        let definite = matches!(effect, Effect::Definite(..));
        self.stats.inc(match effect {
            Effect::Definite(..) => "eligible_assertions",
            Effect::Optional(..) => "optional_assertions",
            Effect::Rejected(_, _, "offlink") => "ineligible_offlink",
            Effect::Rejected(_, _, "nonunicast") => "ineligible_nonunicast",
            Effect::Rejected(..) => "ineligible_invalid_ndisc(hop limit / code / checksum)",
        });
        self.m.apply(effect, now);
        (self.ingress(frame, out), definite)
    }

    fn drain(&mut self, out: &mut Vec<Viol>) {
        let mut rounds = 0;
        loop {
            rounds += 1;
            let mut work: VecDeque<Ip> = self.poll(out).into();
            let mut guard = 0;
            while let Some(t) = work.pop_front() {
                guard += 1;
                if guard > 16 {
                    break;
                }
                let Some(&node) = NODES.iter().find(|&&n| node_ip(self.med, n) == t) else { continue };
                // a real responder ignores ARP requests from senders outside its own subnet
                if let (Some((net, plen)), Some(sender)) = (node_subnet(self.med, node), self.last_req_sender.get(&t)) {
                    if !prefix_contains(&net, plen, sender) {
                        self.stats.inc("drain_requests_unanswerable(sender outside responder's subnet)");
                        continue;
                    }
                }
                let before: Vec<usize> = self.m.queues.iter().map(|q| q.len()).collect();
                let heads: Vec<Option<Vec<Ip>>> = self.m.queues.iter().map(|q| q.front().map(|d| self.m.next_hops(d, self.now))).collect();
                let (r1, definite) = self.apply_disc(node, DiscKind::Reply, out);
                let r2 = self.poll(out);
                work.extend(r1);
                work.extend(r2);
                self.stats.inc("drain_requests_answered");
                if definite {
                    for k in 0..self.n_queues() {
                        if heads[k].as_ref().map_or(false, |h| h.len() == 1 && h[0] == t) {
                            self.stats.inc("drain_progress_checks");
                            if self.m.queues[k].len() >= before[k] {
                                self.viol(
                                    out,
                                    "queue",
                                    "not-sent-after-resolution",
                                    format!("socket {}: next hop {} of its oldest datagram answered the discovery request and the interface was polled, but the datagram was not transmitted", k, t.show()),
                                );
                            }
                        }
                    }
                }
            }
            if self.m.queues.iter().all(|q| q.is_empty()) {
                self.stats.inc("drains_ending_with_everything_transmitted");
                break;
            }
            if rounds >= 8 {
                self.stats.inc("drains_ending_with_data_still_queued(no route / unanswerable next hop / starved)");
                break;
            }
            self.now += SEC;
        }
    }
}

impl Harness for NeighH {
    type Cfg = NeighCfg;
    type Ev = Ev;

    fn new(cfg: &NeighCfg) -> Self {
        let med = cfg.med;
        let hw = our_hw(med);
        let (medium, mtu, hwaddr) = if med.is_eth() {
            (Medium::Ethernet, 1514, HardwareAddress::Ethernet(EthernetAddress::from_bytes(&hw)))
        } else {
            (Medium::Ieee802154, 125, HardwareAddress::Ieee802154(Ieee802154Address::from_bytes(&hw)))
        };
        let mtu = if cfg.big && med.is_eth() { BIG_ETH_MTU } else { mtu };
        let mut dev = SimDevice::new(medium, mtu);
        let mut config = Config::new(hwaddr);
        config.random_seed = 1;
        if !med.is_eth() {
            config.pan_id = Some(Ieee802154Pan(PAN));
        }
        let iface = Interface::new(config, &mut dev, Instant::from_micros(T0));
        let mut sockets = SocketSet::new(vec![]);
        let mut handles = vec![];
        for k in 0..cfg.n_socks {
            let rx = udp::PacketBuffer::new(vec![udp::PacketMetadata::EMPTY; 2], vec![0u8; 8]);
            let per = if k == 0 && cfg.big { big_len(med) } else { 1 };
            let tx = udp::PacketBuffer::new(vec![udp::PacketMetadata::EMPTY; 2], vec![0u8; 2 * per]);
            let mut s = udp::Socket::new(rx, tx);
            s.bind(SOCK_PORT + k as u16).expect("bind");
            handles.push(sockets.add(s));
        }
        if cfg.icmp {
            let rx = icmp::PacketBuffer::new(vec![icmp::PacketMetadata::EMPTY; 1], vec![0u8; 16]);
            let tx = icmp::PacketBuffer::new(vec![icmp::PacketMetadata::EMPTY; 2], vec![0u8; 2 * ICMP_LEN]);
            let mut s = icmp::Socket::new(rx, tx);
            s.bind(icmp::Endpoint::Ident(0x22)).expect("bind");
            handles.push(sockets.add(s));
        }
        let mut h = NeighH {
            cfg: cfg.clone(),
            med,
            now: T0,
            iface,
            dev,
            sockets,
            handles,
            m: Model::default(),
            addr_state: AddrState::Base,
            default_state: 0,
            stats: Stats::default(),
            emitted: vec![],
            log: vec![],
            pending: vec![],
            frag_dst: None,
            last_pending_poll: vec![None; cfg.n_socks + cfg.icmp as usize],
            last_req_sender: BTreeMap::new(),
            call_times: [T0].into_iter().collect(),
        };
        h.m.queues = vec![VecDeque::new(); cfg.n_socks + cfg.icmp as usize];
        h.m.addrs = our_addrs(med, AddrState::Base, cfg.two_nets);
        h.set_real_addrs();
        let g1 = node_ip(med, Node::G1);
        match smol(&g1) {
            IpAddress::Ipv4(a) => {
                h.iface.routes_mut().add_default_ipv4_route(a).expect("route");
            }
            IpAddress::Ipv6(a) => {
                h.iface.routes_mut().add_default_ipv6_route(a).expect("route");
            }
        }
        let (net, plen) = default_net(med);
        h.m.routes.push(RouteM { net, plen, via: g1, expires: None });
        // let start-up chatter (MLD reports for the solicited-node groups) out
        let mut sink = vec![];
        for _ in 0..4 {
            h.poll(&mut sink);
        }
        h.emitted.clear();
        h.stats = Stats::default();
        h.pending = sink;
        h
    }

    fn enabled(&self) -> Vec<(Ev, u32)> {
        self.cfg.alphabet.iter().map(|e| (*e, 0)).collect()
    }

    fn apply(&mut self, ev: &Ev, out: &mut Vec<Viol>) {
        out.append(&mut self.pending);
        self.emitted.clear();
        if self.cfg.verbose {
            let s = format!("t={:8.3}s  {:?}", (self.now - T0) as f64 / 1e6, ev);
            self.log.push(s);
        }
        let med = self.med;
        match *ev {
            Ev::Send { sock, dst } => {
                let d = dst_ip(med, dst);
                let ep = IpEndpoint::new(smol(&d), PEER_PORT);
                let h = self.handles[sock as usize];
                let r = if (sock as usize) < self.cfg.n_socks {
                    let len = if sock == 0 && self.cfg.big { big_len(med) } else { 1 };
                    self.sockets.get_mut::<udp::Socket>(h).send_slice(&vec![0x40 + sock; len], ep).is_ok()
                } else {
                    // echo request, ident 0x22; the socket recomputes the checksum
                    let msg = if med.is_v4() { stim::icmp4_echo(8, 0x22, 1, &[0x40]) } else { stim::icmp6_echo(&d, &d, 128, 0x22, 1, &[0x40]) };
                    debug_assert_eq!(msg.len(), ICMP_LEN);
                    self.sockets.get_mut::<icmp::Socket>(h).send_slice(&msg, smol(&d)).is_ok()
                };
                match if r { Ok(()) } else { Err(()) } {
                    Ok(()) => {
                        self.m.queues[sock as usize].push_back(d);
                        self.stats.inc("sends_accepted");
                    }
                    Err(_) => self.stats.inc("sends_refused_buffer_full"),
                }
            }
            Ev::Disc { from, kind } => {
                self.apply_disc(from, kind, out);
            }
            Ev::Traffic { from, kind } => {
                let (frames, (ip, hw)) = self.build_traffic(from, kind);
                let now = self.now;
                if self.m.confirm(&ip, &hw, now) {
                    self.stats.inc("confirmations_by_traffic");
                }
                for frame in frames {
                    self.ingress(frame, out);
                }
            }
            Ev::Route(op @ (RouteOp::AddSpecific | RouteOp::Add { .. })) => {
                let ((net, plen), via, life) = match op {
                    RouteOp::Add { net, via, life_s } => (rnet(med, net), node_ip(med, via), life_s as i64 * SEC),
                    _ => (specific_route(med), node_ip(med, Node::G2), ROUTE_LIFETIME),
                };
                let exp = self.now + life;
                let cidr = IpCidr::new(smol(&net), plen);
                let route = Route { cidr, via_router: smol(&via), preferred_until: None, expires_at: Some(Instant::from_micros(exp)) };
                let mut ok = false;
                self.iface.routes_mut().update(|v| {
                    v.retain(|r| r.cidr != cidr);
                    ok = v.push(route).is_ok();
                });
                self.m.routes.retain(|r| !(r.net == net && r.plen == plen));
                if ok {
                    self.m.routes.push(RouteM { net, plen, via, expires: Some(exp) });
                    self.stats.inc("routes_added");
                } else {
                    self.stats.inc("route_table_full");
                }
            }
            Ev::Route(RouteOp::CycleDefault) => {
                self.default_state = (self.default_state + 1) % 3;
                let (net, plen) = default_net(med);
                self.m.routes.retain(|r| r.plen != 0);
                let via = match self.default_state {
                    0 => Some(node_ip(med, Node::G1)),
                    1 => Some(node_ip(med, Node::G2)),
                    _ => None,
                };
                match &via {
                    Some(g) => {
                        let ok = match smol(g) {
                            IpAddress::Ipv4(a) => self.iface.routes_mut().add_default_ipv4_route(a).is_ok(),
                            IpAddress::Ipv6(a) => self.iface.routes_mut().add_default_ipv6_route(a).is_ok(),
                        };
                        if ok {
                            self.m.routes.push(RouteM { net, plen, via: g.clone(), expires: None });
                        } else {
                            self.stats.inc("route_table_full");
                        }
                    }
                    None => {
                        if med.is_v4() {
                            self.iface.routes_mut().remove_default_ipv4_route();
                        } else {
                            self.iface.routes_mut().remove_default_ipv6_route();
                        }
                    }
                }
            }
            Ev::Addr { other_net } => {
                self.addr_state = match (self.addr_state, other_net) {
                    (AddrState::Base, false) => AddrState::SameNet,
                    (AddrState::Base, true) => AddrState::OtherNet,
                    _ => AddrState::Base,
                };
                self.m.addrs = our_addrs(med, self.addr_state, self.cfg.two_nets);
                self.set_real_addrs();
                self.stats.inc("address_changes");
            }
            Ev::Advance(ms) => self.now += ms as i64 * 1000,
            Ev::Poll => {
                self.poll(out);
            }
            Ev::Drain => self.drain(out),
        }
        if self.cfg.autopoll && !matches!(ev, Ev::Poll | Ev::Drain) {
            self.poll(out);
        }
        self.check_queues(out);
        let mut em = std::mem::take(&mut self.emitted);
        em.sort();
        em.dedup();
        let label = format!("{} -> [{}]", ev.kind(), em.join(","));
        *self.stats.outcomes.entry(label).or_insert(0) += 1;
    }

    fn fingerprint(&self) -> u128 {
        // real state: interface digest + sockets image, made time-translation invariant.
        // Stripped counters (cannot influence anything this harness observes): `seq` is only
        // copied into the 802.15.4 sequence-number field, `ipv4_id` only into the IPv4
        // identification field and `tag` only into 6LoWPAN fragment headers of emitted frames;
        // smoltcp never reads them back and the oracle ignores those fields (no fragmentation:
        // all packets here are far below the MTU).
        let mut d = self.iface.verif_digest();
        strip_num(&mut d, " seq=");
        strip_num(&mut d, " ipv4_id=");
        strip_num(&mut d, " tag=");
        let real = normalise_times(&format!("{} || {:?}", d, self.sockets), self.now);
        // model state, also relative to now
        let mut tab: Vec<(Ip, Vec<(Vec<u8>, i64)>)> = vec![];
        for (ip, c) in &self.m.table {
            let mut v: Vec<(Vec<u8>, i64)> = c.iter().map(|c| (c.hw.clone(), (self.now - c.last).min(LIFETIME))).collect();
            v.sort();
            tab.push((ip.clone(), v));
        }
        let routes: Vec<(Ip, u8, Ip, i64)> = self
            .m
            .routes
            .iter()
            .map(|r| (r.net.clone(), r.plen, r.via.clone(), r.expires.map_or(i64::MAX, |e| (e - self.now).max(-1))))
            .collect();
        let reqs: Vec<(Ip, i64)> = self.m.last_req.iter().filter(|(_, &t)| self.now - t < MIN_GAP).map(|(i, &t)| (i.clone(), self.now - t)).collect();
        let queues: Vec<Vec<Ip>> = self.m.queues.iter().map(|q| q.iter().cloned().collect()).collect();
        let backoff: Vec<Option<i64>> = self.last_pending_poll.iter().map(|p| p.map(|p| self.now - p).filter(|&a| a < SEC)).collect();
        let any_req = self.m.last_req_any.map(|p| self.now - p).filter(|&a| a < MIN_GAP);
        fp128(&(real, tab, routes, reqs, queues, self.addr_state, self.default_state, &self.frag_dst, backoff, any_req))
    }

    fn outcome(&self) -> String {
        format!("queued={}", self.m.queues.iter().map(|q| q.len()).sum::<usize>())
    }
}

// ---------------------------------------------------------------------------------------
// configurations
// ---------------------------------------------------------------------------------------

fn send(sock: u8, dst: Dst) -> Ev {
    Ev::Send { sock, dst }
}
fn disc(from: Node, kind: DiscKind) -> Ev {
    Ev::Disc { from, kind }
}
fn traf(from: Node, kind: TrafKind) -> Ev {
    Ev::Traffic { from, kind }
}

/// (profile name, sockets, autopoll, alphabet, depth quick, depth thorough)
fn profiles(med: Med, slots: usize) -> Vec<(&'static str, usize, bool, Vec<Ev>, usize, usize)> {
    use DiscKind::*;
    use Dst as D;
    use Node::*;
    let v6 = !med.is_v4();
    let small = slots <= 2;
    let mut out = vec![];
    // competition for the rate limit and (small build) for the cache slots: three on-link
    // neighbors + a gateway for two slots
    {
        let mut a = vec![send(0, D::N1), send(0, D::N2), send(1, D::N2), send(1, D::N3), disc(N1, Reply), disc(N2, Reply), disc(N3, Reply), Ev::Advance(500), Ev::Advance(1000), Ev::Poll, Ev::Drain];
        if small {
            a.push(send(1, D::R1));
            a.push(disc(G1, Reply));
        }
        out.push(("rate", 2, false, a.clone(), 6, 8));
        // the same alphabet driven with poll_ingress_single + poll_egress only
        out.push(("rate-split", 2, false, a, 5, 7));
    }
    // expiry, refresh by traffic, replacement
    {
        let mut a = vec![
            send(0, D::N1),
            send(1, D::N2),
            disc(N1, Reply),
            disc(N1, ReplyAlt),
            disc(N2, Reply),
            traf(N1, TrafKind::Quiet),
            traf(N1, TrafKind::EchoReq),
            Ev::Advance(1000),
            Ev::Advance(59000),
            Ev::Advance(61000),
            Ev::Poll,
        ];
        if v6 {
            a.push(disc(N1, NaNoOverride));
        } else {
            a.push(traf(N1, TrafKind::QuietAlt));
        }
        out.push(("expiry", 2, false, a.clone(), 7, 10));
        out.push(("expiry-split", 2, false, a, 6, 9));
    }
    // routing: default route change, expiring specific route, two gateways
    {
        let a = vec![
            send(0, D::R1),
            send(0, D::R2),
            send(1, D::R2),
            send(1, D::N1),
            disc(G1, Reply),
            disc(G2, Reply),
            disc(N1, Reply),
            Ev::Route(RouteOp::AddSpecific),
            Ev::Route(RouteOp::CycleDefault),
            Ev::Advance(1000),
            Ev::Advance(59000),
            Ev::Advance(61000),
            Ev::Poll,
        ];
        let mut a = a;
        if !v6 {
            // off-link unicast that looks like a broadcast address under our /24 mask
            a.push(send(1, D::RB1));
        }
        out.push(("routing", 2, false, a, 6, 7));
    }
    // IPv4: two own subnets (first address on a /20 that only M1 shares), routed boundary
    // destinations with all-ones / all-zeros host part under either mask
    if !v6 {
        let a = vec![
            send(0, D::N1),
            send(0, D::M1),
            send(1, D::RB1),
            send(1, D::RB2),
            send(1, D::RZ),
            disc(N1, Reply),
            disc(M1, Reply),
            disc(G1, Reply),
            Ev::Addr { other_net: false },
            Ev::Advance(1000),
            Ev::Poll,
            Ev::Drain,
        ];
        out.push(("twonet", 2, false, a, 6, 8));
    }
    // IPv6: advertisements whose target differs from their source. Only N1 and G1 ever speak
    // and addresses never change, so no entry can be lost: Override-clear is judged strictly.
    if v6 {
        let nat = |from, override_flag, other_node| disc(from, NaTarget { override_flag, other_node });
        let a = vec![
            send(0, D::N1),
            send(0, D::R1),
            disc(N1, Reply),
            disc(G1, Reply),
            nat(N1, false, true),
            nat(N1, false, false),
            nat(N1, true, true),
            nat(N1, true, false),
            nat(G1, false, true),
            nat(G1, true, false),
            disc(N1, NaNoOverride),
            traf(N1, TrafKind::Quiet),
            Ev::Advance(1000),
            Ev::Advance(59000),
            Ev::Advance(61000),
            Ev::Poll,
        ];
        out.push(("natarget", 1, false, a, 6, 8));
    }
    // IPv6: NDISC messages that must be silently discarded (hop limit 64 / 1, ICMPv6 code 1,
    // bad checksum) carrying a neighbor's / the gateway's source and a different hardware address
    if v6 {
        let fwd = |from, msg, hop| disc(from, Forwarded { msg, hop });
        let a = vec![
            send(0, D::N1),
            send(0, D::R1),
            disc(N1, Reply),
            disc(G1, Reply),
            fwd(N1, FwdMsg::NaSolOv, 64),
            fwd(N1, FwdMsg::NaSolOv, 1),
            fwd(N1, FwdMsg::NaSolNoOv, 64),
            fwd(N1, FwdMsg::NaSolNoOv, 1),
            fwd(N1, FwdMsg::NaUnsolOv, 64),
            fwd(N1, FwdMsg::NaUnsolOv, 1),
            fwd(N1, FwdMsg::Ns, 64),
            fwd(N1, FwdMsg::Ns, 1),
            fwd(G1, FwdMsg::NaSolOv, 64),
            fwd(G1, FwdMsg::Ns, 1),
            disc(N1, Malformed { bad_csum: false }),
            disc(N1, Malformed { bad_csum: true }),
            Ev::Advance(61000),
            Ev::Poll,
        ];
        out.push(("hoplimit", 1, false, a, 7, 9));
    }
    // overlapping routes with different expiries (60 s and 120 s), same and different gateways
    {
        use RNet::*;
        let add = |net, via, life_s| Ev::Route(RouteOp::Add { net, via, life_s });
        let a = vec![
            send(0, D::R2),
            send(1, D::R1),
            disc(G1, Reply),
            disc(G2, Reply),
            add(Narrow, G2, 60),
            add(Narrow, G1, 60),
            add(Wide, G2, 120),
            add(Default, G2, 120),
            Ev::Route(RouteOp::CycleDefault),
            Ev::Advance(1000),
            Ev::Advance(59000),
            Ev::Advance(61000),
            Ev::Poll,
        ];
        out.push(("routes2", 2, false, a, 5, 7));
    }
    // ineligible / unusual assertions
    {
        let mut a = vec![
            send(0, D::N1),
            send(0, D::R1),
            disc(N1, Reply),
            disc(N1, Request),
            disc(N1, Announce),
            disc(N1, OffLink),
            disc(N1, BcastHw),
            disc(G1, Reply),
            disc(G1, BcastHw),
            traf(N1, TrafKind::EchoReq),
            Ev::Advance(1000),
            Ev::Poll,
        ];
        if med.is_eth() {
            a.push(disc(N1, McastHw));
        }
        a.push(disc(N1, RequestAlt));
        out.push(("spoof", 1, false, a, 6, 9));
    }
    // address changes (cache flush, eligibility follows the current subnets)
    {
        let a = vec![
            send(0, D::N1),
            send(1, D::R1),
            disc(N1, Reply),
            disc(G1, Reply),
            traf(N1, TrafKind::Udp),
            Ev::Addr { other_net: false },
            Ev::Addr { other_net: true },
            Ev::Advance(1000),
            Ev::Advance(61000),
            Ev::Poll,
            Ev::Drain,
        ];
        out.push(("addr", 2, false, a, 7, 9));
    }
    // datagrams needing >= 3 link-layer fragments (only one fragment goes out per poll_egress
    // pass, the rest in later polls). IPv6 over Ethernet has no fragmentation support.
    if med != Med::EthV6 {
        let a = vec![send(0, D::N1), send(1, D::N1), disc(N1, Reply), disc(N1, ReplyAlt), Ev::Advance(1000), Ev::Advance(61000), Ev::Poll];
        out.push(("frag", 2, false, a, 7, 9));
        // a second neighbor whose oversized echo request makes the interface build a reply that
        // needs the (single) fragmentation buffer while fragments of a socket datagram are pending
        let a = vec![send(0, D::N1), disc(N1, Reply), disc(N2, Reply), traf(N2, TrafKind::EchoBig), traf(N2, TrafKind::EchoReq), Ev::Advance(1000), Ev::Poll];
        out.push(("frag2", 1, false, a, 7, 9));
    }
    // everything polled after every event: three sockets, deeper in terms of protocol steps
    {
        let a = vec![
            send(0, D::N1),
            send(1, D::N2),
            send(2, D::R1),
            send(2, D::N3),
            // socket 3 is the ICMP socket (echo request)
            send(3, D::N1),
            disc(N1, Reply),
            disc(N2, Reply),
            disc(N3, Request),
            disc(G1, Reply),
            traf(N2, TrafKind::EchoReq),
            traf(N3, TrafKind::Udp),
            Ev::Advance(500),
            Ev::Advance(1000),
            Ev::Advance(59000),
            Ev::Advance(61000),
            Ev::Drain,
        ];
        out.push(("auto", 3, true, a, 5, 6));
    }
    out
}

fn all_cfgs(tier: Tier) -> Vec<(NeighCfg, usize)> {
    let slots = smoltcp::config::IFACE_NEIGHBOR_CACHE_COUNT;
    let mut v = vec![];
    for med in [Med::EthV4, Med::EthV6, Med::LowV6] {
        for (name, n_socks, autopoll, alphabet, dq, dt) in profiles(med, slots) {
            let cfg = NeighCfg {
                label: format!("{}/{}", med.name(), name),
                med,
                n_socks,
                icmp: name == "auto",
                big: name.starts_with("frag"),
                two_nets: name == "twonet",
                split: name.ends_with("-split"),
                strict_no_override: name == "natarget",
                autopoll,
                alphabet: Arc::new(alphabet),
                cache_slots: slots,
                verbose: false,
            };
            v.push((cfg, if tier == Tier::Quick { dq } else { dt }));
        }
    }
    v
}

/// run a list of events directly (samples, demonstrations)
fn trace(cfg: &NeighCfg, evs: &[Ev]) -> (Vec<String>, Vec<Viol>) {
    let mut c = cfg.clone();
    c.verbose = true;
    let mut h = NeighH::new(&c);
    let mut out = vec![];
    for e in evs {
        h.apply(e, &mut out);
    }
    (std::mem::take(&mut h.log), out)
}

pub fn run(tier: Tier) -> i32 {
    let mut rep = Report::new("C16", tier);
    let slots = smoltcp::config::IFACE_NEIGHBOR_CACHE_COUNT;
    rep.assumptions.push("reference model (own addresses, longest-prefix routes with expiry, table of eligible hardware-address assertions with time of last confirmation, per-socket FIFO of accepted datagrams) and the independent frame parser neigh::parse are trusted".into());
    rep.assumptions.push("frames from neighbors are processed on arrival with Interface::poll_ingress_single; the Poll event is Interface::poll (maintenance + egress; the device receive queue is empty then). This is the decomposition the Interface::poll documentation itself describes; queued-then-polled arrival orders are therefore covered as consecutive arrival events at the same instant".into());
    rep.assumptions.push("lenient readings are listed at the top of src/neigh.rs (confirmation = any traffic from the neighbor's IP+hardware address to one of our unicast addresses, resurrection accepted, optional assertions add candidates, route expiry instant counts either way, rate limit judged per target)".into());
    rep.assumptions.push("fingerprint = verif_digest + sockets Debug image + model, with every Instant rewritten relative to now (past instants by rank) and the counters seq/ipv4_id/tag stripped (they only end up in emitted header fields the oracle ignores)".into());
    rep.assumptions.push(format!("this build: IFACE_NEIGHBOR_CACHE_COUNT={} IFACE_MAX_ROUTE_COUNT={} IFACE_MAX_ADDR_COUNT={}; eviction is only reachable in the `small` variant (2 slots, up to 5 speakers) — run both variants", slots, smoltcp::config::IFACE_MAX_ROUTE_COUNT, smoltcp::config::IFACE_MAX_ADDR_COUNT));
    let lim = Limits { max_states: 8_000_000, max_wall_s: 3000.0 };
    let mut parts = vec![];
    let mut total = Stats::default();
    GLOBAL.lock().unwrap().clear();
    // configurations are independent: explore them concurrently (each BFS is itself parallel
    // and deterministic), then merge the results in configuration order
    let cfgs = all_cfgs(tier);
    let timing = std::env::var("VERIF_NEIGH_TIMING").is_ok();
    let results: Vec<(Result<crate::core::Stats, String>, Vec<Found>, Vec<serde_json::Value>)> = {
        use rayon::prelude::*;
        cfgs.par_iter()
            .map(|(cfg, depth)| {
                let t = std::time::Instant::now();
                let mut found = vec![];
                let mut samples = vec![];
                let r = bfs::<NeighH>(&cfg.label, cfg, *depth, &lim, &mut found, &mut samples);
                if timing {
                    eprintln!("{} depth {}: {:.1}s {:?}", cfg.label, depth, t.elapsed().as_secs_f64(), r.as_ref().map(|s| s.per_level.clone()));
                }
                (r, found, samples)
            })
            .collect()
    };
    for ((cfg, depth), (r, found, samples)) in cfgs.iter().zip(results) {
        let depth = *depth;
        let st = GLOBAL.lock().unwrap().remove(&cfg.label).unwrap_or_default();
        for f in found {
            if !rep.found.iter().any(|g| g.viol.sig == f.viol.sig) {
                rep.found.push(f);
            }
        }
        match r {
            Ok(s) => {
                rep.absorb(&format!("{} depth<={}", cfg.label, depth), &s);
                parts.push(json!({
                    "config": cfg.label, "depth": depth, "udp_sockets": cfg.n_socks, "icmp_socket": cfg.icmp, "poll_after_every_event": cfg.autopoll,
                    "alphabet_size": cfg.alphabet.len(),
                    "alphabet": cfg.alphabet.iter().map(|e| format!("{:?}", e)).collect::<Vec<_>>(),
                    "states": s.states, "transitions": s.transitions, "exhaustive_to_depth": s.exhaustive, "cap": s.cap_note,
                    "distinct_outcomes(event kind -> frame classes emitted)": st.outcomes.len(),
                    "oracle_counters_incl_replays": st.n,
                    "min_gap_between_any_two_discovery_requests_us": st.min_gap_any,
                    "min_gap_between_two_requests_for_same_target_us": st.min_gap_same,
                }));
                if rep.samples.len() < 3 && cfg.label.ends_with("/rate") {
                    rep.samples.extend(samples);
                }
                total.merge(&st);
            }
            Err(e) => rep.machinery_errors.push(format!("{}: {}", cfg.label, e)),
        }
    }
    // machinery problems detected inside the harness are not verdicts
    let (mach, real): (Vec<Found>, Vec<Found>) = std::mem::take(&mut rep.found).into_iter().partition(|f| f.viol.sig.starts_with("MACHINERY/"));
    rep.found = real;
    for f in rep.found.iter_mut() {
        // panics inside smoltcp caught by the engine: give them a C16 signature
        if let Some(site) = f.viol.sig.strip_prefix("panic/") {
            let medium = f.replay["harness"].as_str().unwrap_or("?/").split('/').next().unwrap_or("?").to_string();
            f.viol.sig = format!("C16/panic/{}/{}", medium, site);
        }
    }
    for m in mach {
        rep.machinery_errors.push(format!("{}: {} (replay {})", m.viol.sig, m.viol.detail, m.replay));
    }
    rep.cov("configurations", json!(parts));
    rep.cov("outcomes_all_configs", json!(total.outcomes));
    rep.cov("oracle_counters_all_configs_incl_replays", json!(total.n));
    rep.cov("min_gap_between_any_two_discovery_requests_us(evidence only)", json!(total.min_gap_any));
    rep.cov("min_gap_between_two_requests_for_same_target_us", json!(total.min_gap_same));
    rep.add_count("evaluations", total.n.get("frames_emitted").copied().unwrap_or(0));
    rep.add_count("distinct_nontrivial", total.outcomes.len() as u64);
    rep.cov(
        "rule",
        json!("per configuration: BFS over all event sequences up to the stated depth from the fresh interface, every event of the configuration's alphabet enabled in every state; states merged on a time-translation-invariant fingerprint of interface digest + sockets + model; every frame handed to the device in every transition is parsed independently and judged (unicast IP -> fresh eligible assertion for the model's next hop; socket datagrams in FIFO order exactly once; send_queue()==accepted-transmitted after every event; same-target discovery requests >= 1 s apart; Drain: answered next hop => oldest datagram transmitted in that poll). distinct_nontrivial = distinct (event kind -> emitted frame classes) outcomes; evaluations = frames judged (including BFS replays)"),
    );
    // written-out samples: one scripted scenario per medium with the frames it produced
    for med in [Med::EthV4, Med::EthV6, Med::LowV6] {
        if let Some((cfg, _)) = all_cfgs(tier).into_iter().find(|(c, _)| c.med == med && c.label.ends_with("/expiry")) {
            let evs = [
                send(0, Dst::N1),
                Ev::Poll,
                disc(Node::N1, DiscKind::Reply),
                Ev::Poll,
                Ev::Advance(59000),
                traf(Node::N1, TrafKind::Quiet),
                Ev::Advance(59000),
                send(0, Dst::N1),
                Ev::Poll,
                Ev::Advance(1000),
                send(0, Dst::N1),
                Ev::Poll,
            ];
            let (log, v) = trace(&cfg, &evs);
            rep.samples.push(json!({"scenario": format!("{}: resolve, refresh by traffic at 59 s, use at 118 s, expired at 119 s", med.name()), "log": log, "violations": v.iter().map(|v| v.sig.clone()).collect::<Vec<_>>()}));
        }
    }
    for med in [Med::EthV4, Med::LowV6] {
        if let Some((cfg, _)) = all_cfgs(tier).into_iter().find(|(c, _)| c.med == med && c.label.ends_with("/frag")) {
            let evs = [send(0, Dst::N1), disc(Node::N1, DiscKind::Reply), Ev::Poll, Ev::Poll, send(0, Dst::N1), Ev::Poll, disc(Node::N1, DiscKind::ReplyAlt), Ev::Poll];
            let (log, v) = trace(&cfg, &evs);
            rep.samples.push(json!({"scenario": format!("{}: datagram in >= 3 fragments, one fragment per egress pass; second datagram: neighbor changes its address between two polls", med.name()), "log": log, "violations": v.iter().map(|v| v.sig.clone()).collect::<Vec<_>>()}));
        }
    }
    rep.finish()
}

pub fn replay(art: &serde_json::Value) -> i32 {
    let label = art["replay"]["harness"].as_str().unwrap_or("");
    let slots = smoltcp::config::IFACE_NEIGHBOR_CACHE_COUNT;
    let cfgs = all_cfgs(Tier::Quick);
    let Some((cfg, _)) = cfgs.into_iter().find(|(c, _)| c.label == label) else {
        eprintln!("MACHINERY ERROR: unknown configuration {:?}", label);
        return 2;
    };
    let recorded = art["replay"]["config"].as_str().unwrap_or("");
    if !recorded.contains(&format!("cache_slots: {},", slots)) {
        eprintln!("note: artefact was recorded with a different IFACE_NEIGHBOR_CACHE_COUNT than this build ({}); use VERIF_VARIANT=small|default", slots);
    }
    let choices: Vec<u16> = art["replay"]["choices"].as_array().map(|a| a.iter().map(|x| x.as_u64().unwrap_or(0) as u16).collect()).unwrap_or_default();
    let mut evs = vec![];
    for c in &choices {
        match cfg.alphabet.get(*c as usize) {
            Some(e) => evs.push(*e),
            None => {
                eprintln!("MACHINERY ERROR: choice {} outside the alphabet of {}", c, label);
                return 2;
            }
        }
    }
    let r = std::panic::catch_unwind(std::panic::AssertUnwindSafe(|| trace(&cfg, &evs)));
    match r {
        Err(e) => {
            println!("panic: {} at {}", panic_msg(e), last_panic_loc());
            1
        }
        Ok((log, viols)) => {
            for l in log {
                println!("{}", l);
            }
            let real: Vec<&Viol> = viols.iter().filter(|v| !v.sig.starts_with("MACHINERY/")).collect();
            if real.is_empty() {
                println!("no violation on replay");
                0
            } else {
                for v in real {
                    println!("violation: {} :: {}", v.sig, v.detail);
                }
                1
            }
        }
    }
}
