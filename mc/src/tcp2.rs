//! stub — not built yet
use crate::core::*;
pub fn run_c01(_tier: Tier) -> i32 {
    2
}
pub fn replay_c01(_art: &serde_json::Value) -> i32 {
    2
}
pub fn run_c02(_tier: Tier) -> i32 {
    2
}
pub fn replay_c02(_art: &serde_json::Value) -> i32 {
    2
}
