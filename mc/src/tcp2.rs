//! tcp2 — two REAL smoltcp interfaces (Medium::Ip), one tcp::Socket each, joined by a network
//! the explorer controls. Serves C01 (stream integrity), C02 (progress / finite deadline),
//! and carries the C05 sender monitor; its runs are also reused by C10/C13.
//!
//! Default schedule: deliver the oldest in-flight frame; applications act eagerly (to a
//! fixpoint after every event); advance the clock to the earliest poll_at only when nothing
//! is in flight. Deviations (cost 1 each): drop / duplicate / corrupt the head frame of a
//! direction, deliver a non-head frame first (reorder), let a timer fire while frames are in
//! flight (delay), stall a reader (zero windows).

use crate::core::*;
use crate::sim::*;
use crate::wirecheck::{self as wc, TcpInfo};
use serde_json::json;
use smoltcp::iface::{Config, Interface, SocketHandle, SocketSet};
use smoltcp::phy::Medium;
use smoltcp::socket::tcp::{self, CongestionControl, State};
use smoltcp::time::{Duration, Instant};
use smoltcp::wire::{HardwareAddress, IpAddress, IpCidr, Ipv4Address, Ipv6Address};

#[derive(Clone, Debug)]
pub struct Tcp2Cfg {
    pub name: &'static str,
    pub rx: [usize; 2],
    pub tx: [usize; 2],
    pub mtu: usize,
    pub len: [usize; 2],
    pub chunk: usize,
    pub cc: u8, // 0 none 1 reno 2 cubic
    pub nagle: bool,
    pub ack_delay: bool,
    pub isn: Option<[u32; 2]>,
    pub v6: bool,
    /// B closes only after it saw Finished (true) or as soon as it wrote everything (false)
    pub b_waits_fin: bool,
    pub allow_corrupt: bool,
    pub allow_stall: bool,
    pub keep_alive_ms: Option<u64>,
    pub timeout_ms: Option<u64>,
    pub slaac: bool,
    /// run over Medium::Ethernet (ARP / NDISC between the two real interfaces) instead of raw IP
    pub eth: bool,
    /// a stalled reader stays stalled across clock advances, also after the peer's FIN and
    /// through TIME-WAIT expiry (the socket then discards what was not read: that loss is
    /// the application's doing and waived by C02, but C01 still applies: Finished must not
    /// be reported for a stream that was not handed over completely)
    pub lazy_reader: bool,
    /// the explored connection is the SECOND one on the same two sockets. 1: the first one
    /// ended by A.abort() with residue everywhere (unacknowledged data in both transmit
    /// buffers, an out-of-order island in B's reassembler); 2: the first one was closed
    /// gracefully by A (A sits in TIME-WAIT, B went LAST-ACK -> CLOSED, both saw a FIN)
    pub prefix: u8,
    /// simultaneous open: B does not listen but connects to A's port pair as well
    pub simul_open: bool,
    /// DeviceCapabilities::max_burst_size of both devices (the stack then clamps the window it
    /// advertises to that many segments)
    pub burst: Option<usize>,
    /// the alphabet includes `BlockedTick` (transient device back-pressure at a timer instant)
    pub allow_blocked_tick: bool,
    /// the alphabet includes `Oversleep` (both hosts suspended for 25 days, frames in flight
    /// kept): C02's premise "polled no later than poll_at" is void for such a run's past, but
    /// the stream must still be a prefix (C01) and the connection must still complete once
    /// polling resumes
    pub allow_oversleep: bool,
    /// the alphabet includes `SetKeepAlive` (the application switches keep-alive on in the middle
    /// of the connection, once per side)
    pub allow_set_keepalive: bool,
    /// both devices compute the TCP checksum on transmit (DeviceCapabilities checksum.tcp =
    /// Checksum::Rx: the stack still verifies what it receives); the harness plays the device
    /// and fills the checksum in when a frame leaves. IPv4 only
    pub tx_offload_tcp: bool,
    /// endpoint A also owns a UDP socket that queues one datagram for B this many microseconds
    /// after connect() (nothing is delivered in between): two sockets of one interface then
    /// wait for the same neighbor with their retry timers out of phase
    pub aux_udp_us: Option<i64>,
}

impl Tcp2Cfg {
    pub const fn base(name: &'static str) -> Tcp2Cfg {
        Tcp2Cfg {
            name,
            rx: [64, 64],
            tx: [64, 64],
            mtu: 80,
            len: [60, 0],
            chunk: 1000,
            cc: 0,
            nagle: true,
            ack_delay: true,
            isn: None,
            v6: false,
            b_waits_fin: true,
            allow_corrupt: false,
            allow_stall: true,
            keep_alive_ms: None,
            timeout_ms: None,
            slaac: false,
            eth: false,
            lazy_reader: false,
            prefix: 0,
            simul_open: false,
            burst: None,
            allow_blocked_tick: false,
            allow_oversleep: false,
            allow_set_keepalive: false,
            tx_offload_tcp: false,
            aux_udp_us: None,
        }
    }
}

/// the IP packet inside a frame of this configuration's medium (None: not IP, e.g. ARP)
/// what a transmit-checksum-offloading device does to an IPv4/TCP frame: the TCP checksum is
/// computed over pseudo-header and segment and written into the frame
pub fn fill_tcp_checksum_v4(eth: bool, f: &mut [u8]) {
    let o = if eth {
        if f.len() < 14 || (f[12], f[13]) != (0x08, 0x00) {
            return;
        }
        14
    } else {
        0
    };
    if f.len() < o + 20 || f[o] >> 4 != 4 || f[o + 9] != 6 {
        return;
    }
    // fragments are left alone (none occur here)
    if (u16::from_be_bytes([f[o + 6], f[o + 7]]) & 0x3fff) != 0 {
        return;
    }
    let ihl = ((f[o] & 0x0f) as usize) * 4;
    let total = u16::from_be_bytes([f[o + 2], f[o + 3]]) as usize;
    if total < ihl + 20 || f.len() < o + total {
        return;
    }
    let seg_len = total - ihl;
    let t = o + ihl;
    f[t + 16] = 0;
    f[t + 17] = 0;
    let mut ph = Vec::with_capacity(12);
    ph.extend_from_slice(&f[o + 12..o + 20]);
    ph.extend_from_slice(&[0, 6]);
    ph.extend_from_slice(&(seg_len as u16).to_be_bytes());
    let sum = !wc::rfc1071_sum(&[&ph, &f[t..t + seg_len]]);
    f[t + 16..t + 18].copy_from_slice(&sum.to_be_bytes());
}

pub fn ip_part(eth: bool, f: &[u8]) -> Option<&[u8]> {
    if !eth {
        return Some(f);
    }
    if f.len() < 14 {
        return None;
    }
    match (f[12], f[13]) {
        (0x08, 0x00) | (0x86, 0xdd) => Some(&f[14..]),
        _ => None,
    }
}

#[derive(Clone, Debug, PartialEq)]
pub enum Ev {
    /// deliver frame `idx` of the queue travelling towards endpoint `to`
    Deliver { to: usize, idx: usize },
    Drop { to: usize },
    Dup { to: usize },
    Corrupt { to: usize },
    /// like Corrupt, but the flipped bit is in the LAST octet of the frame
    CorruptTail { to: usize },
    /// advance the clock to the earliest poll_at deadline
    Tick,
    Stall { side: usize },
    Unstall { side: usize },
    /// like Tick, but `side`'s device refuses every frame while the timers of that instant fire
    /// (transmit() returns None); the device accepts again afterwards and nothing is polled
    /// until the next event - whatever could not be sent is still pending then
    BlockedTick { side: usize },
    /// the head frame travelling towards `to` is delivered while `to`'s device refuses every
    /// frame (whatever the arrival makes the stack want to send cannot leave in that poll); the
    /// device accepts again afterwards and nothing is polled until the next event
    BlockedDeliver { to: usize },
    /// both hosts are suspended for 2^31 ms + 1 s without a poll; frames in flight stay in flight
    Oversleep,
    /// `side`'s application calls set_keep_alive(Some(300 ms)) now
    SetKeepAlive { side: usize },
    /// `side`'s application calls set_keep_alive(None) now (keep-alive was on)
    ClearKeepAlive { side: usize },
}

/// 2^31 ms + 1 s in microseconds
pub const OVERSLEEP_US: i64 = ((1i64 << 31) + 1_000) * 1_000;

pub struct Frame {
    pub id: u64,
    pub bytes: Vec<u8>,
    pub corrupted: bool,
}

pub struct End {
    pub iface: Interface,
    pub dev: SimDevice,
    pub sockets: SocketSet<'static>,
    pub h: SocketHandle,
    pub data: Vec<u8>,
    pub written: usize,
    pub closed: bool,
    pub read: Vec<u8>,
    pub finished: bool,
    pub stalled: bool,
    pub spinning: bool,
    pub addr: IpAddress,
    pub rx_cap: usize,
    pub invalid_seen: bool,
    /// the socket is CLOSED and refuses reads although the stream was not finished
    pub gave_up: bool,
    /// auxiliary UDP socket (configurations with `aux_udp_us`)
    pub aux: Option<SocketHandle>,
}

impl End {
    pub fn sock(&mut self) -> &mut tcp::Socket<'static> {
        self.sockets.get_mut::<tcp::Socket>(self.h)
    }
    pub fn state(&self) -> State {
        self.sockets.get::<tcp::Socket>(self.h).state()
    }
}

pub use crate::sendmon::SenderMon;

pub struct Tcp2 {
    pub cfg: Tcp2Cfg,
    pub now: i64, // microseconds
    pub ends: [End; 2],
    /// net[d]: frames travelling towards endpoint d, in emission order
    pub net: [Vec<Frame>; 2],
    pub next_id: u64,
    pub mon: [SenderMon; 2],
    pub events: usize,
    pub pending: Vec<Viol>,
    /// every frame emitted: (from, time, bytes) — for C10/C08 style monitors and replays
    pub log: Vec<String>,
    pub keep_log: bool,
    pub emitted: Vec<(usize, Vec<u8>)>,
    pub keep_emitted: bool,
    pub cached_deadline: Option<i64>,
    pub ka_set: [bool; 2],
    pub ka_cleared: [bool; 2],
}

pub const PORT_A: u16 = 49152;
pub const PORT_B: u16 = 80;

fn addr_of(v6: bool, side: usize) -> IpAddress {
    if v6 {
        IpAddress::Ipv6(Ipv6Address::new(0xfd00, 0, 0, 0, 0, 0, 0, 1 + side as u16))
    } else {
        IpAddress::Ipv4(Ipv4Address::new(10, 0, 0, 1 + side as u8))
    }
}

pub fn pattern(side: usize, n: usize) -> Vec<u8> {
    // all bytes distinct mod 251; different phase per side
    (0..n).map(|i| ((i * 7 + 3 + side * 101) % 251) as u8).collect()
}

impl Tcp2 {
    fn make_end(cfg: &Tcp2Cfg, side: usize) -> End {
        let mut dev = SimDevice::new(if cfg.eth { Medium::Ethernet } else { Medium::Ip }, if cfg.eth { cfg.mtu + 14 } else { cfg.mtu });
        if cfg.tx_offload_tcp {
            assert!(!cfg.v6, "tx_offload_tcp: IPv4 only");
            dev.checksum.tcp = smoltcp::phy::Checksum::Rx;
        }
        dev.max_burst = cfg.burst;
        let mut c = Config::new(if cfg.eth {
            HardwareAddress::Ethernet(smoltcp::wire::EthernetAddress([0x02, 0, 0, 0, 0, 1 + side as u8]))
        } else {
            HardwareAddress::Ip
        });
        c.slaac = cfg.slaac;
        c.random_seed = match cfg.isn {
            // the ISN is the 4th draw: three draws in Interface::new, then random_seq_no
            Some(isn) => seed_for_nth_output(isn[side], 4, 0x1234567 + side as u64),
            None => 0x5eed_0000 + side as u64,
        };
        let mut iface = Interface::new(c, &mut dev, Instant::from_micros(0));
        let addr = addr_of(cfg.v6, side);
        iface.update_ip_addrs(|a| {
            a.push(IpCidr::new(addr, if cfg.v6 { 64 } else { 24 })).unwrap();
            if cfg.slaac {
                // SLAAC needs a link-local address to solicit routers from
                a.push(IpCidr::new(IpAddress::Ipv6(Ipv6Address::new(0xfe80, 0, 0, 0, 0, 0, 0, 1 + side as u16)), 64)).unwrap();
            }
        });
        let mut s = tcp::Socket::new(
            tcp::SocketBuffer::new(vec![0u8; cfg.rx[side]]),
            tcp::SocketBuffer::new(vec![0u8; cfg.tx[side]]),
        );
        s.set_nagle_enabled(cfg.nagle);
        s.set_ack_delay(if cfg.ack_delay { Some(Duration::from_millis(10)) } else { None });
        s.set_congestion_control(match cfg.cc {
            1 => CongestionControl::Reno,
            2 => CongestionControl::Cubic,
            _ => CongestionControl::None,
        });
        s.set_keep_alive(cfg.keep_alive_ms.map(Duration::from_millis));
        s.set_timeout(cfg.timeout_ms.map(Duration::from_millis));
        let mut sockets = SocketSet::new(vec![]);
        let h = sockets.add(s);
        let aux = if cfg.aux_udp_us.is_some() && side == 0 {
            use smoltcp::socket::udp;
            let mut u = udp::Socket::new(
                udp::PacketBuffer::new(vec![udp::PacketMetadata::EMPTY; 2], vec![0u8; 64]),
                udp::PacketBuffer::new(vec![udp::PacketMetadata::EMPTY; 2], vec![0u8; 64]),
            );
            u.bind(9999).expect("udp bind");
            Some(sockets.add(u))
        } else {
            None
        };
        End {
            iface,
            dev,
            sockets,
            h,
            data: pattern(side, cfg.len[side]),
            written: 0,
            closed: false,
            read: vec![],
            finished: false,
            stalled: false,
            spinning: false,
            addr,
            rx_cap: cfg.rx[side],
            invalid_seen: false,
            gave_up: false,
            aux,
        }
    }

    /// poll one side outside the monitored world (first connection of a `prefix` configuration)
    fn raw_poll(&mut self, side: usize) -> Vec<Vec<u8>> {
        let now = self.instant();
        let e = &mut self.ends[side];
        e.iface.poll(now, &mut e.dev, &mut e.sockets);
        e.dev.take_tx().into_iter().map(|(_, f)| f).collect()
    }
    /// shuttle frames both ways until nothing is emitted any more
    fn raw_run(&mut self) {
        for _ in 0..64 {
            let a = self.raw_poll(0);
            for f in &a {
                self.ends[1].dev.rx.push_back(f.clone());
            }
            let b = self.raw_poll(1);
            for f in &b {
                self.ends[0].dev.rx.push_back(f.clone());
            }
            if a.is_empty() && b.is_empty() && self.ends[0].dev.rx.is_empty() && self.ends[1].dev.rx.is_empty() {
                return;
            }
        }
        panic!("first connection does not settle");
    }
    /// A scripted earlier connection on the same sockets (no time passes, nothing is explored,
    /// nothing is judged); what it leaves behind must not leak into the explored connection.
    fn first_connection(&mut self, kind: u8) {
        assert!(!self.cfg.eth && self.cfg.isn.is_none(), "prefix configurations: IP medium, free ISN");
        self.ends[1].sock().listen(PORT_B).expect("listen");
        let remote = self.ends[1].addr;
        {
            let e = &mut self.ends[0];
            let cx = e.iface.context();
            e.sockets.get_mut::<tcp::Socket>(e.h).connect(cx, (remote, PORT_B), PORT_A).expect("connect");
        }
        self.raw_run();
        assert!(self.ends[0].state() == State::Established && self.ends[1].state() == State::Established, "first connection not established");
        match kind {
            1 => {
                let na = self.ends[0].sock().send_slice(&[0xa1; 4096]).unwrap_or(0);
                let nb = self.ends[1].sock().send_slice(&[0xb2; 4096]).unwrap_or(0);
                assert!(na > 0 && nb > 0);
                // everything A sends in one burst; only its last segment reaches B: an island
                let mut burst = vec![];
                for _ in 0..8 {
                    let f = self.raw_poll(0);
                    if f.is_empty() {
                        break;
                    }
                    burst.extend(f);
                }
                if burst.len() >= 2 {
                    let last = burst.pop().unwrap();
                    self.ends[1].dev.rx.push_back(last);
                }
                // B's data and (duplicate) ACKs never arrive: its transmit buffer stays full
                let _ = self.raw_poll(1);
                self.ends[0].sock().abort();
                for f in self.raw_poll(0) {
                    self.ends[1].dev.rx.push_back(f);
                }
                let _ = self.raw_poll(1);
                assert!(self.ends[0].state() == State::Closed && self.ends[1].state() == State::Closed, "first connection not reset");
            }
            _ => {
                self.ends[0].sock().send_slice(b"first connection").unwrap();
                self.ends[0].sock().close();
                self.raw_run();
                let mut buf = [0u8; 64];
                while let Ok(n) = self.ends[1].sock().recv_slice(&mut buf) {
                    if n == 0 {
                        break;
                    }
                }
                self.raw_run();
                self.ends[1].sock().close();
                self.raw_run();
                assert!(self.ends[0].state() == State::TimeWait && self.ends[1].state() == State::Closed, "first connection not closed: {:?} {:?}", self.ends[0].state(), self.ends[1].state());
            }
        }
        for e in self.ends.iter_mut() {
            e.dev.rx.clear();
            let _ = e.dev.take_tx();
        }
    }

    pub fn instant(&self) -> Instant {
        Instant::from_micros(self.now)
    }

    pub fn poll_side(&mut self, side: usize) -> usize {
        let now = self.instant();
        let e = &mut self.ends[side];
        e.iface.poll(now, &mut e.dev, &mut e.sockets);
        let frames = e.dev.take_tx();
        let n = frames.len();
        let rq = e.sockets.get::<tcp::Socket>(e.h).recv_queue();
        for (i, (_ts, mut f)) in frames.into_iter().enumerate() {
            if self.cfg.tx_offload_tcp {
                fill_tcp_checksum_v4(self.cfg.eth, &mut f);
            }
            match ip_part(self.cfg.eth, &f) {
                Some(ip) => {
                    let ip = ip.to_vec();
                    self.on_emit(side, &ip, n == 1 && i == 0, rq);
                    if self.keep_log {
                        self.log.push(format!("t={}us {}: {}", self.now, ["A", "B"][side], wc::describe_ip_frame(&ip)));
                    }
                }
                None => {
                    if self.keep_log {
                        self.log.push(format!("t={}us {}: non-IP frame {}", self.now, ["A", "B"][side], hex(&f)));
                    }
                }
            }
            if false {
                self.log.push(String::new());
            }
            if self.keep_emitted {
                self.emitted.push((side, f.clone()));
            }
            self.net[1 - side].push(Frame { id: self.next_id, bytes: f, corrupted: false });
            self.next_id += 1;
        }
        n
    }

    pub fn poll_at(&mut self, side: usize) -> Option<i64> {
        let now = self.instant();
        let e = &mut self.ends[side];
        e.iface.poll_at(now, &e.sockets).map(|t| t.total_micros())
    }

    /// one eager application step; returns true if any call had an effect
    fn app_step(&mut self, side: usize) -> bool {
        let b_waits = self.cfg.b_waits_fin;
        let chunk = self.cfg.chunk;
        let mut progress = false;
        let peer_written_total = if self.ends[1 - side].closed { Some(self.ends[1 - side].written) } else { None };
        let peer_data: Vec<u8> = {
            let p = &self.ends[1 - side];
            p.data[..p.written].to_vec()
        };
        let e = &mut self.ends[side];
        let sock = e.sockets.get_mut::<tcp::Socket>(e.h);
        // read side
        if !e.stalled && !e.finished {
            let mut buf = [0u8; 4096];
            loop {
                match sock.recv_slice(&mut buf) {
                    Ok(0) => break,
                    Ok(n) => {
                        e.read.extend_from_slice(&buf[..n]);
                        progress = true;
                        if e.read.len() > peer_data.len() || e.read[..] != peer_data[..e.read.len()] {
                            let at = e.read.iter().zip(peer_data.iter()).position(|(a, b)| a != b).unwrap_or(peer_data.len().min(e.read.len()));
                            self.pending.push(Viol::new(
                                "C01/not-a-prefix",
                                format!("{} received {} bytes which are not a prefix of the {} bytes the peer wrote (first difference at offset {})", ["A", "B"][side], e.read.len(), peer_data.len(), at),
                            ));
                            e.finished = true; // stop cascading
                            break;
                        }
                    }
                    Err(tcp::RecvError::Finished) => {
                        e.finished = true;
                        progress = true;
                        let complete = match peer_written_total {
                            Some(t) => e.read.len() == t,
                            None => false,
                        };
                        if !complete {
                            self.pending.push(Viol::new(
                                "C01/finished-before-all-bytes",
                                format!(
                                    "{} got Finished after {} bytes but the peer wrote {} bytes before closing (peer closed: {})",
                                    ["A", "B"][side],
                                    e.read.len(),
                                    peer_data.len(),
                                    peer_written_total.is_some()
                                ),
                            ));
                        }
                        break;
                    }
                    Err(tcp::RecvError::InvalidState) => {
                        if sock.state() == State::Closed && !e.gave_up {
                            e.gave_up = true;
                            progress = true;
                        }
                        break;
                    }
                }
            }
        }
        // write side
        if !e.closed {
            while e.written < e.data.len() && sock.may_send() {
                let n = chunk.min(e.data.len() - e.written);
                match sock.send_slice(&e.data[e.written..e.written + n]) {
                    Ok(k) if k > 0 => {
                        e.written += k;
                        progress = true;
                    }
                    _ => break,
                }
            }
            let may_close = side == 0 || !b_waits || e.finished;
            if e.written == e.data.len() && may_close && sock.may_send() {
                sock.close();
                e.closed = true;
                progress = true;
            }
        }
        progress
    }

    /// polls + application steps to a fixpoint, then the C02 finite-deadline invariant
    fn settle(&mut self) {
        for e in self.ends.iter_mut() {
            e.spinning = false;
        }
        let mut iters = 0;
        loop {
            iters += 1;
            let mut progress = false;
            for side in 0..2 {
                progress |= self.app_step(side);
            }
            for side in 0..2 {
                let mut polls = 0;
                while let Some(t) = self.poll_at(side) {
                    if t > self.now {
                        break;
                    }
                    let n = self.poll_side(side);
                    polls += 1;
                    if n > 0 {
                        progress = true;
                    }
                    if polls >= 8 {
                        // poll_at keeps saying "now" although polling achieves nothing
                        let still = self.poll_at(side).map_or(false, |t| t <= self.now);
                        if still && n == 0 {
                            self.ends[side].spinning = true;
                        }
                        break;
                    }
                }
            }
            if !progress {
                break;
            }
            if iters > 400 {
                self.pending.push(Viol::new("MACHINERY/settle-did-not-converge", "settle loop exceeded 400 iterations"));
                break;
            }
        }
        // C02 (i): unacknowledged data / SYN / FIN implies a finite deadline
        for side in 0..2 {
            let (st, sq) = {
                let e = &self.ends[side];
                let s = e.sockets.get::<tcp::Socket>(e.h);
                (s.state(), s.send_queue())
            };
            // only a socket with a live connection has "unacknowledged outgoing data";
            // after a reset (CLOSED) whatever is left in the transmit buffer is abandoned
            let live = !matches!(st, State::Closed | State::Listen | State::TimeWait);
            let needs = live && (sq > 0 || matches!(st, State::SynSent | State::SynReceived | State::FinWait1 | State::Closing | State::LastAck));
            if needs && self.poll_at(side).is_none() {
                let cause = self.attribution(side);
                self.pending.push(Viol::new(
                    format!("C02/no-deadline/{}/{}", st, cause),
                    format!(
                        "{}: state {} send_queue {} but Interface::poll_at is None (no wake-up scheduled); frames in flight: {}/{}",
                        ["A", "B"][side],
                        st,
                        sq,
                        self.net[0].len(),
                        self.net[1].len()
                    ),
                ));
            }
        }
    }

    /// Names the internal cause of a stall (used only to NAME a violation that the observable
    /// oracle already established).
    pub fn attribution(&self, side: usize) -> String {
        let e = &self.ends[side];
        let img = format!("{:?}", e.sockets.get::<tcp::Socket>(e.h));
        let field = |k: &str| -> String {
            img.find(k)
                .map(|i| {
                    let r = &img[i + k.len()..];
                    let end = r.find(|c: char| c == ',' || c == '}' || c == ' ').unwrap_or(r.len());
                    r[..end].to_string()
                })
                .unwrap_or_default()
        };
        let timer = img.find("timer: ").map(|i| {
            let r = &img[i + 7..];
            let end = r.find(|c: char| !c.is_alphanumeric()).unwrap_or(r.len());
            r[..end].to_string()
        }).unwrap_or_default();
        let win0 = field("remote_win_len: ") == "0";
        let pfr = field("pending_fast_retransmit: ") == "true";
        let txempty = e.sockets.get::<tcp::Socket>(e.h).send_queue() == 0;
        format!(
            "timer-{}{}{}{}",
            timer,
            if win0 { "+peer-window-0" } else { "" },
            if pfr { "+pending-fast-retransmit" } else { "" },
            if txempty { "+tx-empty" } else { "+tx-queued" }
        )
    }

    // ---------------- C05 sender monitor (see sendmon.rs) ----------------

    fn on_deliver_learn(&mut self, to: usize, f: &[u8]) {
        self.mon[to].learn(f);
    }

    fn on_emit(&mut self, side: usize, f: &[u8], only_frame_of_poll: bool, recv_queue_after: usize) {
        let ctx = crate::sendmon::EmitCtx {
            who: ["A", "B"][side],
            mtu: self.cfg.mtu,
            written: self.ends[side].written,
            closed: self.ends[side].closed,
            data: &self.ends[side].data,
            rx_cap: self.ends[side].rx_cap,
            recv_queue_after,
            only_frame_of_poll,
            keep_alive: self.cfg.keep_alive_ms.is_some() || self.ka_set[side],
            expect_isn: self.cfg.isn.map(|i| i[side]),
            window_clamped_by_device: self.cfg.burst.is_some(),
            strict_latest_window: false,
        };
        let v = self.mon[side].check_emit(f, &ctx);
        self.pending.extend(v);
    }

    fn deliver(&mut self, to: usize, fr: &Frame) {
        if !fr.corrupted {
            if let Some(b) = ip_part(self.cfg.eth, &fr.bytes) {
                let b = b.to_vec();
                self.on_deliver_learn(to, &b);
            }
        }
        if self.keep_log {
            let d = ip_part(self.cfg.eth, &fr.bytes).map(wc::describe_ip_frame).unwrap_or_else(|| "non-IP frame".into());
            self.log.push(format!("t={}us   -> {} receives {}{}", self.now, ["A", "B"][to], d, if fr.corrupted { " (corrupted)" } else { "" }));
        }
        self.ends[to].dev.rx.push_back(fr.bytes.clone());
        // a frame arrived: the interface is polled
        self.poll_side(to);
    }

    pub fn done(&self) -> bool {
        self.ends.iter().all(|e| e.state() == State::Closed)
            && self.net[0].is_empty()
            && self.net[1].is_empty()
            && self.ends.iter().all(|e| (e.finished || (self.cfg.lazy_reader && e.gave_up)) && e.closed)
    }

    fn earliest_deadline(&mut self) -> Option<i64> {
        let mut d: Option<i64> = None;
        for side in 0..2 {
            if let Some(t) = self.poll_at(side) {
                if t > self.now {
                    d = Some(d.map_or(t, |x: i64| x.min(t)));
                }
            }
        }
        d
    }
}

impl Harness for Tcp2 {
    type Cfg = Tcp2Cfg;
    type Ev = Ev;

    fn new(cfg: &Tcp2Cfg) -> Tcp2 {
        let mut t = Tcp2 {
            cfg: cfg.clone(),
            now: 0,
            ends: [Tcp2::make_end(cfg, 0), Tcp2::make_end(cfg, 1)],
            net: [vec![], vec![]],
            next_id: 0,
            mon: [SenderMon::default(), SenderMon::default()],
            events: 0,
            pending: vec![],
            log: vec![],
            keep_log: false,
            emitted: vec![],
            keep_emitted: false,
            cached_deadline: None,
            ka_set: [false, false],
            ka_cleared: [false, false],
        };
        if cfg.prefix != 0 {
            t.first_connection(cfg.prefix);
        }
        // B listens (or, simultaneous open, connects as well), A connects
        if cfg.simul_open {
            let remote = t.ends[0].addr;
            let e = &mut t.ends[1];
            let cx = e.iface.context();
            e.sockets.get_mut::<tcp::Socket>(e.h).connect(cx, (remote, PORT_A), PORT_B).expect("connect");
        } else {
            t.ends[1].sock().listen(PORT_B).expect("listen");
        }
        let remote = t.ends[1].addr;
        {
            let e = &mut t.ends[0];
            let cx = e.iface.context();
            e.sockets.get_mut::<tcp::Socket>(e.h).connect(cx, (remote, PORT_B), PORT_A).expect("connect");
        }
        t.settle();
        if let Some(us) = cfg.aux_udp_us {
            t.now += us;
            let remote = t.ends[1].addr;
            let e = &mut t.ends[0];
            let u = e.sockets.get_mut::<smoltcp::socket::udp::Socket>(e.aux.unwrap());
            u.send_slice(b"aux", (remote, 9)).expect("aux udp send");
            t.settle();
        }
        t.cached_deadline = t.earliest_deadline();
        t
    }

    fn enabled(&self) -> Vec<(Ev, u32)> {
        // NOTE: needs &mut for poll_at; we use interior re-computation through a clone-free trick:
        // enabled() is only called between apply() calls, so we cache the deadline in apply().
        let mut v = vec![];
        if self.done() {
            return v;
        }
        let h0 = self.net[0].first().map(|f| f.id);
        let h1 = self.net[1].first().map(|f| f.id);
        let any_stalled = self.ends.iter().position(|e| e.stalled);
        let deadline = self.cached_deadline;
        // default
        match (h0, h1) {
            (Some(a), Some(b)) => v.push((Ev::Deliver { to: if a < b { 0 } else { 1 }, idx: 0 }, 0)),
            (Some(_), None) => v.push((Ev::Deliver { to: 0, idx: 0 }, 0)),
            (None, Some(_)) => v.push((Ev::Deliver { to: 1, idx: 0 }, 0)),
            (None, None) => {
                if let Some(s) = any_stalled {
                    v.push((Ev::Unstall { side: s }, 0));
                } else if deadline.is_some() {
                    v.push((Ev::Tick, 0));
                } else {
                    return v; // nothing can happen any more: terminal (deadlock unless done)
                }
            }
        }
        // deviations
        for to in 0..2 {
            if !self.net[to].is_empty() {
                v.push((Ev::Drop { to }, 1));
                v.push((Ev::Dup { to }, 1));
                if self.cfg.allow_corrupt {
                    v.push((Ev::Corrupt { to }, 1));
                    v.push((Ev::CorruptTail { to }, 1));
                }
                for idx in 1..self.net[to].len() {
                    v.push((Ev::Deliver { to, idx }, 1));
                }
            }
        }
        let in_flight = h0.is_some() || h1.is_some();
        if deadline.is_some() && (in_flight || any_stalled.is_some()) {
            v.push((Ev::Tick, 1));
        }
        if self.cfg.allow_blocked_tick && deadline.is_some() {
            for side in 0..2 {
                v.push((Ev::BlockedTick { side }, 1));
            }
        }
        if self.cfg.allow_blocked_tick {
            for to in 0..2 {
                if !self.net[to].is_empty() {
                    v.push((Ev::BlockedDeliver { to }, 1));
                }
            }
        }
        if self.cfg.allow_oversleep {
            v.push((Ev::Oversleep, 1));
        }
        if self.cfg.allow_set_keepalive {
            for side in 0..2 {
                if !self.ka_set[side] && self.ends[side].state() != State::Closed {
                    v.push((Ev::SetKeepAlive { side }, 1));
                }
                if !self.ka_cleared[side] && (self.ka_set[side] || self.cfg.keep_alive_ms.is_some()) && self.ends[side].state() != State::Closed {
                    v.push((Ev::ClearKeepAlive { side }, 1));
                }
            }
        }
        if self.cfg.allow_stall {
            for side in 0..2 {
                let e = &self.ends[side];
                if !e.stalled && !e.finished && self.cfg.len[1 - side] > 0 {
                    v.push((Ev::Stall { side }, 1));
                }
            }
        }
        v
    }

    fn apply(&mut self, ev: &Ev, out: &mut Vec<Viol>) {
        self.events += 1;
        match *ev {
            Ev::Deliver { to, idx } => {
                let fr = self.net[to].remove(idx);
                self.deliver(to, &fr);
            }
            Ev::Drop { to } => {
                let fr = self.net[to].remove(0);
                if self.keep_log {
                    let d = ip_part(self.cfg.eth, &fr.bytes).map(wc::describe_ip_frame).unwrap_or_else(|| "non-IP frame".into());
                    self.log.push(format!("t={}us   xx dropped: {}", self.now, d));
                }
            }
            Ev::Dup { to } => {
                let fr = self.net[to].remove(0);
                let copy = Frame { id: self.next_id, bytes: fr.bytes.clone(), corrupted: fr.corrupted };
                self.next_id += 1;
                self.net[to].push(copy);
                self.deliver(to, &fr);
            }
            Ev::Corrupt { to } => {
                let mut fr = self.net[to].remove(0);
                // flip one bit in the TCP sequence number field (IPv4: 20+4, IPv6: 40+4)
                let off = if self.cfg.v6 { 44 } else { 24 } + 3 + if self.cfg.eth { 14 } else { 0 };
                if off < fr.bytes.len() {
                    fr.bytes[off] ^= 0x04;
                }
                fr.corrupted = true;
                self.deliver(to, &fr);
            }
            Ev::CorruptTail { to } => {
                let mut fr = self.net[to].remove(0);
                if let Some(b) = fr.bytes.last_mut() {
                    *b ^= 0x01;
                }
                fr.corrupted = true;
                self.deliver(to, &fr);
            }
            Ev::Tick => {
                // A reader only stays stalled across a sleep while the peer may still send
                // (that is what produces zero windows). An application that has been told
                // nothing more can arrive reads what it has before it goes to sleep; otherwise
                // TIME-WAIT expiry discards unread data, which is the application's doing.
                let mut changed = false;
                let lazy = self.cfg.lazy_reader;
                for e in self.ends.iter_mut() {
                    if !lazy && e.stalled && !matches!(e.state(), State::Established | State::FinWait1 | State::FinWait2) {
                        e.stalled = false;
                        changed = true;
                    }
                }
                if changed {
                    self.settle();
                    self.cached_deadline = self.earliest_deadline();
                }
                if let Some(d) = self.cached_deadline {
                    self.now = d;
                }
            }
            Ev::ClearKeepAlive { side } => {
                self.ka_cleared[side] = true;
                self.ends[side].sock().set_keep_alive(None);
            }
            Ev::SetKeepAlive { side } => {
                self.ka_set[side] = true;
                self.ends[side].sock().set_keep_alive(Some(Duration::from_millis(300)));
            }
            Ev::Oversleep => {
                // same rule as for Tick: an application that has been told nothing more can
                // arrive reads what it has before it goes to sleep
                let mut changed = false;
                let lazy = self.cfg.lazy_reader;
                for e in self.ends.iter_mut() {
                    if !lazy && e.stalled && !matches!(e.state(), State::Established | State::FinWait1 | State::FinWait2) {
                        e.stalled = false;
                        changed = true;
                    }
                }
                if changed {
                    self.settle();
                }
                self.now += OVERSLEEP_US;
            }
            Ev::BlockedDeliver { to } => {
                let fr = self.net[to].remove(0);
                self.ends[to].dev.tx_budget = Some(0);
                self.deliver(to, &fr);
                for s2 in 0..2 {
                    self.app_step(s2);
                }
                let n = self.poll_side(to);
                if n > 0 {
                    self.pending.push(Viol::new("MACHINERY/blocked-device-transmitted", format!("{} frames", n)));
                }
                self.ends[to].dev.tx_budget = None;
                let mut d = self.earliest_deadline();
                for s2 in 0..2 {
                    if let Some(t) = self.poll_at(s2) {
                        if t <= self.now {
                            d = Some(self.now);
                        }
                    }
                }
                self.cached_deadline = d;
                out.append(&mut self.pending);
                return;
            }
            Ev::BlockedTick { side } => {
                // same rule as for Tick: an application that has been told nothing more can
                // arrive reads what it has before it goes to sleep
                let mut changed = false;
                let lazy = self.cfg.lazy_reader;
                for e in self.ends.iter_mut() {
                    if !lazy && e.stalled && !matches!(e.state(), State::Established | State::FinWait1 | State::FinWait2) {
                        e.stalled = false;
                        changed = true;
                    }
                }
                if changed {
                    self.settle();
                    self.cached_deadline = self.earliest_deadline();
                }
                if let Some(d) = self.cached_deadline {
                    if d > self.now {
                        self.now = d;
                    }
                }
                self.ends[side].dev.tx_budget = Some(0);
                for s2 in 0..2 {
                    self.app_step(s2);
                }
                // one poll of the blocked side at the timer instant (its timers fire, nothing
                // leaves), the other side runs as usual
                let n = self.poll_side(side);
                if n > 0 {
                    self.pending.push(Viol::new("MACHINERY/blocked-device-transmitted", format!("{} frames", n)));
                }
                let other = 1 - side;
                let mut polls = 0;
                while let Some(t) = self.poll_at(other) {
                    if t > self.now || polls >= 8 {
                        break;
                    }
                    self.poll_side(other);
                    polls += 1;
                }
                self.ends[side].dev.tx_budget = None;
                // what could not be sent is due "now": the next Tick polls at this same instant
                let mut d = self.earliest_deadline();
                for s2 in 0..2 {
                    if let Some(t) = self.poll_at(s2) {
                        if t <= self.now {
                            d = Some(self.now);
                        }
                    }
                }
                self.cached_deadline = d;
                out.append(&mut self.pending);
                return;
            }
            Ev::Stall { side } => self.ends[side].stalled = true,
            Ev::Unstall { side } => self.ends[side].stalled = false,
        }
        self.settle();
        self.cached_deadline = self.earliest_deadline();
        out.append(&mut self.pending);
    }

    fn fingerprint(&self) -> u128 {
        let mut s = String::new();
        use std::fmt::Write;
        for e in &self.ends {
            if e.rx_cap > 4096 {
                // the Debug image of a 128 KiB buffer is too costly per step; this fingerprint only
                // feeds the distinct-state statistic and the determinism check in devbound mode
                let so = e.sockets.get::<tcp::Socket>(e.h);
                write!(s, "{}|{}|{}|", so.state(), so.send_queue(), so.recv_queue()).unwrap();
            } else {
                write!(s, "{:?}|", e.sockets).unwrap();
            }
            write!(s, "{}|{}|{}|{}|{}|", e.written, e.read.len(), e.closed, e.finished, e.stalled).unwrap();
        }
        for d in 0..2 {
            for f in &self.net[d] {
                write!(s, "{}:{}:{};", d, f.corrupted, hex(&f.bytes)).unwrap();
            }
        }
        write!(s, "@{}", self.now).unwrap();
        fp128(&s)
    }

    fn finish(&mut self, horizon_hit: bool, out: &mut Vec<Viol>) {
        if self.done() {
            // both directions complete?
            for side in 0..2 {
                let e = &self.ends[side];
                let peer = &self.ends[1 - side];
                if self.cfg.lazy_reader && e.gave_up {
                    continue; // unread data discarded at TIME-WAIT expiry: the reader's doing
                }
                if e.read.len() != peer.data.len() {
                    out.push(Viol::new("C02/closed-with-bytes-missing", format!("{} read {} of {} bytes", ["A", "B"][side], e.read.len(), peer.data.len())));
                }
            }
            return;
        }
        let sa = self.ends[0].state();
        let sb = self.ends[1].state();
        let desc = format!(
            "A: state {} wrote {}/{} read {}/{} finished {} | B: state {} wrote {}/{} read {}/{} finished {} | in flight {}/{} | t={}us",
            sa,
            self.ends[0].written,
            self.ends[0].data.len(),
            self.ends[0].read.len(),
            self.ends[1].data.len(),
            self.ends[0].finished,
            sb,
            self.ends[1].written,
            self.ends[1].data.len(),
            self.ends[1].read.len(),
            self.ends[0].data.len(),
            self.ends[1].finished,
            self.net[0].len(),
            self.net[1].len(),
            self.now
        );
        if horizon_hit {
            out.push(Viol::new(format!("C02/no-completion-within-horizon/{}-{}", sa, sb), desc));
        } else {
            let ca = self.attribution(0);
            let cb = self.attribution(1);
            out.push(Viol::new(
                format!("C02/deadlock/{}-{}/{}/{}", sa, sb, ca, cb),
                format!("nothing in flight, no deadline on either interface, no application step possible, yet not complete: {}", desc),
            ));
        }
    }

    fn outcome(&self) -> String {
        format!(
            "{}-{} read {}/{} fin {}{}",
            self.ends[0].state(),
            self.ends[1].state(),
            self.ends[0].read.len(),
            self.ends[1].read.len(),
            self.ends[0].finished as u8,
            self.ends[1].finished as u8
        )
    }
}

// ---------------------------------------------------------------------------------------
// configurations and check drivers
// ---------------------------------------------------------------------------------------

pub fn configs(tier: Tier) -> Vec<(Tcp2Cfg, u32)> {
    let b = Tcp2Cfg::base;
    let mut v = vec![];
    // smallest configuration: 16-byte receive window at B, 60 bytes A->B (MSS 40)
    let small = Tcp2Cfg { rx: [64, 16], ..b("rx16") };
    let dflt = Tcp2Cfg { len: [60, 20], ..b("bidir64") };
    let wrap = Tcp2Cfg { isn: Some([0x7fff_ffe2, 0xffff_ffe2]), len: [60, 20], ..b("isn-wrap") };
    let big = Tcp2Cfg { rx: [2048, 2048], tx: [2048, 2048], mtu: 576, len: [200, 0], chunk: 7, ..b("buf2048-chunk7") };
    let reno = Tcp2Cfg { cc: 1, len: [120, 0], rx: [64, 256], tx: [256, 64], ..b("reno") };
    let cubic = Tcp2Cfg { cc: 2, len: [120, 0], rx: [64, 256], tx: [256, 64], ..b("cubic") };
    let nonagle = Tcp2Cfg { nagle: false, ack_delay: false, chunk: 7, len: [40, 10], ..b("nonagle-noackdelay") };
    let v6 = Tcp2Cfg { v6: true, mtu: 1280, len: [100, 0], rx: [64, 32], ..b("ipv6") };
    let wscale = Tcp2Cfg { rx: [131072, 131072], tx: [4096, 4096], mtu: 1500, len: [3000, 0], isn: Some([0xffff_f000, 0x7fff_f800]), ..b("wscale-128k") };
    let eager = Tcp2Cfg { b_waits_fin: false, len: [30, 30], ..b("simultaneous-close") };
    let corrupt = Tcp2Cfg { allow_corrupt: true, len: [50, 0], ..b("corrupt") };
    // segment lengths of every residue mod 4 (checksum tail handling), both directions
    let corrupt2 = Tcp2Cfg { allow_corrupt: true, len: [47, 13], chunk: 9, nagle: false, ..b("corrupt-odd-lengths") };
    let stallcfg = Tcp2Cfg { rx: [64, 32], tx: [256, 64], len: [100, 0], chunk: 1000, ..b("rx32-len100") };
    // streams longer than the transmit buffer: the tx ring wraps while data is in flight
    let wrap24 = Tcp2Cfg { rx: [64, 64], tx: [24, 64], len: [100, 0], ..b("txwrap24") };
    let wrap40 = Tcp2Cfg { rx: [64, 256], tx: [40, 16], len: [110, 50], mtu: 100, nagle: false, ..b("txwrap40-bidir") };
    let eth4 = Tcp2Cfg { eth: true, len: [60, 20], ..b("eth-arp") };
    let eth6s = Tcp2Cfg { eth: true, v6: true, mtu: 1280, slaac: true, len: [100, 20], rx: [64, 32], ..b("eth-v6-slaac") };
    let lazy = Tcp2Cfg { lazy_reader: true, len: [30, 30], b_waits_fin: false, ..b("lazy-reader-through-time-wait") };
    let tiny = Tcp2Cfg { rx: [8, 8], tx: [16, 16], len: [20, 9], mtu: 80, ..b("rx8-bidir") };
    // the explored connection re-uses sockets that have carried a connection before
    let reuse1 = Tcp2Cfg { prefix: 1, len: [60, 20], ..b("reuse-after-abort") };
    let simul = Tcp2Cfg { simul_open: true, len: [60, 20], ..b("simultaneous-open") };
    // burst-limited devices: the advertised window is clamped while the real one is larger
    let burst = Tcp2Cfg { burst: Some(2), rx: [2048, 2048], tx: [2048, 2048], mtu: 140, len: [400, 100], ..b("burst2-rx2048") };
    // transient device back-pressure exactly when a timer fires
    let blocked = Tcp2Cfg { allow_blocked_tick: true, len: [60, 20], ..b("blocked-at-timer") };
    let blocked_eth = Tcp2Cfg { allow_blocked_tick: true, eth: true, len: [60, 20], allow_stall: false, ..b("blocked-at-timer-eth") };
    // keep-alive probes (one garbage octet at SND.NXT-1) interleaved with loss, zero windows, FINs
    let ka = Tcp2Cfg { keep_alive_ms: Some(300), rx: [64, 16], len: [60, 20], ..b("keepalive-300ms-rx16") };
    let ka2 = Tcp2Cfg { keep_alive_ms: Some(300), len: [60, 0], chunk: 25, ..b("keepalive-300ms-chunk25") };
    let blocked_fr = Tcp2Cfg { allow_blocked_tick: true, allow_stall: false, rx: [64, 512], tx: [512, 64], len: [240, 0], ..b("blocked-fast-retransmit") };
    let reuse2 = Tcp2Cfg { prefix: 2, len: [60, 20], ..b("reuse-after-close") };
    // keep-alive switched on by the application in the middle of the connection; 41 octets with
    // an MSS of 40 leave a one-octet segment as the unacknowledged tail
    let setka = Tcp2Cfg { allow_set_keepalive: true, len: [41, 0], allow_stall: false, ..b("set-keepalive-midway-len41") };
    let setka2 = Tcp2Cfg { allow_set_keepalive: true, len: [30, 11], chunk: 10, nagle: false, ..b("set-keepalive-midway-bidir") };
    let clrka = Tcp2Cfg { allow_set_keepalive: true, keep_alive_ms: Some(300), len: [30, 0], allow_stall: false, ..b("keepalive-300ms-cleared-midway") };
    // devices that compute the TCP checksum on transmit; the stack must still verify on receive
    let offl = Tcp2Cfg { tx_offload_tcp: true, allow_corrupt: true, len: [50, 0], ..b("corrupt-tx-offload") };
    let offl_eth = Tcp2Cfg { tx_offload_tcp: true, allow_corrupt: true, eth: true, len: [47, 13], chunk: 9, nagle: false, allow_stall: false, ..b("corrupt-tx-offload-eth") };
    // two sockets of one interface waiting for the same neighbor, retry timers 0.4 s out of phase
    let twosock = Tcp2Cfg { aux_udp_us: Some(400_000), eth: true, len: [60, 20], allow_stall: false, ..b("eth-arp-aux-udp-socket") };
    let twosock6 = Tcp2Cfg { aux_udp_us: Some(400_000), eth: true, v6: true, mtu: 1280, len: [60, 20], allow_stall: false, ..b("eth-v6-aux-udp-socket") };
    // both hosts suspended for 25 days at any point of the connection
    let over = Tcp2Cfg { allow_oversleep: true, len: [60, 20], ..b("oversleep-bidir") };
    let over_cubic = Tcp2Cfg { allow_oversleep: true, cc: 2, len: [120, 0], rx: [64, 256], tx: [256, 64], ..b("oversleep-cubic") };
    let over_ka = Tcp2Cfg { allow_oversleep: true, keep_alive_ms: Some(300), rx: [64, 16], len: [40, 0], ..b("oversleep-keepalive") };
    let over_eth = Tcp2Cfg { allow_oversleep: true, eth: true, len: [60, 20], allow_stall: false, ..b("oversleep-eth-arp") };
    // sweep of stream lengths against a 24-byte transmit ring and a 10-byte peer window: for
    // some lengths the final unsent chunk straddles the end of the ring storage at close()
    let sweep_k = if tier == Tier::Quick { 1 } else { 2 };
    for len in 40..=64usize {
        let name: &'static str = Box::leak(format!("txring24-rx10-len{}", len).into_boxed_str());
        v.push((Tcp2Cfg { rx: [64, 10], tx: [24, 64], len: [len, 0], ..b(name) }, sweep_k));
    }
    // streams that fill the peer's receive buffer exactly (once, twice): with a reader that
    // pauses, everything is acknowledged with window 0 while nothing is left to send but the FIN
    for (n, m) in [(8usize, 1usize), (16, 1), (40, 1), (41, 1), (16, 2), (10, 3)] {
        let name: &'static str = Box::leak(format!("exact-fill-rx{}-x{}", n, m).into_boxed_str());
        v.push((Tcp2Cfg { rx: [64, n], len: [n * m, 0], ..b(name) }, if tier == Tier::Quick { 2 } else { 3 }));
    }
    match tier {
        Tier::Quick => {
            v.push((twosock, 3));
            v.push((twosock6, 3));
            v.push((clrka, 2));
            v.push((setka, 3));
            v.push((setka2, 2));
            v.push((offl, 2));
            v.push((offl_eth, 2));
            v.push((over, 3));
            v.push((over_cubic, 3));
            v.push((over_ka, 3));
            v.push((over_eth, 3));
            v.push((lazy, 3));
            v.push((reuse1, 2));
            v.push((reuse2, 2));
            v.push((simul, 2));
            v.push((burst, 2));
            v.push((blocked, 2));
            v.push((blocked_eth, 2));
            v.push((blocked_fr, 2));
            v.push((ka, 3));
            v.push((ka2, 3));
            v.push((eth4, 2));
            v.push((eth6s, 2));
            v.push((small, 4));
            v.push((dflt, 3));
            v.push((wrap, 3));
            v.push((big, 2));
            v.push((reno, 3));
            v.push((cubic, 3));
            v.push((nonagle, 3));
            v.push((v6, 3));
            v.push((wscale, 2));
            v.push((eager, 3));
            v.push((corrupt, 2));
            v.push((corrupt2, 2));
            v.push((stallcfg, 3));
            v.push((tiny, 3));
            v.push((wrap24, 2));
            v.push((wrap40, 2));
        }
        Tier::Thorough => {
            v.push((twosock, 4));
            v.push((twosock6, 4));
            v.push((clrka, 3));
            v.push((setka, 4));
            v.push((setka2, 3));
            v.push((offl, 3));
            v.push((offl_eth, 3));
            v.push((over, 4));
            v.push((over_cubic, 4));
            v.push((over_ka, 4));
            v.push((over_eth, 4));
            v.push((lazy, 4));
            v.push((reuse1, 3));
            v.push((reuse2, 3));
            v.push((simul, 3));
            v.push((burst, 3));
            v.push((blocked, 3));
            v.push((blocked_eth, 3));
            v.push((blocked_fr, 3));
            v.push((ka, 4));
            v.push((ka2, 4));
            v.push((eth4, 3));
            v.push((eth6s, 3));
            v.push((small, 5));
            v.push((dflt, 4));
            v.push((wrap, 4));
            v.push((big, 3));
            v.push((reno, 4));
            v.push((cubic, 4));
            v.push((nonagle, 4));
            v.push((v6, 4));
            v.push((wscale, 3));
            v.push((eager, 4));
            v.push((corrupt, 3));
            v.push((corrupt2, 3));
            v.push((stallcfg, 4));
            v.push((tiny, 4));
            v.push((wrap24, 3));
            v.push((wrap40, 3));
        }
    }
    v
}

fn cfg_by_name(name: &str) -> Option<Tcp2Cfg> {
    configs(Tier::Thorough).into_iter().map(|c| c.0).find(|c| name.contains(&format!("name: \"{}\"", c.name)))
}

/// Runs the shared tcp2 exploration and returns everything found; `keep` filters signatures
/// by property prefix.
pub fn explore_all(rep: &mut Report, tier: Tier, keep: &[&str]) {
    let lim = Limits { max_states: 200_000_000, max_wall_s: if tier == Tier::Quick { 200.0 } else { 3000.0 } };
    let mut all: Vec<Found> = vec![];
    for (cfg, k) in configs(tier) {
        let mut samples = vec![];
        let t0 = std::time::Instant::now();
        match devbound::<Tcp2>("tcp2", &cfg, k, 2000, &lim, &mut all, &mut samples) {
            Ok(st) => {
                eprintln!("tcp2 cfg={} k<={} runs={} wall={:.1}s", cfg.name, k, st.runs, t0.elapsed().as_secs_f64());
                rep.absorb(&format!("tcp2 cfg={} k<={}", cfg.name, k), &st);
                if rep.samples.len() < 6 {
                    rep.samples.extend(samples.into_iter().rev().take(2));
                }
            }
            Err(e) => rep.machinery_errors.push(format!("tcp2 {}: {}", cfg.name, e)),
        }
    }
    let mut other = std::collections::BTreeSet::new();
    for f in all {
        if f.viol.sig.starts_with("MACHINERY") {
            rep.machinery_errors.push(format!("{}: {}", f.viol.sig, f.viol.detail));
        } else if keep.iter().any(|p| f.viol.sig.starts_with(p)) {
            rep.found.push(f);
        } else {
            other.insert(f.viol.sig.clone());
        }
    }
    rep.cov("signatures_of_other_properties_seen_in_these_runs", json!(other.into_iter().collect::<Vec<_>>()));
    rep.cov("rule", json!("deviation-bounded stateless search over event schedules of two real interfaces: all executions with <=k deviations (drop/dup/reorder/corrupt/timer-first/reader-stall), each continued under the default schedule to completion; oracles evaluated after every event"));
    rep.assumptions.push("bounds: <=k environment deviations per execution, transfers of 40-3000 bytes, listed configurations; default continuation = reliable FIFO delivery, eager applications".into());
    rep.assumptions.push("oversleep-* configurations add the deviation 'both hosts suspended for 2^31 ms + 1 s without a poll, frames in flight kept' at any point of the connection (C01 prefix/Finished clauses and completion after polling resumes are judged as usual)".into());
    rep.assumptions.push("liveness decided as bounded reachability: every run must end with both sockets CLOSED and all bytes delivered; deadlock detected exactly, livelock by a 2000-event horizon".into());
    rep.assumptions.push("trusted: harness application model, independent TCP/IP parser (wirecheck)".into());
}

pub fn run_c01(tier: Tier) -> i32 {
    let mut rep = Report::new("C01", tier);
    explore_all(&mut rep, tier, &["C01/", "panic/"]);
    rep.finish()
}
pub fn run_c02(tier: Tier) -> i32 {
    let mut rep = Report::new("C02", tier);
    explore_all(&mut rep, tier, &["C02/", "panic/"]);
    rep.finish()
}
fn replay_any(art: &serde_json::Value) -> i32 {
    let cfgs = art["replay"]["config"].as_str().unwrap_or("");
    let Some(cfg) = cfg_by_name(cfgs) else {
        eprintln!("unknown tcp2 configuration in artefact");
        return 2;
    };
    // verbose replay with frame log
    let choices: Vec<u16> = art["replay"]["choices"].as_array().map(|a| a.iter().map(|x| x.as_u64().unwrap_or(0) as u16).collect()).unwrap_or_default();
    let mut h = Tcp2::new(&cfg);
    h.keep_log = true;
    let mut viols = vec![];
    for (i, &c) in choices.iter().enumerate() {
        let en = h.enabled();
        if c as usize >= en.len() {
            eprintln!("MACHINERY ERROR: replay divergence at step {}", i);
            return 2;
        }
        let ev = en[c as usize].0.clone();
        println!("--- step {} {:?}", i, ev);
        let r = std::panic::catch_unwind(std::panic::AssertUnwindSafe(|| h.apply(&ev, &mut viols)));
        for l in h.log.drain(..) {
            println!("    {}", l);
        }
        if let Err(e) = r {
            println!("PANIC: {} at {}", panic_msg(e), last_panic_loc());
            return 1;
        }
        println!("    A {} sq={} rq={} | B {} sq={} rq={} | poll_at A={:?} B={:?}",
            h.ends[0].state(), h.ends[0].sock().send_queue(), h.ends[0].sock().recv_queue(),
            h.ends[1].state(), h.ends[1].sock().send_queue(), h.ends[1].sock().recv_queue(),
            h.poll_at(0), h.poll_at(1));
    }
    if h.enabled().is_empty() {
        h.finish(false, &mut viols);
    }
    println!("outcome: {}", h.outcome());
    if viols.is_empty() {
        println!("no violation on replay");
        0
    } else {
        for v in viols {
            println!("violation: {} :: {}", v.sig, v.detail);
        }
        1
    }
}
pub fn replay_c01(art: &serde_json::Value) -> i32 {
    replay_any(art)
}
pub fn replay_c02(art: &serde_json::Value) -> i32 {
    replay_any(art)
}
