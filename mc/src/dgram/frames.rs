//! Independent (no `smoltcp::wire`) builders and parser for the few frame formats the C09
//! harness needs: Ethernet II (RFC 894), ARP (RFC 826), IPv4 (RFC 791), IPv6 (RFC 8200),
//! UDP (RFC 768), ICMP echo (RFC 792 / RFC 4443), NDISC NS/NA (RFC 4861).  Offsets are taken
//! from the RFCs; the IP layer is parsed by `wirecheck::parse_ip`.

use crate::wirecheck::{self as wc, Addr};

pub const ETH_IPV4: u16 = 0x0800;
pub const ETH_ARP: u16 = 0x0806;
pub const ETH_IPV6: u16 = 0x86dd;

pub const PROTO_ICMP: u8 = 1;
pub const PROTO_UDP: u8 = 17;
pub const PROTO_ICMPV6: u8 = 58;

fn cksum(parts: &[&[u8]]) -> u16 {
    !wc::rfc1071_sum(parts)
}

fn pseudo(src: &Addr, dst: &Addr, proto: u8, len: usize) -> Vec<u8> {
    let mut v = vec![];
    v.extend_from_slice(src.bytes());
    v.extend_from_slice(dst.bytes());
    match src {
        Addr::V4(_) => {
            v.push(0);
            v.push(proto);
            v.extend_from_slice(&(len as u16).to_be_bytes());
        }
        Addr::V6(_) => {
            v.extend_from_slice(&(len as u32).to_be_bytes());
            v.extend_from_slice(&[0, 0, 0, proto]);
        }
    }
    v
}

pub fn eth(dst: &[u8; 6], src: &[u8; 6], ethertype: u16, payload: &[u8]) -> Vec<u8> {
    let mut f = Vec::with_capacity(14 + payload.len());
    f.extend_from_slice(dst);
    f.extend_from_slice(src);
    f.extend_from_slice(&ethertype.to_be_bytes());
    f.extend_from_slice(payload);
    f
}

/// IPv4 (no options, ident 0, DF) or IPv6 header + payload depending on the address family.
pub fn ip(src: &Addr, dst: &Addr, proto: u8, hop_limit: u8, payload: &[u8]) -> Vec<u8> {
    match (src, dst) {
        (Addr::V4(s), Addr::V4(d)) => {
            let total = 20 + payload.len();
            let mut h = vec![0x45, 0x00];
            h.extend_from_slice(&(total as u16).to_be_bytes());
            h.extend_from_slice(&[0x00, 0x00, 0x40, 0x00, hop_limit, proto, 0, 0]);
            h.extend_from_slice(s);
            h.extend_from_slice(d);
            let c = cksum(&[&h]);
            h[10..12].copy_from_slice(&c.to_be_bytes());
            h.extend_from_slice(payload);
            h
        }
        (Addr::V6(s), Addr::V6(d)) => {
            let mut h = vec![0x60, 0, 0, 0];
            h.extend_from_slice(&(payload.len() as u16).to_be_bytes());
            h.push(proto);
            h.push(hop_limit);
            h.extend_from_slice(s);
            h.extend_from_slice(d);
            h.extend_from_slice(payload);
            h
        }
        _ => panic!("mixed address families"),
    }
}

pub fn udp(src: &Addr, dst: &Addr, sport: u16, dport: u16, payload: &[u8]) -> Vec<u8> {
    let len = 8 + payload.len();
    let mut u = vec![];
    u.extend_from_slice(&sport.to_be_bytes());
    u.extend_from_slice(&dport.to_be_bytes());
    u.extend_from_slice(&(len as u16).to_be_bytes());
    u.extend_from_slice(&[0, 0]);
    u.extend_from_slice(payload);
    let mut c = cksum(&[&pseudo(src, dst, PROTO_UDP, len), &u]);
    if c == 0 {
        c = 0xffff;
    }
    u[6..8].copy_from_slice(&c.to_be_bytes());
    u
}

/// ICMPv4 / ICMPv6 echo request or reply with a correct checksum.
pub fn icmp_echo(src: &Addr, dst: &Addr, reply: bool, ident: u16, seq: u16, data: &[u8]) -> Vec<u8> {
    let v6 = matches!(src, Addr::V6(_));
    let ty = match (v6, reply) {
        (false, false) => 8,
        (false, true) => 0,
        (true, false) => 128,
        (true, true) => 129,
    };
    let mut m = vec![ty, 0, 0, 0];
    m.extend_from_slice(&ident.to_be_bytes());
    m.extend_from_slice(&seq.to_be_bytes());
    m.extend_from_slice(data);
    let c = if v6 { cksum(&[&pseudo(src, dst, PROTO_ICMPV6, m.len()), &m]) } else { cksum(&[&m]) };
    m[2..4].copy_from_slice(&c.to_be_bytes());
    m
}

/// ICMPv4 (type 3 code 3) / ICMPv6 (type 1 code 4) "port unreachable" error quoting the
/// IP packet `original` (header + leading payload bytes), with a correct checksum.
pub fn icmp_port_unreachable(src: &Addr, dst: &Addr, original: &[u8]) -> Vec<u8> {
    let v6 = matches!(src, Addr::V6(_));
    let mut m = if v6 { vec![1, 4, 0, 0, 0, 0, 0, 0] } else { vec![3, 3, 0, 0, 0, 0, 0, 0] };
    m.extend_from_slice(original);
    let c = if v6 { cksum(&[&pseudo(src, dst, PROTO_ICMPV6, m.len()), &m]) } else { cksum(&[&m]) };
    m[2..4].copy_from_slice(&c.to_be_bytes());
    m
}

pub fn arp(oper: u16, sha: &[u8; 6], spa: &[u8; 4], tha: &[u8; 6], tpa: &[u8; 4]) -> Vec<u8> {
    let mut a = vec![0, 1, 0x08, 0x00, 6, 4];
    a.extend_from_slice(&oper.to_be_bytes());
    a.extend_from_slice(sha);
    a.extend_from_slice(spa);
    a.extend_from_slice(tha);
    a.extend_from_slice(tpa);
    a
}

/// Neighbor advertisement (solicited + override) for `target` with a target link-layer option.
pub fn ndisc_na(src: &Addr, dst: &Addr, target: &[u8; 16], mac: &[u8; 6]) -> Vec<u8> {
    let mut m = vec![136, 0, 0, 0, 0x60, 0, 0, 0];
    m.extend_from_slice(target);
    m.extend_from_slice(&[2, 1]);
    m.extend_from_slice(mac);
    let c = cksum(&[&pseudo(src, dst, PROTO_ICMPV6, m.len()), &m]);
    m[2..4].copy_from_slice(&c.to_be_bytes());
    m
}

#[derive(Clone, Debug)]
pub enum L3 {
    Arp { oper: u16, tpa: [u8; 4] },
    /// whole IP packet + parsed header
    Ip { info: wc::IpInfo, packet: Vec<u8> },
    Bad(String),
}

#[derive(Clone, Debug)]
pub struct Parsed {
    pub eth_dst: Option<[u8; 6]>,
    pub eth_src: Option<[u8; 6]>,
    pub l3: L3,
}

pub fn parse_frame(ethernet: bool, f: &[u8]) -> Parsed {
    if !ethernet {
        return Parsed { eth_dst: None, eth_src: None, l3: parse_ip_l3(f) };
    }
    if f.len() < 14 {
        return Parsed { eth_dst: None, eth_src: None, l3: L3::Bad(format!("ethernet frame of {} bytes", f.len())) };
    }
    let mut d = [0u8; 6];
    d.copy_from_slice(&f[0..6]);
    let mut s = [0u8; 6];
    s.copy_from_slice(&f[6..12]);
    let et = ((f[12] as u16) << 8) | f[13] as u16;
    let p = &f[14..];
    let l3 = match et {
        ETH_ARP => {
            if p.len() < 28 || p[0..6] != [0, 1, 8, 0, 6, 4] {
                L3::Bad("ARP packet malformed".into())
            } else {
                let mut tpa = [0u8; 4];
                tpa.copy_from_slice(&p[24..28]);
                L3::Arp { oper: ((p[6] as u16) << 8) | p[7] as u16, tpa }
            }
        }
        ETH_IPV4 | ETH_IPV6 => {
            let l3 = parse_ip_l3(p);
            if let L3::Ip { info, .. } = &l3 {
                if (info.version == 4) != (et == ETH_IPV4) {
                    return Parsed { eth_dst: Some(d), eth_src: Some(s), l3: L3::Bad("ethertype / IP version mismatch".into()) };
                }
            }
            l3
        }
        _ => L3::Bad(format!("ethertype {:#06x}", et)),
    };
    Parsed { eth_dst: Some(d), eth_src: Some(s), l3 }
}

fn parse_ip_l3(p: &[u8]) -> L3 {
    match wc::parse_ip(p) {
        Ok(info) => L3::Ip { info, packet: p.to_vec() },
        Err(e) => L3::Bad(e),
    }
}

/// UDP header fields and payload of an IP payload; the length field must cover exactly the
/// IP payload (a datagram is neither split nor merged nor padded).
pub fn parse_udp(p: &[u8]) -> Result<(u16, u16, &[u8]), String> {
    if p.len() < 8 {
        return Err(format!("UDP datagram of {} bytes", p.len()));
    }
    let len = ((p[4] as usize) << 8) | p[5] as usize;
    if len != p.len() {
        return Err(format!("UDP length field {} != IP payload {}", len, p.len()));
    }
    Ok((((p[0] as u16) << 8) | p[1] as u16, ((p[2] as u16) << 8) | p[3] as u16, &p[8..]))
}
