//! C09 — datagram sockets (udp / icmp / raw) preserve message boundaries, order and addressing.
//!
//! Explicit-state BFS (`core::bfs`) over the REAL `Interface` + ONE real socket of the kind
//! under test, on `Medium::Ethernet` (neighbor resolution can be delayed: ARP / NDISC) and
//! `Medium::Ip`, IPv4 and IPv6.  A state is the event history replayed on a fresh interface.
//!
//! Reference model: two FIFO queues of (metadata, bytes):
//!   tx = accepted by `send*`, not yet seen on the device;
//!   rx = delivered to the socket (as far as the PUBLIC api shows), not yet read.
//! Oracle, evaluated after every event (see `on_frame`, `rx_observe`, `inbound`, `drain`):
//!   tx-*   every frame on the device that carries a datagram of this socket's protocol is the
//!          oldest not-yet-transmitted accepted datagram (entries that can NEVER be delivered
//!          in this configuration - no route, malformed ICMP/IP packet - may be skipped),
//!          byte-identical, right destination/source address+port, right next-hop MAC; a
//!          failed `send*` queues nothing; a deliverable datagram never vanishes from the
//!          socket's queue without a frame;
//!   tx-liveness (event `Drain`: back-pressure lifted, pending neighbor request answered,
//!          polls until `poll_at` is None / nothing happens any more) every deliverable
//!          accepted datagram has appeared;
//!   rx-*   a valid datagram for the bound endpoint is delivered exactly once, whole, with the
//!          frame's source (and local address for udp) - a drop is tolerated only when the rx
//!          queue is non-empty or the datagram exceeds the payload capacity; non-matching /
//!          oversize datagrams are never queued; too small a user buffer gives `Truncated`
//!          (the datagram is then discarded: documented for all three kinds), never short
//!          data; `peek*` does not consume.
//!
//!   buffer acceptance (both directions): whether a datagram is queued is judged by the
//!          documented PacketBuffer placement rule applied to the buffer's current geometry
//!          (`ring_fits`): accepted iff a metadata slot is free and the payload fits contiguously
//!          at the tail of the payload ring, or - the tail padded, with a slot of its own - at the
//!          head.  A valid inbound datagram that is dropped, or a send refused with BufferFull,
//!          although the rule places it, is a violation (rx-delivery/dropped-although-it-fits,
//!          tx-accept/refused-although-it-fits); the opposite direction is not judged.
//!   IPv4 header checksum of every emitted packet of the socket's protocol (whole datagrams and
//!          every fragment) is verified independently where the device capabilities say the
//!          stack computes it: a packet a receiver would discard has not been transmitted.
//!
//! Extra configuration families besides the ring product {1,2,3} slots x {4,6,8}+2*hdr octets:
//! small rings with 4 slots and 16 / 24 (+2*hdr) octets with sizes {2,6,8}+hdr (exact fit / one
//! short / one over after wrap-around; rx and tx alphabets); tight IPv4 links (IP MTU 36 and
//! 34; sizes M-1, M, M+1 and M+17 = 3 resp. 4 fragments, i.e. with middle fragments); device
//! checksum capabilities {ipv4 Rx, ipv4 None, all Rx}; two own addresses per family with
//! per-datagram `local_address`; inbound broadcast / multicast destinations; datagrams that
//! can only match an endpoint-less socket (udp port 0, icmp error).
//!
//! IPv4 fragment trains (tight links) are REASSEMBLED by the oracle (`Train`): a datagram that
//! exceeds the IP MTU is matched against the model by its first fragment and rebuilt from the
//! (offset field x 8, length) of the fragments actually on the wire; overlap, gap, unaligned
//! middle fragment, wrong octets, a short tail, an abandoned or (at quiescence) incomplete
//! train mean "not transmitted unmodified".
//!
//! Two scripted families complement the BFS runs.  "two sockets" (`pair_run`): {udp, icmp,
//! raw} + udp on one IPv4 interface (IP MTU 36, Ethernet / Medium::Ip), each queues one
//! datagram of size {fills the MTU, 2 fragments, 3 fragments} before the same poll, device
//! unlimited / one frame per poll: every dequeued datagram is on the wire exactly once, whole,
//! in any order (C09/<k1>+udp/tx-pair/<cause>).  "largest datagram" (`largest_run`): device
//! MTU 70000, the largest datagram the IP length fields can express and one octet more, each
//! with a normal datagram queued behind it; poll must not panic (C09/<kind>/tx-largest/panic/
//! <site>), the largest one is transmitted once, unmodified, with consistent length fields,
//! the impossible one never reaches the wire (.../impossible-datagram-on-the-wire) and does
//! not block the queue (.../blocked-behind-impossible-datagram).
//!
//! Emitted frames are parsed by `dgram/frames.rs` + `wirecheck` (independent of
//! `smoltcp::wire`); stimulus frames are built by the same independent code.
//!
//! Three alphabets ("phases") are explored per configuration, each by its own exhaustive BFS:
//! `mix` (the complete alphabet, socket initially unbound), `tx` (send side + interface
//! events, socket initially bound) and `rx` (inbound frames + recv/peek, socket initially
//! bound).  The state spaces are FINITE (time is relative, payload labels are renamed away,
//! the model queues are bounded by the buffer capacities), so wherever affordable the BFS is
//! run to its fixpoint = all reachable states for histories of ANY length; the remaining
//! configurations are explored to a fixed depth (`depth_for`).
//!
//! Oracle sensitivity was checked once against seeded faults in a scratch copy of smoltcp
//! (udp dispatch swallowing the emit error; wrong local_address / source in rx metadata;
//! recv_slice without the Truncated check; raw peek that dequeues; PacketBuffer padding without
//! the free-slot check; dequeue_with keeping the packet after a successful emit): each one is
//! reported by the quick tier under the expected clause.
//!
//! Debug aids: `mc C09 --replay <artefact>` prints every api result and frame;
//! `DGRAM_IMAGE=1` adds the normalised state image; an artefact with
//! `"replay": {"config": "...", "list_events": true, "choices": []}` lists the alphabet with
//! its choice indices.  `DGRAM_ONLY` / `DGRAM_DEPTH` / `DGRAM_MAXSTATES` restrict a run while
//! developing (recorded in the evidence when set).

mod frames;

use crate::core::*;
use crate::sim::*;
use crate::wirecheck::{self as wc, Addr};
use frames as fr;
use serde_json::json;
use smoltcp::iface::{Config, Interface, SocketHandle, SocketSet};
use smoltcp::phy::{Checksum, ChecksumCapabilities, Device, DeviceCapabilities, Medium};
use smoltcp::socket::{icmp, raw, udp};
use smoltcp::time::Instant;
use smoltcp::wire::{
    EthernetAddress, HardwareAddress, IpAddress, IpCidr, IpEndpoint, IpListenEndpoint, IpProtocol,
    IpVersion, Ipv4Address, Ipv6Address,
};
use std::collections::VecDeque;
use std::sync::atomic::{AtomicBool, AtomicU64, Ordering};

// ---------------------------------------------------------------------------------------
// configuration
// ---------------------------------------------------------------------------------------

#[derive(Clone, Copy, PartialEq, Eq, Debug, Hash, PartialOrd, Ord)]
pub enum Kind {
    Udp,
    Icmp,
    Raw,
}
impl Kind {
    fn name(self) -> &'static str {
        match self {
            Kind::Udp => "udp",
            Kind::Icmp => "icmp",
            Kind::Raw => "raw",
        }
    }
}

/// Which part of the event alphabet is explored (all three are exhaustive BFS runs over their
/// own alphabet; the focused ones reach deeper).
#[derive(Clone, Copy, PartialEq, Eq, Debug, Hash, PartialOrd, Ord)]
pub enum Phase {
    /// the complete alphabet
    Mix,
    /// send*, poll, poll_egress, back-pressure, +1 s, neighbor reply, drain (udp: close, bind)
    Tx,
    /// inbound frames, recv*, peek* (udp: close, bind)
    Rx,
}
impl Phase {
    fn name(self) -> &'static str {
        match self {
            Phase::Mix => "mix",
            Phase::Tx => "tx",
            Phase::Rx => "rx",
        }
    }
}

/// Checksum capabilities the device announces (`DeviceCapabilities::checksum`)
#[derive(Clone, Copy, PartialEq, Eq, Debug, Hash, PartialOrd, Ord)]
pub enum Ck {
    /// everything `Both`: the stack computes and verifies all checksums
    Default,
    /// `ipv4 = Rx`: the device computes the IPv4 header checksum on transmit ("tx offload"),
    /// the stack still verifies it on receive
    Ipv4Rx,
    /// `ipv4 = None`
    Ipv4None,
    /// ipv4, udp, tcp, icmpv4, icmpv6 all `Rx`
    AllRx,
}
impl Ck {
    fn name(self) -> &'static str {
        match self {
            Ck::Default => "default",
            Ck::Ipv4Rx => "ipv4rx",
            Ck::Ipv4None => "ipv4none",
            Ck::AllRx => "allrx",
        }
    }
    fn caps(self) -> ChecksumCapabilities {
        let mut c = ChecksumCapabilities::default();
        match self {
            Ck::Default => {}
            Ck::Ipv4Rx => c.ipv4 = Checksum::Rx,
            Ck::Ipv4None => c.ipv4 = Checksum::None,
            Ck::AllRx => {
                c.ipv4 = Checksum::Rx;
                c.udp = Checksum::Rx;
                c.tcp = Checksum::Rx;
                c.icmpv4 = Checksum::Rx;
                c.icmpv6 = Checksum::Rx;
            }
        }
        c
    }
}
/// does the STACK write this checksum on transmit (otherwise the device does, and the field
/// the stack leaves in the frame is not compared)
fn stack_computes(c: Checksum) -> bool {
    match c {
        Checksum::Both | Checksum::Tx => true,
        Checksum::Rx | Checksum::None => false,
    }
}

#[derive(Clone)]
pub struct Cfg {
    pub phase: Phase,
    pub kind: Kind,
    /// Medium::Ethernet (true) or Medium::Ip (false)
    pub eth: bool,
    pub v6: bool,
    /// metadata slots of the rx and of the tx packet buffer
    pub slots: usize,
    /// payload capacity of each buffer is 2*hdr + k bytes (hdr = per-datagram overhead the
    /// application has to supply: 0 udp, 8 icmp, 20/40 raw)
    pub k: usize,
    /// Ethernet only: default route via the (initially unresolved) neighbor B; otherwise no
    /// route at all for the off-link destination C
    pub via_b: bool,
    /// 0: ordinary link (IP MTU 1500, no datagram of the alphabet comes near it).  Otherwise
    /// (IPv4, tx alphabet only) the IP MTU of a "tight" link: the size classes of the alphabet
    /// are then {hdr, M-1, M, M+1} where a datagram of M bytes gives an IP packet of exactly
    /// `ip_mtu` bytes (36: ip_mtu % 8 == 4, i.e. (ip_mtu-20) % 8 == 0; 34: another residue).
    pub ip_mtu: usize,
    pub ck: Ck,
}
impl std::fmt::Debug for Cfg {
    fn fmt(&self, f: &mut std::fmt::Formatter) -> std::fmt::Result {
        write!(
            f,
            "phase={} kind={} medium={} ip={} slots={} k={} route={} mtu={} ck={}",
            self.phase.name(),
            self.kind.name(),
            if self.eth { "eth" } else { "ip" },
            if self.v6 { "v6" } else { "v4" },
            self.slots,
            self.k,
            if self.via_b { "viaB" } else { "none" },
            if self.ip_mtu == 0 { "std".to_string() } else { self.ip_mtu.to_string() },
            self.ck.name()
        )
    }
}
impl Cfg {
    fn parse(s: &str) -> Option<Cfg> {
        let mut c = Cfg { phase: Phase::Mix, kind: Kind::Udp, eth: true, v6: false, slots: 1, k: 4, via_b: false, ip_mtu: 0, ck: Ck::Default };
        let mut seen = 0;
        for tok in s.split_whitespace() {
            let (k, v) = tok.split_once('=')?;
            seen += 1;
            match k {
                "phase" => {
                    c.phase = match v {
                        "mix" => Phase::Mix,
                        "tx" => Phase::Tx,
                        "rx" => Phase::Rx,
                        _ => return None,
                    }
                }
                "kind" => {
                    c.kind = match v {
                        "udp" => Kind::Udp,
                        "icmp" => Kind::Icmp,
                        "raw" => Kind::Raw,
                        _ => return None,
                    }
                }
                "medium" => c.eth = v == "eth",
                "ip" => c.v6 = v == "v6",
                "slots" => c.slots = v.parse().ok()?,
                "k" => c.k = v.parse().ok()?,
                "route" => c.via_b = v == "viaB",
                // absent in artefacts written before the tight-MTU configurations existed
                "mtu" => {
                    seen -= 1;
                    c.ip_mtu = if v == "std" { 0 } else { v.parse().ok()? }
                }
                // absent in artefacts written before the checksum-capability dimension existed
                "ck" => {
                    seen -= 1;
                    c.ck = match v {
                        "default" => Ck::Default,
                        "ipv4rx" => Ck::Ipv4Rx,
                        "ipv4none" => Ck::Ipv4None,
                        "allrx" => Ck::AllRx,
                        _ => return None,
                    }
                }
                _ => return None,
            }
        }
        if seen == 7 {
            Some(c)
        } else {
            None
        }
    }
    /// bytes of header the application supplies in front of the free data of a datagram
    fn hdr(&self) -> usize {
        match self.kind {
            Kind::Udp => 0,
            Kind::Icmp => 8,
            Kind::Raw => {
                if self.v6 {
                    40
                } else {
                    20
                }
            }
        }
    }
    fn cap(&self) -> usize {
        2 * self.hdr() + self.k
    }
    /// datagram sizes of the alphabet: header + {0,1,3} free bytes and the payload capacity;
    /// on a tight link: header only, one less than / exactly / one more than what fills the MTU
    fn sizes(&self) -> [usize; 4] {
        let h = self.hdr();
        if self.ip_mtu != 0 {
            // one less than / exactly / one more than what fills the MTU (2 fragments), and a
            // datagram of 3 (MTU 36) or 4 (MTU 34) fragments, i.e. with MIDDLE fragments
            let m = self.fills_mtu();
            if self.ip_mtu == 1000 {
                // fragmentation-buffer edge (FRAGMENTATION_BUFFER_SIZE = 1500 octets of IP
                // packet, whatever the link header): one datagram that fits the link, and
                // fragmented ones whose IP packet is 1486, 1487 (the buffer less an Ethernet
                // header, plus one) and exactly 1500 octets long
                let z = self.ip_len(0);
                return [m, 1486 - z, 1487 - z, 1500 - z];
            }
            return [m - 1, m, m + 1, m + 17];
        }
        if self.slots >= 4 {
            // small payload rings with plenty of metadata slots (16 / 24 octets + 2*hdr): sizes
            // chosen so that wrap-around with an exact fit at the head of the ring, one short
            // and one over all occur (e.g. 6, 8 in, 6 out, then 6 / 8 / 2)
            return [h + 2, h + 6, h + 8, self.cap()];
        }
        [h, h + 1, h + 3, self.cap()]
    }
    /// IPv4 packet length of a datagram of `size` application bytes
    fn ip_len(&self, size: usize) -> usize {
        match self.kind {
            Kind::Udp => 20 + 8 + size,
            Kind::Icmp => 20 + size,
            Kind::Raw => size,
        }
    }
    fn link_ip_mtu(&self) -> usize {
        if self.ip_mtu == 0 {
            1500
        } else {
            self.ip_mtu
        }
    }
    /// application size whose IP packet is exactly the (tight) IP MTU
    fn fills_mtu(&self) -> usize {
        self.ip_mtu - self.ip_len(0)
    }
    fn small_buf(&self) -> usize {
        self.hdr() + 2
    }
}

#[derive(Clone, Copy, PartialEq, Eq, Debug, Hash, PartialOrd, Ord)]
pub enum Who {
    Us,
    /// second address of the interface (other subnet, listed second: source selection picks
    /// `Us` for every destination of the alphabet); only ever used as an explicit
    /// `UdpMetadata::local_address`
    Us2,
    /// on-link neighbor, resolved before the exploration starts
    A,
    /// on-link neighbor, unresolved; answers only through `NeighReply` / `Drain`
    B,
    /// off-link host (reached through the default route via B, or unroutable)
    C,
}

/// IP destination of an inbound datagram
#[derive(Clone, Copy, PartialEq, Eq, Debug, Hash, PartialOrd, Ord)]
pub enum To {
    /// our unicast address
    Us,
    /// IPv4 subnet broadcast 192.168.1.255
    SubnetBcast,
    /// IPv4 limited broadcast 255.255.255.255
    LimitedBcast,
    /// all-systems 224.0.0.1 / all-nodes ff02::1
    Mcast,
    /// IPv6 only: the solicited-node group of our address (a group the interface is a member of)
    Mcast2,
}

/// (IP destination, Ethernet destination) of an inbound datagram
fn to_addr(v6: bool, to: To) -> (Addr, [u8; 6]) {
    match (v6, to) {
        (_, To::Us) => (addr(v6, Who::Us), MAC_US),
        (false, To::SubnetBcast) => (Addr::V4([192, 168, 1, 255]), [0xff; 6]),
        (false, To::LimitedBcast) => (Addr::V4([255; 4]), [0xff; 6]),
        (false, _) => (Addr::V4([224, 0, 0, 1]), [0x01, 0x00, 0x5e, 0, 0, 1]),
        (true, To::Mcast2) => {
            let mut a = [0u8; 16];
            a[0] = 0xff;
            a[1] = 0x02;
            a[11] = 0x01;
            a[12] = 0xff;
            a[15] = 0x01;
            (Addr::V6(a), [0x33, 0x33, 0xff, 0, 0, 1])
        }
        (true, _) => {
            let mut a = [0u8; 16];
            a[0] = 0xff;
            a[1] = 0x02;
            a[15] = 0x01;
            (Addr::V6(a), [0x33, 0x33, 0, 0, 0, 1])
        }
    }
}

const MAC_US: [u8; 6] = [0x02, 0, 0, 0, 0, 0x01];
const MAC_A: [u8; 6] = [0x02, 0, 0, 0, 0, 0x02];
const MAC_B: [u8; 6] = [0x02, 0, 0, 0, 0, 0x03];

fn addr(v6: bool, w: Who) -> Addr {
    if v6 {
        let mut a = [0u8; 16];
        a[0] = 0xfd;
        match w {
            Who::Us => a[15] = 1,
            Who::Us2 => {
                a[1] = 0x02;
                a[15] = 1
            }
            Who::A => a[15] = 2,
            Who::B => a[15] = 3,
            Who::C => {
                a[1] = 0x01;
                a[15] = 9
            }
        }
        Addr::V6(a)
    } else {
        match w {
            Who::Us => Addr::V4([192, 168, 1, 1]),
            Who::Us2 => Addr::V4([192, 168, 2, 1]),
            Who::A => Addr::V4([192, 168, 1, 2]),
            Who::B => Addr::V4([192, 168, 1, 3]),
            Who::C => Addr::V4([10, 0, 0, 9]),
        }
    }
}
fn to_ip(a: &Addr) -> IpAddress {
    match a {
        Addr::V4(b) => IpAddress::Ipv4(Ipv4Address::from(*b)),
        Addr::V6(b) => IpAddress::Ipv6(Ipv6Address::from(*b)),
    }
}
fn from_ip(a: &IpAddress) -> Addr {
    match a {
        IpAddress::Ipv4(x) => Addr::V4(x.octets()),
        IpAddress::Ipv6(x) => Addr::V6(x.octets()),
    }
}

const LOCAL_PORT: u16 = 5000;
const REMOTE_PORT: u16 = 7000;
const ICMP_IDENT: u16 = 0x1234;
const RAW_PROTO: u8 = 63;

/// free data bytes of a datagram: position sensitive, different for different labels at
/// every position (37 is odd, hence invertible modulo 256)
fn data(n: usize, label: u8) -> Vec<u8> {
    (0..n).map(|i| label.wrapping_mul(37).wrapping_add((i as u8).wrapping_mul(3)).wrapping_add(1)).collect()
}

// ---------------------------------------------------------------------------------------
// device with "refuse the next n transmit() calls"
// ---------------------------------------------------------------------------------------

pub struct BpDev {
    pub inner: SimDevice,
    pub refuse_next: usize,
}
impl Device for BpDev {
    type RxToken<'a> = SimRx;
    type TxToken<'a> = SimTx<'a>;
    fn capabilities(&self) -> DeviceCapabilities {
        self.inner.capabilities()
    }
    fn receive(&mut self, ts: Instant) -> Option<(SimRx, SimTx<'_>)> {
        self.inner.receive(ts)
    }
    fn transmit(&mut self, ts: Instant) -> Option<SimTx<'_>> {
        if self.refuse_next > 0 {
            self.refuse_next -= 1;
            stat(O::TransmitRefused);
            None
        } else {
            self.inner.transmit(ts)
        }
    }
}

// ---------------------------------------------------------------------------------------
// outcome statistics (summed over all executions incl. re-executed history prefixes)
// ---------------------------------------------------------------------------------------

macro_rules! outcomes {
    ($($name:ident => $text:expr),* $(,)?) => {
        #[derive(Clone, Copy)]
        #[allow(dead_code)]
        enum O { $($name),* }
        const O_NAMES: &[&str] = &[$($text),*];
    };
}
outcomes! {
    SendOk => "send:accepted",
    SendFull => "send:BufferFull",
    SendUnaddr => "send:Unaddressable",
    RecvOk => "recv_slice:data",
    RecvExhausted => "recv_slice:Exhausted",
    RecvTruncated => "recv_slice:Truncated(datagram discarded)",
    PeekOk => "peek:data",
    PeekExhausted => "peek:Exhausted",
    PeekTruncated => "peek_slice:Truncated",
    BindOk => "bind:Ok",
    BindErr => "bind:InvalidState",
    Close => "close",
    InDelivered => "inbound:delivered",
    InDeliveredZero => "inbound:zero-length datagram delivered",
    InDroppedTolerated => "inbound:dropped(rx buffer cannot hold it)",
    InNonUnicastDelivered => "inbound:broadcast/multicast destination, delivered",
    InNonUnicastNotDelivered => "inbound:broadcast/multicast destination, not delivered (tolerated)",
    InNotEligible => "inbound:not-for-socket(unbound/non-matching/oversize),not queued",
    TxMatched => "frame:socket-datagram==head-of-model-queue",
    TxMatchedSkipping => "frame:socket-datagram matched after skipping never-deliverable entries",
    TxFragFirst => "frame:first IPv4 fragment of a datagram that exceeds the link MTU",
    TxFragRest => "frame:later IPv4 fragment (placed into the reassembly of its datagram)",
    TxTrainComplete => "frame:last fragment, datagram reassembled completely and identical",
    TxArpReq => "frame:ARP request",
    TxNs => "frame:neighbor solicitation",
    TxOther => "frame:other (ICMP error, MLD, ARP reply, NA)",
    TransmitRefused => "device:transmit() refused",
    NeighReply => "neighbor reply injected",
    DrainQuiescent => "drain:reached quiescence",
    DrainStuck => "drain:stopped with poll_at due but nothing happening",
    DrainCap => "drain:iteration cap hit (no liveness verdict)",
    LiveOk => "drain:deliverable datagrams all transmitted",
    LiveUndeliverableLeft => "drain:never-deliverable datagram still pending (tolerated)",
    PaddingState => "fingerprint:a ring holds a wrap-around padding record",
}
// per-thread counters (no cache-line ping-pong between the 16 workers), summed at the end
thread_local! {
    static LOCAL_OUT: [std::cell::Cell<u64>; 48] = const { [const { std::cell::Cell::new(0) }; 48] };
}
static OUT: [AtomicU64; 48] = [const { AtomicU64::new(0) }; 48];
fn stat(o: O) {
    LOCAL_OUT.with(|l| l[o as usize].set(l[o as usize].get() + 1));
}
fn flush_stats() {
    let flush = || {
        LOCAL_OUT.with(|l| {
            for (i, c) in l.iter().enumerate() {
                OUT[i].fetch_add(c.replace(0), Ordering::Relaxed);
            }
        })
    };
    flush();
    rayon::broadcast(|_| flush());
}
static VERBOSE: AtomicBool = AtomicBool::new(false);
macro_rules! vlog {
    ($($a:tt)*) => { if VERBOSE.load(Ordering::Relaxed) { println!($($a)*); } };
}

// ---------------------------------------------------------------------------------------
// model
// ---------------------------------------------------------------------------------------

#[derive(Clone, Debug)]
struct TxEntry {
    label: u8,
    dst: Who,
    /// exactly what the application handed to send*
    bytes: Vec<u8>,
    malformed: bool,
    /// udp: `UdpMetadata::local_address` given to send (None = not set)
    local: Option<Who>,
    /// udp: the socket was bound to a specific address when send accepted the datagram (a
    /// re-bind needs close(), which discards the queue, so this is also the binding at dispatch)
    bound_addr: bool,
}

#[derive(Clone, Debug)]
struct RxEntry {
    label: u8,
    from: Who,
    /// IP destination of the frame that carried it (udp: must come back as local_address;
    /// raw: is part of the expected packet)
    to: To,
    /// what recv must return: udp payload / ICMP message / IP packet
    bytes: Vec<u8>,
}

/// hex dump for messages; long buffers (the "largest datagram" family) are abbreviated
fn hx(b: &[u8]) -> String {
    if b.len() <= 96 {
        hex(b)
    } else {
        format!("{}..({} octets)..{}", hex(&b[..32]), b.len(), hex(&b[b.len() - 8..]))
    }
}

/// Reassembly of one IPv4 fragment train as a receiver would do it, against the IP payload the
/// datagram must produce.  Fragments are placed by their OFFSET FIELD (x8) and length; smoltcp
/// emits a train in order, so every fragment must start exactly where the previous one ended.
#[derive(Clone, Debug)]
struct Train {
    ident: u16,
    label: u8,
    /// IP payload of the whole datagram
    expected: Vec<u8>,
    /// octets of `expected` that are not compared (a checksum the harness cannot predict)
    mask: Option<(usize, usize)>,
    /// next octet expected
    next: usize,
}
impl Train {
    /// Ok(true): train complete. Err((cause, detail)): not "transmitted unmodified".
    fn feed(&mut self, info: &wc::IpInfo, payload: &[u8]) -> Result<bool, (&'static str, String)> {
        let (off, len) = (info.frag_offset, payload.len());
        let ctx = format!(
            "fragment ident {:#06x} offset {} length {} MF={} of datagram #{} (IP payload {} octets, {} octets reassembled so far)",
            info.ident,
            off,
            len,
            info.more_frags as u8,
            self.label,
            self.expected.len(),
            self.next
        );
        if info.ident != self.ident {
            return Err(("stray-fragment", format!("{}: the train in flight has ident {:#06x}", ctx, self.ident)));
        }
        if off < self.next {
            return Err(("fragment-overlap", format!("{}: overlaps what was already sent", ctx)));
        }
        if off > self.next {
            return Err(("fragment-gap", format!("{}: leaves a gap of {} octets", ctx, off - self.next)));
        }
        if off + len > self.expected.len() {
            return Err(("fragment-beyond-datagram", format!("{}: reaches beyond the datagram", ctx)));
        }
        for i in 0..len {
            let masked = self.mask.map_or(false, |(a, b)| off + i >= a && off + i < b);
            if !masked && payload[i] != self.expected[off + i] {
                return Err(("fragment-payload-bytes", format!("{}: octet {} is {:#04x}, the datagram has {:#04x}", ctx, off + i, payload[i], self.expected[off + i])));
            }
        }
        if info.more_frags && len % 8 != 0 {
            return Err(("fragment-unaligned", format!("{}: a fragment that is not the last one must carry a multiple of 8 octets (the next offset is not expressible)", ctx)));
        }
        self.next = off + len;
        if !info.more_frags {
            if self.next != self.expected.len() {
                return Err(("fragment-train-ends-short", format!("{}: last fragment ends at {} of {}", ctx, self.next, self.expected.len())));
            }
            return Ok(true);
        }
        Ok(false)
    }
}

/// IP payload a datagram of `kind` with application bytes `bytes` must produce, and the octets
/// the harness cannot predict (udp checksum; ICMP checksum when the device computes it)
fn expected_ip_payload(cfg: &Cfg, bytes: &[u8], sport: u16, dport: u16) -> (Vec<u8>, Option<(usize, usize)>) {
    match cfg.kind {
        Kind::Udp => {
            let mut p = vec![];
            p.extend_from_slice(&sport.to_be_bytes());
            p.extend_from_slice(&dport.to_be_bytes());
            p.extend_from_slice(&((8 + bytes.len()) as u16).to_be_bytes());
            p.extend_from_slice(&[0, 0]);
            p.extend_from_slice(bytes);
            (p, Some((6, 8)))
        }
        Kind::Icmp => {
            let caps = cfg.ck.caps();
            let stack = stack_computes(if cfg.v6 { caps.icmpv6 } else { caps.icmpv4 });
            (bytes.to_vec(), if stack { None } else { Some((2, 4)) })
        }
        Kind::Raw => (bytes[cfg.hdr()..].to_vec(), None),
    }
}

/// bytes the application hands to send* for a datagram of `size` octets from `us` to `dst`
fn app_bytes(cfg: &Cfg, us: &Addr, dst: &Addr, size: usize, label: u8) -> Vec<u8> {
    let free = data(size - cfg.hdr(), label);
    match cfg.kind {
        Kind::Udp => free,
        Kind::Icmp => fr::icmp_echo(us, dst, false, ICMP_IDENT, label as u16, &free),
        Kind::Raw => fr::ip(us, dst, RAW_PROTO, 60 + label, &free),
    }
}

fn oa(a: &Option<Addr>) -> String {
    a.as_ref().map_or("-".to_string(), |a| a.to_string())
}

enum Got {
    Data { bytes: Vec<u8>, src: Option<Addr>, sport: Option<u16>, local: Option<Option<Addr>> },
    Exhausted,
    Truncated,
}

#[derive(Clone, Debug, PartialEq)]
pub enum Api {
    SendSlice,
    Send,
    SendWith,
}

#[derive(Clone, Debug, PartialEq)]
pub enum Ev {
    /// `size` = total bytes handed to the socket (header supplied by the application included)
    /// `local`: udp only, `UdpMetadata::local_address = Some(own address)` (send_slice with a
    /// `UdpMetadata` value)
    Send { size: usize, dst: Who, api: Api, malformed: bool, local: Option<Who> },
    RecvBig,
    RecvSmall,
    Peek,
    PeekSmall,
    BindPort,
    BindAddr,
    Close,
    Poll,
    PollEgress,
    /// a datagram frame arrives and the interface is polled
    /// `ghost`: a datagram that can only "match" a socket WITHOUT a bound endpoint: udp:
    /// destination port 0 (udp::Socket encodes unbound/closed as port 0); icmp: a port-unreachable
    /// error quoting a udp datagram of ours (an Ident-bound or unbound socket accepts no errors).
    /// Never deliverable, in any socket state.
    /// `to`: IP destination of the frame (own unicast address, broadcast, multicast)
    Inbound { size: usize, from: Who, to: To, matching: bool, ghost: bool },
    /// the ARP reply / neighbor advertisement of B arrives and the interface is polled
    NeighReply,
    /// the next n `transmit()` calls are refused
    Refuse(usize),
    /// +1 s
    Tick,
    /// lift back-pressure, answer neighbor requests, poll to quiescence, check tx liveness
    Drain,
}

pub struct DgH {
    cfg: Cfg,
    dev: BpDev,
    iface: Interface,
    sockets: SocketSet<'static>,
    h: SocketHandle,
    now: i64,
    tx_model: VecDeque<TxEntry>,
    rx_model: VecDeque<RxEntry>,
    tx_label: u8,
    rx_label: u8,
    /// a neighbor request for B was seen on the wire and not answered yet
    pending_b: bool,
    b_resolved: bool,
    /// the fragment train of a datagram too big for the link that is leaving right now
    train: Option<Train>,
    /// the model lost track after a violation: no further events
    tainted: bool,
    last_sent: Option<Vec<u8>>,
    last_recv: Option<Vec<u8>>,
    events: std::sync::Arc<Vec<Ev>>,
}

fn mk_buf<H: Clone>(empty: smoltcp::storage::PacketMetadata<H>, slots: usize, bytes: usize) -> smoltcp::storage::PacketBuffer<'static, H> {
    smoltcp::storage::PacketBuffer::new(vec![empty; slots], vec![0u8; bytes])
}

impl DgH {
    fn us(&self) -> Addr {
        addr(self.cfg.v6, Who::Us)
    }
    fn a(&self, w: Who) -> Addr {
        addr(self.cfg.v6, w)
    }
    fn viol(&mut self, out: &mut Vec<Viol>, clause: &str, cause: &str, detail: String, taint: bool) {
        let sig = format!("C09/{}/{}/{}", self.cfg.kind.name(), clause, cause);
        vlog!("      !! {} :: {}", sig, detail);
        out.push(Viol::new(sig, format!("[{:?}] {}", self.cfg, detail)));
        if taint {
            self.tainted = true;
        }
    }

    fn all_events(cfg: &Cfg) -> Vec<Ev> {
        let mut v = vec![];
        let (tx, rx, mix) = (cfg.phase != Phase::Rx, cfg.phase != Phase::Tx, cfg.phase == Phase::Mix);
        let dsts: &[Who] = if cfg.eth { &[Who::A, Who::B, Who::C] } else { &[Who::A, Who::C] };
        // On Medium::Ip there is no neighbor resolution at all (dispatch_ip never looks at the
        // neighbor cache or the routes), so A and B are the same case: only A and C are offered.
        if tx {
            for (si, &size) in cfg.sizes().iter().enumerate() {
                for (di, &dst) in dsts.iter().enumerate() {
                    // every api sees every size and every destination at least once
                    let api = match (si + di) % 3 {
                        0 => Api::SendSlice,
                        1 => Api::Send,
                        _ => Api::SendWith,
                    };
                    v.push(Ev::Send { size, dst, api, malformed: false, local: None });
                }
            }
            if cfg.kind == Kind::Udp && cfg.ip_mtu == 0 {
                // per-datagram source address: either own address, towards a resolved and an
                // unresolved neighbor; offered while bound by port and while bound by (Us, port)
                let s = cfg.sizes();
                v.push(Ev::Send { size: s[1], dst: Who::A, api: Api::SendSlice, malformed: false, local: Some(Who::Us) });
                v.push(Ev::Send { size: s[1], dst: Who::A, api: Api::SendSlice, malformed: false, local: Some(Who::Us2) });
                if cfg.eth {
                    v.push(Ev::Send { size: s[2], dst: Who::B, api: Api::SendSlice, malformed: false, local: Some(Who::Us2) });
                }
            }
            if cfg.kind != Kind::Udp {
                // 3 bytes that are neither an ICMP message nor an IP packet
                v.push(Ev::Send { size: 3, dst: Who::A, api: Api::SendSlice, malformed: true, local: None });
            }
        }
        if rx {
            v.push(Ev::RecvBig);
            v.push(Ev::RecvSmall);
            if cfg.kind != Kind::Icmp {
                v.push(Ev::Peek);
                v.push(Ev::PeekSmall);
            }
        }
        match cfg.kind {
            Kind::Udp => {
                if mix {
                    v.push(Ev::BindPort);
                }
                v.push(Ev::BindAddr);
                v.push(Ev::Close);
            }
            Kind::Icmp => {
                if mix {
                    v.push(Ev::BindPort)
                }
            }
            Kind::Raw => {}
        }
        if tx {
            v.push(Ev::Poll);
            v.push(Ev::PollEgress);
        }
        if rx {
            let s = cfg.sizes();
            v.push(Ev::Inbound { size: s[0], from: Who::A, to: To::Us, matching: true, ghost: false });
            v.push(Ev::Inbound { size: s[1], from: Who::B, to: To::Us, matching: true, ghost: false });
            v.push(Ev::Inbound { size: s[2], from: Who::A, to: To::Us, matching: true, ghost: false });
            v.push(Ev::Inbound { size: s[3], from: Who::A, to: To::Us, matching: true, ghost: false });
            v.push(Ev::Inbound { size: s[3] + 1, from: Who::B, to: To::Us, matching: true, ghost: false });
            v.push(Ev::Inbound { size: s[1], from: Who::B, to: To::Us, matching: false, ghost: false });
            // datagrams for the socket's port / ident / protocol whose IP destination is not our
            // unicast address: whether they are delivered is taken from the unchanged tree
            // (lenient); if they are, the metadata must name the frame's real destination
            let tos: &[To] = if cfg.v6 { &[To::Mcast, To::Mcast2] } else { &[To::SubnetBcast, To::LimitedBcast, To::Mcast] };
            for &to in tos {
                v.push(Ev::Inbound { size: s[1], from: Who::A, to, matching: true, ghost: false });
            }
            if cfg.kind != Kind::Raw {
                // offered in every socket state: never bound (mix), bound, closed (udp)
                v.push(Ev::Inbound { size: s[1], from: Who::A, to: To::Us, matching: false, ghost: true });
            }
        }
        if tx {
            v.push(Ev::Refuse(1));
            v.push(Ev::Refuse(2));
            v.push(Ev::Tick);
            v.push(Ev::Drain);
            if cfg.eth {
                v.push(Ev::NeighReply);
            }
        }
        v
    }

    // ---- socket access -----------------------------------------------------------------
    fn udp(&mut self) -> &mut udp::Socket<'static> {
        self.sockets.get_mut::<udp::Socket>(self.h)
    }
    fn icmp(&mut self) -> &mut icmp::Socket<'static> {
        self.sockets.get_mut::<icmp::Socket>(self.h)
    }
    fn raw(&mut self) -> &mut raw::Socket<'static> {
        self.sockets.get_mut::<raw::Socket>(self.h)
    }
    fn send_queue(&self) -> usize {
        match self.cfg.kind {
            Kind::Udp => self.sockets.get::<udp::Socket>(self.h).send_queue(),
            Kind::Icmp => self.sockets.get::<icmp::Socket>(self.h).send_queue(),
            Kind::Raw => self.sockets.get::<raw::Socket>(self.h).send_queue(),
        }
    }
    fn recv_queue(&self) -> usize {
        match self.cfg.kind {
            Kind::Udp => self.sockets.get::<udp::Socket>(self.h).recv_queue(),
            Kind::Icmp => self.sockets.get::<icmp::Socket>(self.h).recv_queue(),
            Kind::Raw => self.sockets.get::<raw::Socket>(self.h).recv_queue(),
        }
    }
    fn can_recv(&self) -> bool {
        match self.cfg.kind {
            Kind::Udp => self.sockets.get::<udp::Socket>(self.h).can_recv(),
            Kind::Icmp => self.sockets.get::<icmp::Socket>(self.h).can_recv(),
            Kind::Raw => self.sockets.get::<raw::Socket>(self.h).can_recv(),
        }
    }
    /// (metadata slots, records in use, payload read position, payload length) of the rx or tx
    /// packet buffer, read from the socket's public `Debug` image
    fn ring_geom(&self, which: &str) -> Option<(usize, usize, usize, usize)> {
        let img = format!("{:?}", self.sockets);
        let key = format!("{}: PacketBuffer {{ metadata_ring: RingBuffer {{ storage: Owned([", which);
        let i = img.find(&key)?;
        let (entries, _, used, tail) = parse_meta_ring(&img[i + key.len()..])?;
        let j = tail.find("]), read_at: ")?;
        let (read, t) = num(&tail[j + "]), read_at: ".len()..]);
        let (len, _) = num(t.strip_prefix(", length: ")?);
        Some((entries.len(), used, read, len))
    }

    /// The documented PacketBuffer placement rule, applied to the buffer as it is now: a packet
    /// of `size` octets is accepted iff a metadata slot is free and the payload fits either
    /// contiguously at the tail of the payload ring (an empty ring is reset first, so all of
    /// it is contiguous), or - the tail being padded, which takes a metadata slot of its own -
    /// contiguously at the head.  None: image not understood (no verdict).
    /// A refused enqueue leaves the geometry unchanged, so this is evaluated AFTER a refusal.
    fn ring_fits(&self, which: &str, size: usize) -> Option<bool> {
        let (slots, used, read, len) = self.ring_geom(which)?;
        let cap = self.cfg.cap();
        if slots < used || len > cap {
            return None;
        }
        let free_slots = slots - used;
        if size > cap || free_slots == 0 {
            return Some(false);
        }
        let (read, len) = if len == 0 { (0, 0) } else { (read, len) };
        let window = cap - len;
        if window < size {
            return Some(false);
        }
        let write = (read + len) % cap.max(1);
        let contig = window.min(cap - write);
        if contig >= size {
            return Some(true);
        }
        Some(window - contig >= size && free_slots >= 2)
    }

    /// number of packet (non-padding) records in the rx buffer according to the socket's
    /// `Debug` image
    fn rx_packets_queued(&self) -> usize {
        let img = format!("{:?}", self.sockets);
        const K: &str = "rx_buffer: PacketBuffer { metadata_ring: RingBuffer { storage: Owned([";
        let Some(i) = img.find(K) else { return 0 };
        match parse_meta_ring(&img[i + K.len()..]) {
            Some((entries, r, l, _)) if !entries.is_empty() => (0..l.min(entries.len())).filter(|k| entries[(r + k) % entries.len()].contains("header: Some")).count(),
            _ => 0,
        }
    }
    /// does the socket currently accept the harness' "matching" inbound datagrams?
    fn rx_open(&self) -> bool {
        match self.cfg.kind {
            Kind::Udp => self.sockets.get::<udp::Socket>(self.h).is_open(),
            Kind::Icmp => self.sockets.get::<icmp::Socket>(self.h).is_open(),
            Kind::Raw => true,
        }
    }

    // ---- datagram construction -----------------------------------------------------------
    /// bytes the application hands to send* for a datagram of `size` bytes to `dst`
    fn app_datagram(&self, size: usize, dst: Who, label: u8, malformed: bool) -> Vec<u8> {
        let v6 = self.cfg.v6;
        if malformed {
            return match self.cfg.kind {
                Kind::Raw => vec![if v6 { 0x60 } else { 0x45 }, 0, 0],
                _ => vec![if v6 { 128 } else { 8 }, 0, 0],
            };
        }
        app_bytes(&self.cfg, &self.us(), &self.a(dst), size, label)
    }

    /// (frame for the device, bytes recv must return) of an inbound datagram
    fn inbound_frame(&self, size: usize, from: Who, to: To, matching: bool, ghost: bool, label: u8) -> (Vec<u8>, Vec<u8>) {
        let v6 = self.cfg.v6;
        let (dst, dmac) = to_addr(v6, to);
        let src = self.a(from);
        let free = data(size - self.cfg.hdr(), label);
        let (packet, expect) = match self.cfg.kind {
            Kind::Udp => {
                let port = if ghost {
                    0
                } else if matching {
                    LOCAL_PORT
                } else {
                    LOCAL_PORT + 1
                };
                let u = fr::udp(&src, &dst, REMOTE_PORT + 1, port, &free);
                (fr::ip(&src, &dst, fr::PROTO_UDP, 64, &u), free)
            }
            Kind::Icmp => {
                let ident = if matching { ICMP_IDENT } else { 0x4321 };
                let m = if ghost {
                    // error about a udp datagram "we" sent from LOCAL_PORT to `from`
                    let orig = fr::ip(&dst, &src, fr::PROTO_UDP, 64, &fr::udp(&dst, &src, LOCAL_PORT, REMOTE_PORT, &free));
                    fr::icmp_port_unreachable(&src, &dst, &orig)
                } else {
                    fr::icmp_echo(&src, &dst, true, ident, label as u16, &free)
                };
                (fr::ip(&src, &dst, if v6 { fr::PROTO_ICMPV6 } else { fr::PROTO_ICMP }, 64, &m), m)
            }
            Kind::Raw => {
                let proto = if matching { RAW_PROTO } else { RAW_PROTO + 1 };
                let p = fr::ip(&src, &dst, proto, 64, &free);
                (p.clone(), p)
            }
        };
        let frame = if self.cfg.eth {
            let smac = if from == Who::A { MAC_A } else { MAC_B };
            fr::eth(&dmac, &smac, if v6 { fr::ETH_IPV6 } else { fr::ETH_IPV4 }, &packet)
        } else {
            packet
        };
        (frame, expect)
    }

    fn neigh_reply_frame(&self, who: Who) -> Vec<u8> {
        let mac = if who == Who::A { MAC_A } else { MAC_B };
        if self.cfg.v6 {
            let (src, dst) = (self.a(who), self.us());
            let Addr::V6(t) = src.clone() else { unreachable!() };
            let na = fr::ndisc_na(&src, &dst, &t, &mac);
            fr::eth(&MAC_US, &mac, fr::ETH_IPV6, &fr::ip(&src, &dst, fr::PROTO_ICMPV6, 255, &na))
        } else {
            let (Addr::V4(spa), Addr::V4(tpa)) = (self.a(who), self.us()) else { unreachable!() };
            fr::eth(&MAC_US, &mac, fr::ETH_ARP, &fr::arp(2, &mac, &spa, &MAC_US, &tpa))
        }
    }

    // ---- polling and the tx oracle ---------------------------------------------------------
    fn ts(&self) -> Instant {
        Instant::from_micros(self.now)
    }
    fn poll(&mut self, out: &mut Vec<Viol>) -> usize {
        let t = self.ts();
        self.iface.poll(t, &mut self.dev, &mut self.sockets);
        self.collect(out)
    }
    fn collect(&mut self, out: &mut Vec<Viol>) -> usize {
        let frames = self.dev.inner.take_tx();
        let n = frames.len();
        for (_, f) in frames {
            self.on_frame(&f, out);
        }
        n
    }

    fn is_socket_datagram(&self, info: &wc::IpInfo, payload: &[u8]) -> bool {
        match self.cfg.kind {
            Kind::Udp => info.proto == fr::PROTO_UDP,
            // the socket under test only ever sends echo REQUESTS; the stack itself never
            // originates one (it answers with replies / errors / NDISC / MLD)
            Kind::Icmp => {
                (info.version == 4 && info.proto == fr::PROTO_ICMP && payload.first() == Some(&8))
                    || (info.version == 6 && info.proto == fr::PROTO_ICMPV6 && payload.first() == Some(&128))
            }
            Kind::Raw => info.proto == RAW_PROTO,
        }
    }

    /// None = identical; Some(aspect) = first differing aspect (used for the signature cause)
    fn tx_diff(&self, e: &TxEntry, info: &wc::IpInfo, payload: &[u8]) -> Option<&'static str> {
        if e.malformed {
            // 3 bytes of garbage: nothing on the wire can be "that datagram, unmodified"
            return Some("malformed-datagram-transmitted");
        }
        if info.dst != self.a(e.dst) {
            return Some("destination-address");
        }
        match self.cfg.kind {
            Kind::Udp => match fr::parse_udp(payload) {
                Err(_) => Some("udp-length-field"),
                Ok((_, dport, d)) => {
                    if dport != REMOTE_PORT {
                        Some("destination-port")
                    } else if d.len() != e.bytes.len() {
                        Some("payload-length")
                    } else if d != &e.bytes[..] {
                        Some("payload-bytes")
                    } else {
                        None
                    }
                }
            },
            Kind::Icmp => {
                // smoltcp documents nothing about the checksum of a packet handed to an icmp
                // socket; it parses and re-emits the message (recomputing the checksum), so the
                // checksum field is masked (lenient reading of "unmodified").
                // With a device that computes the ICMP checksum itself the field the stack
                // leaves in the frame is not compared at all; when the stack computes it, it
                // must come out as the (correct) value the application wrote.
                let caps = self.cfg.ck.caps();
                let stack = stack_computes(if self.cfg.v6 { caps.icmpv6 } else { caps.icmpv4 });
                if payload.len() != e.bytes.len() {
                    Some("payload-length")
                } else if payload[..2] != e.bytes[..2] || payload[4..] != e.bytes[4..] {
                    Some("payload-bytes")
                } else if stack && payload[2..4] != e.bytes[2..4] {
                    Some("icmp-checksum")
                } else {
                    None
                }
            }
            Kind::Raw => {
                // "The IP header is parsed and re-serialized, and may not match the header
                // actually transmitted bit for bit" (raw::Socket::send): compare the fields
                // that identify the datagram plus the payload behind the header.
                let h = self.cfg.hdr();
                if info.proto != RAW_PROTO {
                    Some("protocol")
                } else if info.hop_limit != e.bytes[if self.cfg.v6 { 7 } else { 8 }] {
                    Some("hop-limit")
                } else if payload.len() != e.bytes.len() - h {
                    Some("payload-length")
                } else if payload != &e.bytes[h..] {
                    Some("payload-bytes")
                } else {
                    None
                }
            }
        }
    }

    /// Like `tx_diff` for the FIRST IPv4 fragment (MF=1, offset 0) of a datagram: the fragment
    /// must carry a (possibly complete) prefix of the datagram.
    fn tx_prefix_diff(&self, e: &TxEntry, info: &wc::IpInfo, payload: &[u8]) -> Option<&'static str> {
        if e.malformed {
            return Some("malformed-datagram-transmitted");
        }
        if info.dst != self.a(e.dst) {
            return Some("destination-address");
        }
        match self.cfg.kind {
            Kind::Udp => {
                if payload.len() < 8 {
                    return Some("udp-header-split");
                }
                let dport = ((payload[2] as u16) << 8) | payload[3] as u16;
                let len = ((payload[4] as usize) << 8) | payload[5] as usize;
                if dport != REMOTE_PORT {
                    Some("destination-port")
                } else if len != 8 + e.bytes.len() {
                    Some("payload-length")
                } else if !e.bytes.starts_with(&payload[8..]) {
                    Some("payload-bytes")
                } else {
                    None
                }
            }
            Kind::Icmp => {
                if payload.len() < 8 || payload.len() > e.bytes.len() {
                    Some("payload-length")
                } else if payload[..2] != e.bytes[..2] || !e.bytes[4..].starts_with(&payload[4..]) {
                    Some("payload-bytes")
                } else {
                    None
                }
            }
            Kind::Raw => {
                let h = self.cfg.hdr();
                if info.proto != RAW_PROTO {
                    Some("protocol")
                } else if info.hop_limit != e.bytes[8] {
                    Some("hop-limit")
                } else if !e.bytes[h..].starts_with(payload) {
                    Some("payload-bytes")
                } else {
                    None
                }
            }
        }
    }

    /// Signature cause for "an accepted, deliverable datagram left the queue without a frame /
    /// was never transmitted": its own class on a raw IPv4 socket over a device that computes
    /// the IPv4 header checksum itself but has the stack verify it on receive (`ipv4 = Rx`).
    fn lost_cause(&self, default: &'static str) -> &'static str {
        let ipv4 = self.cfg.ck.caps().ipv4;
        if self.cfg.kind == Kind::Raw && !self.cfg.v6 && !stack_computes(ipv4) && ipv4.rx() {
            "dropped-with-ipv4-tx-checksum-offload"
        } else {
            default
        }
    }

    fn deliverable(&self, e: &TxEntry) -> bool {
        !e.malformed && (e.dst != Who::C || !self.cfg.eth || self.cfg.via_b)
    }

    fn on_frame(&mut self, f: &[u8], out: &mut Vec<Viol>) {
        if self.tainted {
            // the model is out of step after a violation: later frames of the same poll would
            // only produce follow-up noise
            return;
        }
        let p = fr::parse_frame(self.cfg.eth, f);
        let (info, packet) = match &p.l3 {
            fr::L3::Arp { oper, tpa, .. } => {
                vlog!("      tx: ARP oper={} target={:?}", oper, tpa);
                if *oper == 1 {
                    stat(O::TxArpReq);
                    if Addr::V4(*tpa) == self.a(Who::B) {
                        self.pending_b = true;
                    }
                } else {
                    stat(O::TxOther);
                }
                return;
            }
            fr::L3::Bad(e) => {
                let d = format!("frame {} cannot be parsed: {}", hx(f), e);
                self.viol(out, "tx-frame", "unparsable", d, true);
                return;
            }
            fr::L3::Ip { info, packet } => (info.clone(), packet.clone()),
        };
        let payload = &packet[info.payload_off..];
        vlog!(
            "      tx: {} -> {} proto {} len {} {}{}",
            info.src,
            info.dst,
            info.proto,
            payload.len(),
            hx(payload),
            if info.more_frags || info.frag_offset != 0 { format!(" [fragment offset {} MF={}]", info.frag_offset, info.more_frags as u8) } else { String::new() }
        );
        // IPv4 header checksum (RFC 1071 over the header, wirecheck) of every packet of the
        // socket's protocol - whole datagrams and all fragments - where the capabilities say
        // the stack computes it: a receiver discards a packet with a bad header checksum, so
        // such a datagram / fragment has not been transmitted
        let own_proto = match self.cfg.kind {
            Kind::Udp => fr::PROTO_UDP,
            Kind::Icmp => fr::PROTO_ICMP,
            Kind::Raw => RAW_PROTO,
        };
        if info.version == 4 && info.proto == own_proto && stack_computes(self.cfg.ck.caps().ipv4) && !info.header_checksum_ok {
            let d = format!(
                "IPv4 packet {} -> {} (offset {}, MF={}, {} octets) left with a wrong header checksum: header {}",
                info.src,
                info.dst,
                info.frag_offset,
                info.more_frags as u8,
                info.total_len,
                hx(&packet[..info.header_len])
            );
            let cause = if info.more_frags && info.frag_offset != 0 {
                "ipv4-header-checksum-of-middle-fragment"
            } else if info.more_frags || info.frag_offset != 0 {
                "ipv4-header-checksum-of-fragment"
            } else {
                "ipv4-header-checksum"
            };
            self.viol(out, "tx-unmodified", cause, d, true);
            return;
        }
        if info.proto == fr::PROTO_ICMPV6 && payload.first() == Some(&135) {
            stat(O::TxNs);
            if payload.len() >= 24 && Addr::V6(payload[8..24].try_into().unwrap()) == self.a(Who::B) {
                self.pending_b = true;
            }
            return;
        }
        if info.version == 4 && info.frag_offset != 0 && info.proto == own_proto {
            // a later fragment (its payload has no transport header to classify it by)
            stat(O::TxFragRest);
            let Some(mut t) = self.train.take() else {
                let d = format!("IPv4 fragment at offset {} ({} -> {}) although no fragment train is in flight", info.frag_offset, info.src, info.dst);
                self.viol(out, "tx-unmodified", "stray-fragment", d, true);
                return;
            };
            match t.feed(&info, payload) {
                Ok(true) => stat(O::TxTrainComplete),
                Ok(false) => self.train = Some(t),
                Err((cause, d)) => self.viol(out, "tx-unmodified", cause, d, true),
            }
            return;
        }
        if !self.is_socket_datagram(&info, payload) {
            stat(O::TxOther);
            return;
        }
        // --- a datagram of the socket under test is on the wire ---
        // IPv4 fragments: a datagram that FITS the link must leave as one unfragmented packet
        // (MF = 0, offset 0).  A datagram that exceeds the IP MTU is matched against the model
        // by its FIRST fragment (order, at-most-once, addressing) and then REASSEMBLED from
        // the (offset field x 8, length) of the fragments actually on the wire (`Train`):
        // overlap, gap, unaligned middle fragment, wrong bytes or a short tail mean that the
        // datagram was not transmitted unmodified.
        let frag_first = info.version == 4 && info.more_frags && info.frag_offset == 0;
        let differs = |h: &DgH, e: &TxEntry| if frag_first { h.tx_prefix_diff(e, &info, payload) } else { h.tx_diff(e, &info, payload) };
        let pos = (0..self.tx_model.len()).find(|&i| differs(self, &self.tx_model[i]).is_none());
        let Some(pos) = pos else {
            let desc = format!("{} -> {} {}", info.src, info.dst, hx(payload));
            if self.tx_model.is_empty() {
                if self.last_sent.as_deref() == Some(&packet[..]) {
                    self.viol(out, "tx-once", "duplicate-transmission", format!("datagram {} transmitted a second time (nothing queued)", desc), true);
                } else {
                    self.viol(out, "tx-accepted", "frame-without-accepted-datagram", format!("datagram {} on the wire but no accepted datagram is pending", desc), true);
                }
            } else {
                let head = self.tx_model[0].clone();
                let aspect = differs(self, &head).unwrap_or("?");
                let dup = self.last_sent.as_deref() == Some(&packet[..]);
                let d = format!(
                    "datagram {} on the wire matches no pending accepted datagram; oldest pending: to {} bytes {}{}",
                    desc,
                    self.a(head.dst),
                    hx(&head.bytes),
                    if dup { " (identical to the previously transmitted frame)" } else { "" }
                );
                if dup {
                    self.viol(out, "tx-once", "duplicate-transmission", d, true);
                } else {
                    self.viol(out, "tx-unmodified", aspect, d, true);
                }
            }
            return;
        };
        // entries in front of it can only be skipped if they can never be delivered
        if let Some(j) = (0..pos).find(|&j| self.deliverable(&self.tx_model[j])) {
            let e = self.tx_model[j].clone();
            let d = format!(
                "datagram #{} to {} transmitted while the older accepted datagram #{} to {} ({} bytes) is still pending",
                self.tx_model[pos].label,
                info.dst,
                e.label,
                self.a(e.dst),
                e.bytes.len()
            );
            self.viol(out, "tx-order", "overtook-older-datagram", d, true);
            return;
        }
        let e = self.tx_model[pos].clone();
        for _ in 0..=pos {
            self.tx_model.pop_front();
        }
        self.last_sent = Some(packet.clone());
        if frag_first {
            let (need, mtu) = (self.cfg.ip_len(e.bytes.len()), self.cfg.link_ip_mtu());
            if need <= mtu {
                let d = format!(
                    "datagram #{} ({} bytes to {}) makes an IP packet of {} bytes, which fits the IP MTU {}, but left as a fragment (MF=1, offset 0, {} bytes); the receiver cannot complete it unless more fragments follow",
                    e.label,
                    e.bytes.len(),
                    info.dst,
                    need,
                    mtu,
                    info.total_len
                );
                self.viol(out, "tx-unmodified", "fragmented-although-it-fits", d, true);
                return;
            }
            stat(O::TxFragFirst);
            if let Some(t) = &self.train {
                let d = format!("datagram #{} starts to leave as fragments while the train of datagram #{} is incomplete ({} of {} octets)", e.label, t.label, t.next, t.expected.len());
                self.viol(out, "tx-unmodified", "fragment-train-abandoned", d, true);
                return;
            }
            let (expected, mask) = expected_ip_payload(&self.cfg, &e.bytes, LOCAL_PORT, REMOTE_PORT);
            let mut t = Train { ident: info.ident, label: e.label, expected, mask, next: 0 };
            match t.feed(&info, payload) {
                Ok(_) => self.train = Some(t),
                Err((cause, d)) => {
                    self.viol(out, "tx-unmodified", cause, d, true);
                    return;
                }
            }
        } else {
            stat(if pos == 0 { O::TxMatched } else { O::TxMatchedSkipping });
        }
        // addressing of the matched datagram
        // udp: UdpMetadata::local_address if the application set it, else the address the
        // socket is bound to, else whatever source selection gives (lenient: any own address;
        // C11 judges the selection).  icmp: selected by the stack (any own address).  raw: the
        // address the application wrote into its header.
        let (ok, want) = match (self.cfg.kind, e.local, e.bound_addr) {
            (Kind::Udp, Some(w), _) => (info.src == self.a(w), format!("{} (UdpMetadata::local_address)", self.a(w))),
            (Kind::Udp, None, true) | (Kind::Raw, _, _) => (info.src == self.us(), self.us().to_string()),
            _ => (info.src == self.us() || info.src == self.a(Who::Us2), "one of the interface's addresses".to_string()),
        };
        if !ok {
            let d = format!(
                "datagram #{} to {} left with source address {}, expected {}{}",
                e.label,
                info.dst,
                info.src,
                want,
                if e.bound_addr { format!("; socket bound to {}", self.us()) } else { String::new() }
            );
            self.viol(out, "tx-addressing", "source-address", d, false);
        }
        if self.cfg.kind == Kind::Udp {
            if payload.len() >= 2 {
                let sport = ((payload[0] as u16) << 8) | payload[1] as u16;
                if sport != LOCAL_PORT {
                    let d = format!("datagram #{} left with source port {} (socket bound to {})", e.label, sport, LOCAL_PORT);
                    self.viol(out, "tx-addressing", "source-port", d, false);
                }
            }
        }
        if self.cfg.eth && p.eth_src != Some(MAC_US) {
            let d = format!("datagram #{} to {} left with source MAC {:02x?}", e.label, info.dst, p.eth_src);
            self.viol(out, "tx-addressing", "source-mac", d, false);
        }
        if self.cfg.eth {
            let want = match e.dst {
                Who::A => Some(MAC_A),
                Who::B => Some(MAC_B),
                Who::C if self.cfg.via_b => Some(MAC_B),
                _ => None,
            };
            match want {
                None => {
                    let d = format!("datagram #{} to {} transmitted although there is no route to it (frame to {:02x?})", e.label, info.dst, p.eth_dst);
                    self.viol(out, "tx-addressing", "sent-without-route", d, false);
                }
                Some(m) => {
                    if p.eth_dst != Some(m) {
                        let d = format!("datagram #{} to {} sent to MAC {:02x?}, next hop has {:02x?}", e.label, info.dst, p.eth_dst, m);
                        self.viol(out, "tx-addressing", "next-hop-mac", d, false);
                    }
                }
            }
        }
    }

    // ---- application events ---------------------------------------------------------------
    fn do_send(&mut self, size: usize, dst: Who, api: &Api, malformed: bool, local: Option<Who>, out: &mut Vec<Viol>) {
        let bound_addr = self.cfg.kind == Kind::Udp && self.sockets.get::<udp::Socket>(self.h).endpoint().addr.is_some();
        let label = self.tx_label;
        let bytes = self.app_datagram(size, dst, label, malformed);
        let n = bytes.len();
        let max = (n + 2).min(self.cfg.cap().max(n));
        let dst_ip = to_ip(&self.a(dst));
        let q0 = self.send_queue();
        // Result<(), (is Unaddressable, text)>
        let mut wrote = usize::MAX;
        let res: Result<(), (bool, String)> = match self.cfg.kind {
            Kind::Udp => {
                let mut ep: udp::UdpMetadata = IpEndpoint::new(dst_ip, REMOTE_PORT).into();
                ep.local_address = local.map(|w| to_ip(&self.a(w)));
                let s = self.udp();
                let r = match api {
                    Api::SendSlice => s.send_slice(&bytes, ep),
                    Api::Send => s.send(n, ep).map(|b| b.copy_from_slice(&bytes)),
                    Api::SendWith => s
                        .send_with(max, ep, |b| {
                            b[..n].copy_from_slice(&bytes);
                            n
                        })
                        .map(|w| wrote = w),
                };
                r.map_err(|e| (e == udp::SendError::Unaddressable, format!("{:?}", e)))
            }
            Kind::Icmp => {
                let s = self.icmp();
                let r = match api {
                    Api::SendSlice => s.send_slice(&bytes, dst_ip),
                    Api::Send => s.send(n, dst_ip).map(|b| b.copy_from_slice(&bytes)),
                    Api::SendWith => s
                        .send_with(max, dst_ip, |b| {
                            b[..n].copy_from_slice(&bytes);
                            n
                        })
                        .map(|w| wrote = w),
                };
                r.map_err(|e| (e == icmp::SendError::Unaddressable, format!("{:?}", e)))
            }
            Kind::Raw => {
                let s = self.raw();
                let r = match api {
                    Api::SendSlice => s.send_slice(&bytes),
                    Api::Send => s.send(n).map(|b| b.copy_from_slice(&bytes)),
                    Api::SendWith => s
                        .send_with(max, |b| {
                            b[..n].copy_from_slice(&bytes);
                            n
                        })
                        .map(|w| wrote = w),
                };
                r.map_err(|e| (false, format!("{:?}", e)))
            }
        };
        match res {
            Ok(()) => {
                vlog!("      send -> Ok (datagram #{} {})", label, hx(&bytes));
                stat(O::SendOk);
                if wrote != usize::MAX && wrote != n {
                    let d = format!("send_with closure wrote {} bytes but {} were reported", n, wrote);
                    self.viol(out, "tx-unmodified", "send_with-size", d, true);
                }
                self.tx_label += 1;
                // The tx buffer holds at most `slots` datagrams (packet_send_capacity(), public)
                // and is a FIFO: if this one was accepted, at most slots-1 older ones are still
                // inside, so the oldest model entries beyond that have left the socket without
                // a frame (every frame pops its entry).  That is fine for entries that can never
                // be delivered (malformed / unroutable: silently dropped by dispatch), and a
                // loss for deliverable ones.
                while self.tx_model.len() + 1 > self.cfg.slots {
                    let gone = self.tx_model.pop_front().unwrap();
                    if self.deliverable(&gone) {
                        let d = format!(
                            "send accepted datagram #{} although {} older accepted datagrams were pending in a {}-slot buffer: datagram #{} ({} bytes to {}) left the queue without being transmitted",
                            label,
                            self.tx_model.len() + 1,
                            self.cfg.slots,
                            gone.label,
                            gone.bytes.len(),
                            self.a(gone.dst)
                        );
                        let cause = self.lost_cause("vanished-from-queue");
                        self.viol(out, "tx-liveness", cause, d, true);
                    }
                }
                self.tx_model.push_back(TxEntry { label, dst, bytes, malformed, local, bound_addr });
            }
            Err((unaddr, text)) => {
                vlog!("      send -> Err({})", text);
                stat(if unaddr { O::SendUnaddr } else { O::SendFull });
                let q1 = self.send_queue();
                if q1 != q0 {
                    let d = format!("send of {} bytes returned Err({}) but send_queue() went from {} to {}", n, text, q0, q1);
                    self.viol(out, "tx-error", "queued-despite-error", d, true);
                } else if !unaddr {
                    let want = if *api == Api::SendWith { max } else { n };
                    if self.ring_fits("tx_buffer", want) == Some(true) {
                        let d = format!(
                            "send of {} octets returned Err({}) although the tx buffer can hold it (geometry (slots, used, read_at, length) = {:?}, payload capacity {})",
                            want,
                            text,
                            self.ring_geom("tx_buffer"),
                            self.cfg.cap()
                        );
                        self.viol(out, "tx-accept", "refused-although-it-fits", d, false);
                    }
                }
            }
        }
    }

    fn rx_diff(&self, e: &RxEntry, bytes: &[u8], src: &Option<Addr>, sport: &Option<u16>, local: &Option<Option<Addr>>) -> Option<&'static str> {
        match self.cfg.kind {
            Kind::Udp => {
                if bytes.len() < e.bytes.len() && e.bytes.starts_with(bytes) {
                    return Some("silently-shortened");
                }
                if bytes != &e.bytes[..] {
                    return Some("payload");
                }
            }
            Kind::Icmp => {
                // process_v4/v6 re-emit the parsed message into the rx buffer (checksum
                // recomputed): mask the checksum field
                if bytes.len() < e.bytes.len() && bytes.len() >= 4 && e.bytes[4..].starts_with(&bytes[4..]) && e.bytes[..2] == bytes[..2] {
                    return Some("silently-shortened");
                }
                if bytes.len() != e.bytes.len() || bytes.len() < 8 || bytes[..2] != e.bytes[..2] || bytes[4..] != e.bytes[4..] {
                    return Some("payload");
                }
            }
            Kind::Raw => {
                // "The IP header is parsed and re-serialized, and may not match the header
                // actually received bit for bit" (raw::Socket::recv): compare addresses,
                // protocol and the payload behind the header
                let h = self.cfg.hdr();
                if bytes.len() < e.bytes.len() && bytes.len() >= h && e.bytes[h..].starts_with(&bytes[h..]) {
                    return Some("silently-shortened");
                }
                let (Ok(g), Ok(x)) = (wc::parse_ip(bytes), wc::parse_ip(&e.bytes)) else { return Some("payload") };
                if g.src != x.src {
                    return Some("source-address");
                }
                if g.dst != x.dst {
                    return Some("local-address");
                }
                if g.proto != x.proto || bytes[g.payload_off..] != e.bytes[x.payload_off..] {
                    return Some("payload");
                }
            }
        }
        if let Some(s) = src {
            if *s != self.a(e.from) {
                return Some("source-address");
            }
        }
        if let Some(p) = sport {
            if *p != REMOTE_PORT + 1 {
                return Some("source-port");
            }
        }
        if let Some(l) = local {
            // udp: "The IP address to which an incoming datagram was sent ... Incoming
            // datagrams always have this set" (UdpMetadata::local_address)
            if *l != Some(to_addr(self.cfg.v6, e.to).0) {
                return Some("local-address");
            }
        }
        None
    }

    /// Compare what a recv/peek call returned with the model. `consume`: recv_slice (also on
    /// Truncated, where all three socket kinds document that the datagram is discarded).
    fn rx_observe(&mut self, call: &str, got: Got, buflen: usize, consume: bool, out: &mut Vec<Viol>) {
        let head = self.rx_model.front().cloned();
        match got {
            Got::Exhausted => {
                vlog!("      {} -> Exhausted", call);
                if let Some(e) = head {
                    let d = format!("{} returned Exhausted but datagram #{} ({} bytes from {}) was delivered and never read", call, e.label, e.bytes.len(), self.a(e.from));
                    self.viol(out, "rx-once", "delivered-datagram-lost", d, true);
                }
            }
            Got::Truncated => {
                vlog!("      {} -> Truncated", call);
                match head {
                    Some(e) if e.bytes.len() > buflen => {
                        if consume {
                            self.rx_model.pop_front();
                        }
                    }
                    _ => {
                        let d = format!("{} with a {}-byte buffer returned Truncated but the oldest unread datagram has {:?} bytes", call, buflen, head.map(|e| e.bytes.len()));
                        self.viol(out, "rx-truncated", "spurious-truncated", d, true);
                    }
                }
            }
            Got::Data { bytes, src, sport, local } => {
                vlog!("      {} -> {} bytes {} from {}:{:?} local {:?}", call, bytes.len(), hx(&bytes), oa(&src), sport, local.as_ref().map(oa));
                let got_desc = format!("{} bytes {} (src {}:{:?}, local {:?})", bytes.len(), hx(&bytes), oa(&src), sport, local.as_ref().map(oa));
                let Some(e) = head else {
                    if self.last_recv.as_deref() == Some(&bytes[..]) {
                        let d = format!("{} returned {} although every delivered datagram was read: the datagram read last comes a second time", call, got_desc);
                        self.viol(out, "rx-once", "duplicate-delivery", d, true);
                    } else {
                        let d = format!("{} returned {} but no datagram for this socket is unread", call, got_desc);
                        self.viol(out, "rx-match", "unexpected-datagram", d, true);
                    }
                    return;
                };
                if let Some(aspect) = self.rx_diff(&e, &bytes, &src, &sport, &local) {
                    let later = (1..self.rx_model.len()).find(|&i| self.rx_diff(&self.rx_model[i], &bytes, &src, &sport, &local).is_none());
                    let want = format!("oldest unread datagram #{}: {} bytes {} carried by a frame from {} to {}", e.label, e.bytes.len(), hx(&e.bytes), self.a(e.from), to_addr(self.cfg.v6, e.to).0);
                    if let Some(i) = later {
                        let d = format!("{} returned datagram #{} ({}) before the {}", call, self.rx_model[i].label, got_desc, want);
                        self.viol(out, "rx-order", "overtook-older-datagram", d, true);
                    } else {
                        let clause = match aspect {
                            "silently-shortened" => "rx-truncated",
                            "payload" => "rx-whole",
                            _ => "rx-metadata",
                        };
                        let d = format!("{} returned {}; {}", call, got_desc, want);
                        self.viol(out, clause, aspect, d, true);
                    }
                    return;
                }
                if bytes.len() > buflen {
                    let d = format!("{} wrote {} bytes into a {}-byte buffer", call, bytes.len(), buflen);
                    self.viol(out, "rx-truncated", "overlong-result", d, true);
                    return;
                }
                if consume {
                    self.rx_model.pop_front();
                    self.last_recv = Some(bytes);
                }
            }
        }
    }

    fn do_recv(&mut self, big: bool, out: &mut Vec<Viol>) {
        let buflen = if big { self.cfg.cap() + 8 } else { self.cfg.small_buf() };
        let mut buf = vec![0u8; buflen];
        let got = match self.cfg.kind {
            Kind::Udp => match self.udp().recv_slice(&mut buf) {
                Ok((n, m)) => Got::Data {
                    bytes: buf[..n.min(buflen)].to_vec(),
                    src: Some(from_ip(&m.endpoint.addr)),
                    sport: Some(m.endpoint.port),
                    local: Some(m.local_address.as_ref().map(from_ip)),
                },
                Err(udp::RecvError::Exhausted) => Got::Exhausted,
                Err(udp::RecvError::Truncated) => Got::Truncated,
            },
            Kind::Icmp => match self.icmp().recv_slice(&mut buf) {
                Ok((n, a)) => Got::Data { bytes: buf[..n.min(buflen)].to_vec(), src: Some(from_ip(&a)), sport: None, local: None },
                Err(icmp::RecvError::Exhausted) => Got::Exhausted,
                Err(icmp::RecvError::Truncated) => Got::Truncated,
            },
            Kind::Raw => match self.raw().recv_slice(&mut buf) {
                Ok(n) => Got::Data { bytes: buf[..n.min(buflen)].to_vec(), src: None, sport: None, local: None },
                Err(raw::RecvError::Exhausted) => Got::Exhausted,
                Err(raw::RecvError::Truncated) => Got::Truncated,
            },
        };
        stat(match got {
            Got::Data { .. } => O::RecvOk,
            Got::Exhausted => O::RecvExhausted,
            Got::Truncated => O::RecvTruncated,
        });
        self.rx_observe(if big { "recv_slice(big)" } else { "recv_slice(small)" }, got, buflen, true, out);
    }

    fn do_peek(&mut self, small: bool, out: &mut Vec<Viol>) {
        let buflen = if small { self.cfg.small_buf() } else { usize::MAX };
        let mut buf = vec![0u8; if small { buflen } else { 0 }];
        let got = match self.cfg.kind {
            Kind::Udp => {
                let s = self.udp();
                let r = if small {
                    s.peek_slice(&mut buf).map(|(n, m)| (buf[..n.min(buflen)].to_vec(), *m))
                } else {
                    s.peek().map(|(b, m)| (b.to_vec(), *m))
                };
                match r {
                    Ok((bytes, m)) => Got::Data {
                        bytes,
                        src: Some(from_ip(&m.endpoint.addr)),
                        sport: Some(m.endpoint.port),
                        local: Some(m.local_address.as_ref().map(from_ip)),
                    },
                    Err(udp::RecvError::Exhausted) => Got::Exhausted,
                    Err(udp::RecvError::Truncated) => Got::Truncated,
                }
            }
            Kind::Raw => {
                let s = self.raw();
                let r = if small { s.peek_slice(&mut buf).map(|n| buf[..n.min(buflen)].to_vec()) } else { s.peek().map(|b| b.to_vec()) };
                match r {
                    Ok(bytes) => Got::Data { bytes, src: None, sport: None, local: None },
                    Err(raw::RecvError::Exhausted) => Got::Exhausted,
                    Err(raw::RecvError::Truncated) => Got::Truncated,
                }
            }
            Kind::Icmp => return, // icmp::Socket has no peek
        };
        stat(match got {
            Got::Data { .. } => O::PeekOk,
            Got::Exhausted => O::PeekExhausted,
            Got::Truncated => O::PeekTruncated,
        });
        self.rx_observe(if small { "peek_slice(small)" } else { "peek" }, got, buflen, false, out);
    }

    fn do_bind(&mut self, with_addr: bool, out: &mut Vec<Viol>) {
        let was_open = self.rx_open();
        let ok = match self.cfg.kind {
            Kind::Udp => {
                let ep = if with_addr { IpListenEndpoint { addr: Some(to_ip(&self.us())), port: LOCAL_PORT } } else { IpListenEndpoint::from(LOCAL_PORT) };
                self.udp().bind(ep).is_ok()
            }
            Kind::Icmp => self.icmp().bind(icmp::Endpoint::Ident(ICMP_IDENT)).is_ok(),
            Kind::Raw => return,
        };
        vlog!("      bind -> {}", if ok { "Ok" } else { "Err" });
        stat(if ok { O::BindOk } else { O::BindErr });
        // a (failed or successful) bind must not touch queued datagrams: the accessor
        // checks after the event and later recv/transmissions compare against the model
        if ok == was_open {
            let d = format!("bind returned {} on a socket that was {}", if ok { "Ok" } else { "Err" }, if was_open { "open" } else { "closed" });
            self.viol(out, "bind", "open-state", d, false);
        }
    }

    fn do_inbound(&mut self, size: usize, from: Who, to: To, matching: bool, ghost: bool, out: &mut Vec<Viol>) {
        let label = self.rx_label;
        self.rx_label += 1;
        let (frame, expect) = self.inbound_frame(size, from, to, matching, ghost, label);
        let q0 = self.recv_queue();
        let n0 = if size == 0 { self.rx_packets_queued() } else { 0 };
        let open = self.rx_open();
        let model_empty = self.rx_model.is_empty();
        self.dev.inner.rx.push_back(frame);
        self.poll(out);
        if self.tainted {
            return;
        }
        let q1 = self.recv_queue();
        // Only a datagram that arrives while the socket is bound (and addressed to that
        // endpoint) enters the model; close() empties the model. So whatever a later recv/peek
        // returns - also after a re-bind - is judged against the datagrams that arrived for the
        // endpoint bound at THEIR arrival; anything else that shows up in the queue (here, via
        // recv_queue()/can_recv(), or later as recv data: rx-match/unexpected-datagram) is a
        // violation, whether the socket was never bound, is bound or was closed.
        let eligible = matching && open && size <= self.cfg.cap();
        if !eligible {
            stat(O::InNotEligible);
            if q1 != q0 || (model_empty && self.can_recv()) {
                let why = if ghost {
                    "unbound-endpoint"
                } else if !matching {
                    "non-matching"
                } else if !open {
                    "unbound-socket"
                } else {
                    "oversize"
                };
                let d = format!("inbound datagram #{} ({} bytes from {}, {}) was queued in the socket (recv_queue {} -> {})", label, size, self.a(from), why, q0, q1);
                self.viol(out, "rx-match", &format!("{}-datagram-queued", why), d, true);
            }
            return;
        }
        if size > 0 {
            if q1 > q0 {
                vlog!("      inbound #{} to {} delivered (recv_queue {} -> {})", label, to_addr(self.cfg.v6, to).0, q0, q1);
                stat(if to == To::Us { O::InDelivered } else { O::InNonUnicastDelivered });
                self.rx_model.push_back(RxEntry { label, from, to, bytes: expect });
            } else if to != To::Us {
                vlog!("      inbound #{} to {} not delivered (tolerated: not addressed to our unicast address)", label, to_addr(self.cfg.v6, to).0);
                stat(O::InNonUnicastNotDelivered);
            } else if model_empty {
                let d = format!("valid datagram #{} ({} bytes <= capacity {}) for the bound socket was not delivered although its rx buffer was empty", label, size, self.cfg.cap());
                self.viol(out, "rx-delivery", "dropped-into-empty-buffer", d, false);
            } else if self.ring_fits("rx_buffer", size) == Some(true) {
                let d = format!(
                    "valid datagram #{} ({} octets) for the bound socket was dropped although the rx buffer can hold it (geometry (slots, used, read_at, length) = {:?}, payload capacity {})",
                    label,
                    size,
                    self.ring_geom("rx_buffer"),
                    self.cfg.cap()
                );
                self.viol(out, "rx-delivery", "dropped-although-it-fits", d, false);
            } else {
                vlog!("      inbound #{} dropped, rx buffer cannot hold it", label);
                stat(O::InDroppedTolerated);
            }
        } else {
            // zero-length (udp only): recv_queue() cannot tell; the number of packet records
            // in the rx buffer is read from the socket's public Debug image (only to learn
            // WHETHER it was queued; what is queued is checked by the recv/peek oracles)
            let n1 = self.rx_packets_queued();
            if n1 > n0 {
                vlog!("      inbound #{} (zero length) delivered", label);
                stat(O::InDeliveredZero);
                self.rx_model.push_back(RxEntry { label, from, to, bytes: expect });
            } else if model_empty {
                let d = format!("valid zero-length datagram #{} for the bound socket was not delivered although its rx buffer was empty", label);
                self.viol(out, "rx-delivery", "dropped-into-empty-buffer", d, false);
            } else if self.ring_fits("rx_buffer", 0) == Some(true) {
                let d = format!("valid zero-length datagram #{} for the bound socket was dropped although a metadata slot is free ({:?})", label, self.ring_geom("rx_buffer"));
                self.viol(out, "rx-delivery", "dropped-although-it-fits", d, false);
            } else {
                vlog!("      inbound #{} (zero length) dropped, no metadata slot", label);
                stat(O::InDroppedTolerated);
            }
        }
    }

    fn do_neigh_reply(&mut self, out: &mut Vec<Viol>) {
        let f = self.neigh_reply_frame(Who::B);
        self.dev.inner.rx.push_back(f);
        self.pending_b = false;
        self.b_resolved = true;
        stat(O::NeighReply);
        self.poll(out);
    }

    fn do_drain(&mut self, out: &mut Vec<Viol>) {
        self.dev.refuse_next = 0;
        let mut fruitless_advances = 0;
        let mut advances = 0;
        let mut idle_polls = 0;
        let mut verdict = None;
        for _ in 0..40 {
            if self.cfg.eth && self.pending_b {
                let f = self.neigh_reply_frame(Who::B);
                self.dev.inner.rx.push_back(f);
                self.pending_b = false;
                self.b_resolved = true;
                stat(O::NeighReply);
            }
            let n = self.poll(out);
            if self.tainted {
                return;
            }
            if self.cfg.eth && self.pending_b {
                fruitless_advances = 0;
                continue;
            }
            if n > 0 {
                fruitless_advances = 0;
                idle_polls = 0;
                continue;
            }
            let t = self.ts();
            match self.iface.poll_at(t, &self.sockets) {
                None => {
                    verdict = Some(O::DrainQuiescent);
                    break;
                }
                Some(at) if at > t => {
                    // a deadline in the future: go there (at most 4 times = 4 s; rate limits
                    // of the neighbor cache and of the socket are 1 s each)
                    if advances >= 4 || fruitless_advances >= 3 {
                        verdict = Some(O::DrainStuck);
                        break;
                    }
                    advances += 1;
                    fruitless_advances += 1;
                    idle_polls = 0;
                    self.now = at.total_micros();
                }
                Some(_) => {
                    // due now, but the poll just made emitted nothing. One poll() may silently
                    // discard only ONE datagram the socket cannot serialise (its egress loop
                    // stops when no frame was produced), so up to `slots` such polls are
                    // progress; two more without any effect mean nothing will happen at this time.
                    idle_polls += 1;
                    if idle_polls >= self.cfg.slots + 2 {
                        verdict = Some(O::DrainStuck);
                        break;
                    }
                }
            }
        }
        let Some(v) = verdict else {
            stat(O::DrainCap);
            return;
        };
        stat(v);
        if let Some(t) = &self.train {
            let d = format!(
                "the fragment train of datagram #{} stopped at {} of {} octets although back-pressure is lifted and nothing more happens (poll_at {:?})",
                t.label,
                t.next,
                t.expected.len(),
                self.iface.poll_at(self.ts(), &self.sockets)
            );
            self.viol(out, "tx-liveness", "fragment-train-incomplete", d, false);
        }
        // a deliverable datagram that is neither on the wire nor in the queue any more was lost,
        // not blocked: report that (check_accessors) rather than a liveness verdict
        let need: usize = self.tx_model.iter().filter(|e| self.deliverable(e)).map(|e| e.bytes.len()).sum();
        if self.send_queue() < need {
            return;
        }
        // liveness: every deliverable accepted datagram must have appeared by now
        let stuck = self.tx_model.iter().enumerate().find(|(_, e)| self.deliverable(e)).map(|(i, e)| (i, e.clone()));
        match stuck {
            None => {
                stat(if self.tx_model.is_empty() { O::LiveOk } else { O::LiveUndeliverableLeft });
            }
            Some((i, e)) => {
                // what sits in front of it: an unroutable datagram stays at the head of the
                // socket's queue forever; a malformed one is dropped by the socket's dispatch
                let blocker = (0..i)
                    .find(|&u| !self.tx_model[u].malformed)
                    .or(if i > 0 { Some(0) } else { None })
                    .map(|u| self.tx_model[u].clone());
                let blocked = blocker.is_some();
                let d = format!(
                    "after lifting back-pressure, answering neighbor requests and polling until nothing happens (poll_at {:?}, now {} us), accepted datagram #{} ({} bytes to {}, resolvable, fits) was never transmitted{}",
                    self.iface.poll_at(self.ts(), &self.sockets),
                    self.now,
                    e.label,
                    e.bytes.len(),
                    self.a(e.dst),
                    match &blocker {
                        Some(b) if blocked => format!(
                            "; it is queued behind datagram #{} ({}) which can never be transmitted and is never dropped",
                            b.label,
                            if b.malformed { "malformed".to_string() } else { format!("to {} without a route", self.a(b.dst)) }
                        ),
                        _ => String::new(),
                    }
                );
                let cause = match &blocker {
                    Some(b) if blocked && b.malformed => "blocked-behind-malformed-datagram",
                    Some(_) if blocked => "blocked-behind-unroutable-datagram",
                    _ => self.lost_cause("never-transmitted"),
                };
                self.viol(out, "tx-liveness", cause, d, false);
            }
        }
    }

    /// cheap consistency checks through public accessors after every event
    fn check_accessors(&mut self, out: &mut Vec<Viol>) {
        if self.tainted {
            return;
        }
        let can = self.can_recv();
        if self.rx_model.is_empty() && (can || self.recv_queue() != 0) {
            let d = format!("can_recv()={} recv_queue()={} but every delivered datagram was read", can, self.recv_queue());
            self.viol(out, "rx-match", "phantom-datagram-queued", d, true);
        } else if !self.rx_model.is_empty() && !can {
            let d = "can_recv() is false but a delivered datagram was never read".to_string();
            self.viol(out, "rx-once", "delivered-datagram-lost", d, true);
        }
        // accepted, deliverable, not yet on the wire => still in the socket's queue
        let need: usize = self.tx_model.iter().filter(|e| self.deliverable(e)).map(|e| e.bytes.len()).sum();
        let have = self.send_queue();
        if have < need {
            let d = format!(
                "send_queue()={} but {} bytes of accepted deliverable datagrams have not been transmitted (device checksum capabilities: {})",
                have,
                need,
                self.cfg.ck.name()
            );
            let cause = self.lost_cause("vanished-from-queue");
            self.viol(out, "tx-liveness", cause, d, true);
        }
    }

    // ---- fingerprint ------------------------------------------------------------------------
    fn normalized_image(&self) -> (String, bool) {
        let raw = format!("{}\n{:?}", self.iface.verif_digest(), self.sockets);
        // (1) payload ring contents are replaced by the model queues: the socket and buffer
        //     code never branches on payload bytes (udp: opaque; icmp/raw: the header fields
        //     parsed at dispatch are functions of (size, destination), which the model
        //     entries carry; the free bytes only hold the per-history label), so two states
        //     that differ only in (stale or live) payload bytes are isomorphic under a
        //     renaming of labels. Ring geometry (read_at, length, metadata) is kept.
        let s = strip_between(&raw, "payload_ring: RingBuffer { storage: ", ", read_at");
        // (2) ipv4_id is only written into frames when fragmenting (Ipv4Repr::emit sets ident 0);
        //     no datagram here exceeds the MTU, so it is never observable.
        let s = strip_between(&s, "ipv4_id=", " ");
        // (2b) egress fragmenter (only used on the tight links, by datagrams one byte over the
        //     MTU): the fragment ident and the bytes of the packet in flight are only ever
        //     copied into later fragments, which this harness does not judge (C12 does), and
        //     never branched on; `Fragmenter::reset` leaves ident/offset stale, so an empty
        //     fragmenter (packet_len == 0) is one state.  len/sent/repr/hw of a packet in flight
        //     are kept.
        let s = if s.contains(" frag[len=0 ") {
            strip_between(&s, " frag[", " reasm[").replacen(" frag[", " frag[empty]", 1)
        } else {
            let s = strip_between(&s, " buf=", " reasm[");
            match (s.find(" frag[len="), s.find(") 6lo(")) {
                (Some(a), Some(b)) if a < b => {
                    // drop " id=N" in front of ") 6lo("
                    let head = &s[..b];
                    match head.rfind(" id=") {
                        Some(i) if i > a => format!("{}{}", &s[..i], &s[b..]),
                        _ => s,
                    }
                }
                _ => s,
            }
        };
        // (3) absolute instants -> relative to now; past ones collapse (only ever compared
        //     with the current time: neighbor cache `silent_until`/`expires_at`, socket meta
        //     `silent_until`); more than 3 s ahead collapse to "far": the only such values are
        //     neighbor entry lifetimes (60 s), which cannot elapse within any explored history
        //     (<= depth events of <= 4 s each, asserted in apply()).
        let s = rel_instants(&s, self.now);
        // (4) rings: only the ALLOCATED metadata records (in queue order) are kept; records
        //     outside the allocated window are dead: PacketBuffer::enqueue* overwrite a slot
        //     completely before it becomes visible and nothing reads outside the window.
        //     The read position of an EMPTY payload ring is dropped: both enqueue paths
        //     call `payload_ring.clear()` first when it is empty, and dequeue/peek of an
        //     empty payload ring only ever produce empty slices.  Positions of the metadata
        //     ring and of a non-empty payload ring are kept.
        let (s, padding) = canon_rings(&s);
        // (5) a socket whose neighbor wait has expired behaves exactly like an active one
        //     (socket_meta.rs: poll_at and egress_permitted test `timestamp >= silent_until`
        //     before anything else matters; neighbor_missing overwrites the state)
        (collapse_expired_wait(&s), padding)
    }
}

/// Replace every `metadata_ring: RingBuffer { storage: Owned([..]), read_at: R, length: L }` by
/// its allocated records and every (content-stripped) payload ring by (read_at, length).
/// Second result: true if an allocated record is a wrap-around padding record.
fn canon_rings(s: &str) -> (String, bool) {
    const MK: &str = "metadata_ring: RingBuffer { storage: Owned([";
    const PK: &str = "payload_ring: RingBuffer { storage: , read_at: ";
    let mut o = String::with_capacity(s.len());
    let mut rest = s;
    let mut padding = false;
    loop {
        let (im, ip) = (rest.find(MK), rest.find(PK));
        match (im, ip) {
            (Some(i), p) if p.map_or(true, |p| i < p) => {
                o.push_str(&rest[..i]);
                let Some((entries, r, l, tail)) = parse_meta_ring(&rest[i + MK.len()..]) else {
                    o.push_str(&rest[i..]);
                    break;
                };
                o.push_str(&format!("meta[at {} of {}:", r, entries.len()));
                for k in 0..l.min(entries.len()) {
                    let e = entries[(r + k) % entries.len()];
                    if e.contains("header: None") && !e.starts_with("0,") {
                        padding = true;
                    }
                    o.push_str(" {");
                    o.push_str(e);
                }
                o.push(']');
                rest = tail;
            }
            (_, Some(i)) => {
                o.push_str(&rest[..i]);
                let tail = &rest[i + PK.len()..];
                let (r, tail) = num(tail);
                let tail = tail.strip_prefix(", length: ").unwrap_or(tail);
                let (l, tail) = num(tail);
                if l == 0 {
                    o.push_str("pay[empty]");
                } else {
                    o.push_str(&format!("pay[at {} len {}]", r, l));
                }
                rest = tail;
            }
            _ => {
                o.push_str(rest);
                break;
            }
        }
    }
    (o, padding)
}

fn num(s: &str) -> (usize, &str) {
    let e = s.find(|c: char| !c.is_ascii_digit()).unwrap_or(s.len());
    (s[..e].parse().unwrap_or(usize::MAX), &s[e..])
}

/// `body` starts right behind `storage: Owned([` of a metadata ring: returns the records (text
/// behind `PacketMetadata { size: `), read_at, length and the text behind the ring.
fn parse_meta_ring(body: &str) -> Option<(Vec<&str>, usize, usize, &str)> {
    const EK: &str = "PacketMetadata { size: ";
    let end = body.find("]), read_at: ")?;
    let entries: Vec<&str> = body[..end].split(EK).skip(1).map(|e| e.trim_end_matches(", ")).collect();
    let tail = &body[end + "]), read_at: ".len()..];
    let (r, tail) = num(tail);
    let tail = tail.strip_prefix(", length: ").unwrap_or(tail);
    let (l, tail) = num(tail);
    Some((entries, r, l, tail))
}

fn collapse_expired_wait(s: &str) -> String {
    const K: &str = "neighbor_state: Waiting { neighbor: ";
    let mut o = String::with_capacity(s.len());
    let mut rest = s;
    while let Some(i) = rest.find(K) {
        o.push_str(&rest[..i]);
        let body = &rest[i..];
        let end = body.find('}').map(|e| e + 1).unwrap_or(body.len());
        if body[..end].ends_with("silent_until: T- }") {
            o.push_str("neighbor_state: Active");
        } else {
            o.push_str(&body[..end]);
        }
        rest = &body[end..];
    }
    o.push_str(rest);
    o
}

fn strip_between(s: &str, start: &str, end: &str) -> String {
    let mut o = String::with_capacity(s.len());
    let mut rest = s;
    while let Some(i) = rest.find(start) {
        o.push_str(&rest[..i + start.len()]);
        rest = &rest[i + start.len()..];
        match rest.find(end) {
            Some(j) => rest = &rest[j..],
            None => rest = "",
        }
    }
    o.push_str(rest);
    o
}

fn rel_instants(s: &str, now: i64) -> String {
    const KEY: &str = "Instant { micros: ";
    let mut o = String::with_capacity(s.len());
    let mut rest = s;
    while let Some(i) = rest.find(KEY) {
        o.push_str(&rest[..i]);
        rest = &rest[i + KEY.len()..];
        let end = rest.find(' ').unwrap_or(rest.len());
        let n: i64 = rest[..end].parse().unwrap_or(i64::MIN);
        rest = &rest[end..];
        if let Some(j) = rest.find('}') {
            rest = &rest[j + 1..];
        }
        let d = n.saturating_sub(now);
        if d <= 0 {
            o.push_str("T-");
        } else if d > 3_000_000 {
            o.push_str("T+far");
        } else {
            o.push_str(&format!("T+{}", d));
        }
    }
    o.push_str(rest);
    o
}

impl Harness for DgH {
    type Cfg = Cfg;
    type Ev = Ev;

    fn new(cfg: &Cfg) -> Self {
        let medium = if cfg.eth { Medium::Ethernet } else { Medium::Ip };
        let mut dev = BpDev { inner: SimDevice::new(medium, cfg.link_ip_mtu() + if cfg.eth { 14 } else { 0 }), refuse_next: 0 };
        dev.inner.checksum = cfg.ck.caps();
        let hw = if cfg.eth { HardwareAddress::Ethernet(EthernetAddress(MAC_US)) } else { HardwareAddress::Ip };
        let mut c = Config::new(hw);
        c.random_seed = 1;
        let mut iface = Interface::new(c, &mut dev, Instant::from_micros(0));
        let us = addr(cfg.v6, Who::Us);
        let us2 = addr(cfg.v6, Who::Us2);
        iface.update_ip_addrs(|a| {
            a.push(IpCidr::new(to_ip(&us), if cfg.v6 { 64 } else { 24 })).unwrap();
            a.push(IpCidr::new(to_ip(&us2), if cfg.v6 { 64 } else { 24 })).unwrap();
        });
        if cfg.eth && cfg.via_b {
            match to_ip(&addr(cfg.v6, Who::B)) {
                IpAddress::Ipv4(b) => {
                    iface.routes_mut().add_default_ipv4_route(b).unwrap();
                }
                IpAddress::Ipv6(b) => {
                    iface.routes_mut().add_default_ipv6_route(b).unwrap();
                }
            }
        }
        let (slots, bytes) = (cfg.slots, cfg.cap());
        let mut sockets = SocketSet::new(vec![]);
        let h = match cfg.kind {
            Kind::Udp => sockets.add(udp::Socket::new(mk_buf(udp::PacketMetadata::EMPTY, slots, bytes), mk_buf(udp::PacketMetadata::EMPTY, slots, bytes))),
            Kind::Icmp => sockets.add(icmp::Socket::new(mk_buf(icmp::PacketMetadata::EMPTY, slots, bytes), mk_buf(icmp::PacketMetadata::EMPTY, slots, bytes))),
            Kind::Raw => sockets.add(raw::Socket::new(
                Some(if cfg.v6 { IpVersion::Ipv6 } else { IpVersion::Ipv4 }),
                Some(IpProtocol::Unknown(RAW_PROTO)),
                mk_buf(raw::PacketMetadata::EMPTY, slots, bytes),
                mk_buf(raw::PacketMetadata::EMPTY, slots, bytes),
            )),
        };
        let mut hn = DgH {
            cfg: cfg.clone(),
            dev,
            iface,
            sockets,
            h,
            now: 0,
            tx_model: VecDeque::new(),
            rx_model: VecDeque::new(),
            tx_label: 0,
            rx_label: 0,
            pending_b: false,
            b_resolved: false,
            train: None,
            tainted: false,
            last_sent: None,
            last_recv: None,
            events: std::sync::Arc::new(Self::all_events(cfg)),
        };
        // the focused phases start with a bound socket (the complete alphabet of the mix phase
        // starts unbound and contains bind)
        if cfg.phase != Phase::Mix {
            match cfg.kind {
                Kind::Udp => hn.udp().bind(LOCAL_PORT).unwrap(),
                Kind::Icmp => hn.icmp().bind(icmp::Endpoint::Ident(ICMP_IDENT)).unwrap(),
                Kind::Raw => {}
            }
        }
        // neighbor A announces itself (ARP reply / neighbor advertisement aimed at us); the
        // interface sends its start-up traffic (MLD report for the solicited-node group)
        if cfg.eth {
            let f = hn.neigh_reply_frame(Who::A);
            hn.dev.inner.rx.push_back(f);
        }
        for _ in 0..3 {
            let t = hn.ts();
            hn.iface.poll(t, &mut hn.dev, &mut hn.sockets);
        }
        hn.dev.inner.take_tx();
        hn
    }

    fn enabled(&self) -> Vec<(Ev, u32)> {
        if self.tainted {
            return vec![];
        }
        self.events
            .iter()
            .filter(|e| match e {
                Ev::NeighReply => self.pending_b,
                // a second refusal order while one is still pending would only overwrite it
                Ev::Refuse(_) => self.dev.refuse_next == 0,
                _ => true,
            })
            .map(|e| (e.clone(), 0))
            .collect()
    }

    fn apply(&mut self, ev: &Ev, out: &mut Vec<Viol>) {
        vlog!("  t={}us {:?}", self.now, ev);
        match ev {
            Ev::Send { size, dst, api, malformed, local } => self.do_send(*size, *dst, api, *malformed, *local, out),
            Ev::RecvBig => self.do_recv(true, out),
            Ev::RecvSmall => self.do_recv(false, out),
            Ev::Peek => self.do_peek(false, out),
            Ev::PeekSmall => self.do_peek(true, out),
            Ev::BindPort => self.do_bind(false, out),
            Ev::BindAddr => self.do_bind(true, out),
            Ev::Close => {
                // documented: "Reset the RX and TX buffers of the socket": queued datagrams
                // are discarded on the application's request
                self.udp().close();
                stat(O::Close);
                self.tx_model.clear();
                self.rx_model.clear();
            }
            Ev::Poll => {
                self.poll(out);
            }
            Ev::PollEgress => {
                let t = self.ts();
                self.iface.poll_egress(t, &mut self.dev, &mut self.sockets);
                self.collect(out);
            }
            Ev::Inbound { size, from, to, matching, ghost } => self.do_inbound(*size, *from, *to, *matching, *ghost, out),
            Ev::NeighReply => self.do_neigh_reply(out),
            Ev::Refuse(n) => self.dev.refuse_next = *n,
            Ev::Tick => self.now += 1_000_000,
            Ev::Drain => self.do_drain(out),
        }
        self.check_accessors(out);
        if VERBOSE.load(Ordering::Relaxed) && std::env::var("DGRAM_IMAGE").is_ok() {
            println!("      image: {}", self.normalized_image().0);
        }
        if self.now > 55_000_000 {
            // the fingerprint abstraction of neighbor lifetimes would no longer be sound
            out.push(Viol::new("MACHINERY/time-horizon-exceeded", format!("now = {} us", self.now)));
            self.tainted = true;
        }
    }

    fn fingerprint(&self) -> u128 {
        let (img, padding) = self.normalized_image();
        if padding {
            stat(O::PaddingState);
        }
        let tx: Vec<(usize, Who, bool, Option<Who>, bool)> = self.tx_model.iter().map(|e| (e.bytes.len(), e.dst, e.malformed, e.local, e.bound_addr)).collect();
        let rx: Vec<(usize, Who, To)> = self.rx_model.iter().map(|e| (e.bytes.len(), e.from, e.to)).collect();
        fp128(&(img, tx, rx, self.dev.refuse_next, self.dev.inner.rx.len(), self.pending_b, self.b_resolved, self.tainted, self.train.as_ref().map(|t| (t.next, t.expected.len()))))
    }

    fn outcome(&self) -> String {
        format!("tx{} rx{}{}", self.tx_model.len(), self.rx_model.len(), if self.tainted { " tainted" } else { "" })
    }
}

// ---------------------------------------------------------------------------------------
// driver
// ---------------------------------------------------------------------------------------

/// "Unbounded": the BFS of these configurations reaches its fixpoint (empty frontier) well
/// before this depth, i.e. ALL reachable states are explored (reported per configuration as
/// `fixpoint: true`; the state spaces are finite because time is relative, labels are renamed
/// and the model queues are bounded by the buffer capacities).
const FIX: usize = 120;

/// Depth bound per configuration. The sizes of the state spaces were measured (they are
/// deterministic); where the fixpoint is out of reach the bound is the deepest complete level
/// that keeps the whole tier inside its time budget.
fn depth_for(tier: Tier, c: &Cfg) -> usize {
    if let Ok(d) = std::env::var("DGRAM_DEPTH") {
        // developer override "mix,tx,rx" (recorded in the evidence when used)
        let p: Vec<usize> = d.split(',').filter_map(|x| x.parse().ok()).collect();
        if p.len() == 3 {
            return p[c.phase as usize];
        }
    }
    if c.ip_mtu != 0 {
        // tight links: larger buffers (room for two MTU-sized datagrams) => larger spaces;
        // the MTU boundary itself needs 2 events (send, poll)
        return match (tier, c.slots) {
            (Tier::Quick, _) => 5,
            (Tier::Thorough, 1) => 20,
            (Tier::Thorough, 2) => 8,
            (Tier::Thorough, _) => 6,
        };
    }
    let udp = (c.kind == Kind::Udp) as usize;
    match (tier, c.phase) {
        (_, Phase::Rx) => FIX,
        (Tier::Quick, Phase::Mix) => {
            if c.slots == 1 {
                FIX
            } else {
                4
            }
        }
        (Tier::Quick, Phase::Tx) => match (c.slots, c.eth) {
            (1, _) => FIX,
            // udp on Ethernet: fixpoint only at depth 17 with ~430k transitions per configuration
            (2, true) if udp == 1 => 9,
            (2, _) => FIX,
            // the udp alphabet is larger (local_address sends)
            (_, true) => 6 - udp,
            (_, false) => 7,
        },
        (Tier::Thorough, Phase::Mix) => match (c.slots, c.k) {
            (1, _) => FIX,
            (2, 6) => 6,
            _ => 5,
        },
        (Tier::Thorough, Phase::Tx) => match (c.slots, c.eth, c.k) {
            (1, _, _) | (2, _, _) => FIX,
            (_, false, _) => FIX,
            (_, true, 4) => FIX,
            (_, true, 6) => 10 - udp,
            (_, true, _) => 9 - udp,
        },
    }
}

fn configs(tier: Tier) -> Vec<(Cfg, usize)> {
    let mut v = vec![];
    let all_rings: Vec<(usize, usize)> = [1, 2, 3].iter().flat_map(|&s| [4, 6, 8].iter().map(move |&k| (s, k))).collect();
    for phase in [Phase::Mix, Phase::Tx, Phase::Rx] {
        for kind in [Kind::Udp, Kind::Icmp, Kind::Raw] {
            for v6 in [false, true] {
                for (eth, via_b) in [(true, false), (true, true), (false, false)] {
                    // the rx path does not depend on the route configuration
                    if phase == Phase::Rx && via_b {
                        continue;
                    }
                    for &(slots, k) in &all_rings {
                        // quick: the diagonal of the ring dimension (every slot count and every
                        // payload size occurs with every kind / medium / route / IP version);
                        // thorough: the complete product
                        if tier == Tier::Quick && ![(1, 4), (2, 6), (3, 8)].contains(&(slots, k)) {
                            continue;
                        }
                        let c = Cfg { phase, kind, eth, v6, slots, k, via_b, ip_mtu: 0, ck: Ck::Default };
                        let d = depth_for(tier, &c);
                        v.push((c, d));
                    }
                }
            }
        }
    }
    // tight links (IPv4, tx alphabet): sizes {hdr, M-1, M, M+1} around the datagram that exactly
    // fills the IP MTU; 36 = 4 mod 8 (fragment payload 16, a multiple of 8), 34 = another residue
    for kind in [Kind::Udp, Kind::Icmp, Kind::Raw] {
        for ip_mtu in [36usize, 34] {
            for (eth, via_b) in [(true, false), (true, true), (false, false)] {
                for slots in [1usize, 2, 3] {
                    if tier == Tier::Quick && slots != 2 {
                        continue;
                    }
                    let mut c = Cfg { phase: Phase::Tx, kind, eth, v6: false, slots, k: 0, via_b, ip_mtu, ck: Ck::Default };
                    // room for the largest datagram (M+17) plus one of about the critical size
                    c.k = 2 * (c.fills_mtu() - c.hdr()) + 18;
                    let d = depth_for(tier, &c);
                    v.push((c, d));
                }
            }
        }
    }
    // fragmentation-buffer edge (IPv4, tx alphabet, IP MTU 1000): datagrams whose IP packet is
    // 1486 / 1487 / 1500 octets, i.e. within one link header of the 1500-octet egress buffer
    for kind in [Kind::Udp, Kind::Icmp, Kind::Raw] {
        for eth in [true, false] {
            if tier == Tier::Quick && kind != Kind::Udp {
                continue;
            }
            let mut c = Cfg { phase: Phase::Tx, kind, eth, v6: false, slots: 2, k: 0, via_b: false, ip_mtu: 1000, ck: Ck::Default };
            c.k = 3100;
            let d = if tier == Tier::Quick { 4 } else { 6 };
            v.push((c, d));
        }
    }
    // small payload rings with 4 metadata slots (16 and 24 octets + 2*hdr), sizes {2,6,8}+hdr:
    // exact fit / one short / one over at the head of the ring after the tail was padded;
    // rx and tx alphabets
    for phase in [Phase::Rx, Phase::Tx] {
        for kind in [Kind::Udp, Kind::Icmp, Kind::Raw] {
            for k in [16usize, 24] {
                for (eth, v6) in [(true, false), (false, true)] {
                    let c = Cfg { phase, kind, eth, v6, slots: 4, k, via_b: false, ip_mtu: 0, ck: Ck::Default };
                    let d = match (tier, phase) {
                        (Tier::Quick, Phase::Rx) => 7,
                        (Tier::Quick, _) => 4,
                        (Tier::Thorough, Phase::Rx) => 10,
                        (Tier::Thorough, _) => 7,
                    };
                    v.push((c, d));
                }
            }
        }
    }
    // device checksum capabilities other than the default (tx alphabet): ipv4 = Rx / None for
    // IPv4, all = Rx for both IP versions; Ethernet (no route for C) and Medium::Ip
    for kind in [Kind::Udp, Kind::Icmp, Kind::Raw] {
        for (ck, v6) in [(Ck::Ipv4Rx, false), (Ck::Ipv4None, false), (Ck::AllRx, false), (Ck::AllRx, true)] {
            for eth in [true, false] {
                let rings: &[(usize, usize)] = if tier == Tier::Quick { &[(1, 4), (2, 4)] } else { &[(1, 4), (2, 6), (3, 8)] };
                for &(slots, k) in rings {
                    let c = Cfg { phase: Phase::Tx, kind, eth, v6, slots, k, via_b: false, ip_mtu: 0, ck };
                    let d = if tier == Tier::Quick && slots == 2 { 5 } else if slots == 3 { 6 } else { depth_for(tier, &c) };
                    v.push((c, d));
                }
            }
        }
    }
    v
}

// ---------------------------------------------------------------------------------------
// "largest datagram" family (scripted single runs)
// ---------------------------------------------------------------------------------------

/// Device MTU 70000 (+14 on Ethernet), buffers that hold the largest datagram plus a normal one.
/// `above == false`: the largest datagram the IP length fields can express (IPv4 total length
/// 65535; IPv6 payload length 65535) must be transmitted exactly once, unmodified, with
/// consistent length fields.  `above == true`: one octet more (not expressible for raw
/// sockets, whose packets carry their own length field): send may refuse it, or it is dropped;
/// it must never reach the wire in any form, poll must not panic, and a normal datagram
/// queued behind it must still be transmitted.
fn largest_scenarios() -> Vec<(Cfg, bool)> {
    let mut v = vec![];
    for kind in [Kind::Udp, Kind::Icmp, Kind::Raw] {
        for v6 in [false, true] {
            for eth in [false, true] {
                for above in [false, true] {
                    if above && kind == Kind::Raw {
                        continue;
                    }
                    v.push((Cfg { phase: Phase::Tx, kind, eth, v6, slots: 4, k: 70_100, via_b: false, ip_mtu: 70_000, ck: Ck::Default }, above));
                }
            }
        }
    }
    v
}

/// application size of the largest datagram the IP length fields can express
fn largest_size(cfg: &Cfg) -> usize {
    match (cfg.kind, cfg.v6) {
        (Kind::Udp, false) => 65_535 - 20 - 8,
        (Kind::Icmp, false) => 65_535 - 20,
        (Kind::Raw, false) => 65_535,
        (Kind::Udp, true) => 65_535 - 8,
        (Kind::Icmp, true) => 65_535,
        (Kind::Raw, true) => 40 + 65_535,
    }
}

fn largest_run(cfg: &Cfg, above: bool) -> (Vec<Viol>, serde_json::Value) {
    use std::cell::RefCell;
    use std::panic::{catch_unwind, AssertUnwindSafe};
    let size = largest_size(cfg) + above as usize;
    let step = RefCell::new(String::from("set-up"));
    let raw: RefCell<Vec<Viol>> = RefCell::new(vec![]);
    let info = RefCell::new(serde_json::Map::new());
    let r = catch_unwind(AssertUnwindSafe(|| {
        let mut h = DgH::new(cfg);
        let mut out = vec![];
        *step.borrow_mut() = format!("send of the {}-octet datagram", size);
        h.apply(&Ev::Send { size, dst: Who::A, api: Api::SendSlice, malformed: false, local: None }, &mut out);
        let accepted = h.tx_model.len() == 1;
        info.borrow_mut().insert("big_datagram_accepted_by_send".into(), json!(accepted));
        if above && accepted {
            // it cannot be transmitted as it is: treated like a datagram that can never be
            // delivered (may be dropped; nothing on the wire may claim to be it)
            h.tx_model.back_mut().unwrap().malformed = true;
        }
        *step.borrow_mut() = "send of the normal datagram queued behind it".into();
        h.apply(&Ev::Send { size: cfg.hdr() + 3, dst: Who::A, api: Api::SendSlice, malformed: false, local: None }, &mut out);
        raw.borrow_mut().append(&mut out);
        for i in 0..3 {
            *step.borrow_mut() = format!("Interface::poll #{}", i + 1);
            h.apply(&Ev::Poll, &mut out);
            raw.borrow_mut().append(&mut out);
        }
        *step.borrow_mut() = "drain (poll to quiescence)".into();
        h.apply(&Ev::Drain, &mut out);
        raw.borrow_mut().append(&mut out);
        info.borrow_mut().insert("datagrams_still_pending".into(), json!(h.tx_model.len()));
    }));
    let kind = cfg.kind.name();
    let mut viols = vec![];
    if let Err(e) = r {
        let d = format!(
            "[{:?}] panic during {}: {} at {} ({} datagram of {} octets: {})",
            cfg,
            step.borrow(),
            panic_msg(e),
            last_panic_loc(),
            kind,
            size,
            if above { "one octet more than the IP length field can express" } else { "the largest the IP length field can express" }
        );
        vlog!("      !! {}", d);
        viols.push(Viol::new(format!("C09/{}/tx-largest/panic/{}", kind, panic_site()), d));
    }
    for v in raw.into_inner() {
        let parts: Vec<&str> = v.sig.splitn(4, '/').collect();
        let sig = if parts.len() < 4 || parts[0] != "C09" {
            v.sig.clone()
        } else if above && parts[2] == "tx-liveness" && parts[3].starts_with("blocked-behind") {
            format!("C09/{}/tx-largest/blocked-behind-impossible-datagram", kind)
        } else if above && parts[2].starts_with("tx-") && parts[2] != "tx-liveness" {
            format!("C09/{}/tx-largest/impossible-datagram-on-the-wire", kind)
        } else {
            format!("C09/{}/tx-largest/{}-{}", kind, parts[2], parts[3])
        };
        viols.push(Viol::new(sig, format!("{} [{}; datagram of {} octets]", v.detail, v.sig, size)));
    }
    let mut m = info.into_inner();
    m.insert("config".into(), json!(format!("{:?}", cfg)));
    m.insert("scenario".into(), json!(if above { "one octet above the largest expressible datagram" } else { "largest expressible datagram" }));
    m.insert("datagram_octets".into(), json!(size));
    m.insert("violations".into(), json!(viols.iter().map(|v| v.sig.clone()).collect::<Vec<_>>()));
    (viols, serde_json::Value::Object(m))
}

// ---------------------------------------------------------------------------------------
// two-socket family (scripted single runs): one egress fragmentation buffer, two sockets
// ---------------------------------------------------------------------------------------

/// (kind of the first socket, Ethernet?, size class of its datagram, size class of the udp
/// socket's datagram, device hands out one frame per poll?)  Size classes on the IP MTU 36
/// link: 0 = exactly fills the MTU, 1 = two fragments, 2 = three fragments.
fn pair_scenarios() -> Vec<(Kind, bool, usize, usize, bool)> {
    let mut v = vec![];
    for k1 in [Kind::Udp, Kind::Icmp, Kind::Raw] {
        for eth in [true, false] {
            for c1 in 0..3 {
                for c2 in 0..3 {
                    for one in [false, true] {
                        v.push((k1, eth, c1, c2, one));
                    }
                }
            }
        }
    }
    v
}

fn eq_masked(a: &[u8], b: &[u8], mask: Option<(usize, usize)>) -> bool {
    a.len() == b.len() && (0..a.len()).all(|i| a[i] == b[i] || mask.map_or(false, |(x, y)| i >= x && i < y))
}

/// Two sockets (`k1` + udp) on one IPv4 interface, IP MTU 36, both queue one datagram before the
/// same poll (destination: the resolved neighbor A).  Every datagram a socket has dequeued must
/// be on the wire exactly once, whole (reassembled from the fragments actually emitted), in
/// any order between the two sockets.
fn pair_run(k1: Kind, eth: bool, c1: usize, c2: usize, one_per_poll: bool) -> (Vec<Viol>, serde_json::Value) {
    use std::cell::RefCell;
    use std::collections::BTreeMap;
    use std::panic::{catch_unwind, AssertUnwindSafe};
    let ip_mtu = 36usize;
    let name = format!("{}+udp", k1.name());
    let desc = format!(
        "kinds={} medium={} ip=v4 ip_mtu={} datagrams=({},{}) device={}",
        name,
        if eth { "eth" } else { "ip" },
        ip_mtu,
        ["fits", "2-fragments", "3-fragments"][c1],
        ["fits", "2-fragments", "3-fragments"][c2],
        if one_per_poll { "one-frame-per-poll" } else { "unlimited" }
    );
    let viols: RefCell<Vec<Viol>> = RefCell::new(vec![]);
    let v = |cause: &str, d: String| {
        vlog!("      !! C09/{}/tx-pair/{} :: {}", name, cause, d);
        viols.borrow_mut().push(Viol::new(format!("C09/{}/tx-pair/{}", name, cause), format!("[{}] {}", desc, d)));
    };
    let counts = RefCell::new([0usize; 2]);
    let frames_seen = RefCell::new(0usize);
    let r = catch_unwind(AssertUnwindSafe(|| {
        let cfgs = [
            Cfg { phase: Phase::Tx, kind: k1, eth, v6: false, slots: 4, k: 200, via_b: false, ip_mtu, ck: Ck::Default },
            Cfg { phase: Phase::Tx, kind: Kind::Udp, eth, v6: false, slots: 4, k: 200, via_b: false, ip_mtu, ck: Ck::Default },
        ];
        let medium = if eth { Medium::Ethernet } else { Medium::Ip };
        let mut dev = BpDev { inner: SimDevice::new(medium, ip_mtu + if eth { 14 } else { 0 }), refuse_next: 0 };
        let hw = if eth { HardwareAddress::Ethernet(EthernetAddress(MAC_US)) } else { HardwareAddress::Ip };
        let mut c = Config::new(hw);
        c.random_seed = 1;
        let mut iface = Interface::new(c, &mut dev, Instant::from_micros(0));
        let (us, a) = (addr(false, Who::Us), addr(false, Who::A));
        iface.update_ip_addrs(|x| x.push(IpCidr::new(to_ip(&us), 24)).unwrap());
        let mut sockets = SocketSet::new(vec![]);
        let cap = cfgs[0].cap();
        let h1 = match k1 {
            Kind::Udp => {
                let mut s = udp::Socket::new(mk_buf(udp::PacketMetadata::EMPTY, 4, cap), mk_buf(udp::PacketMetadata::EMPTY, 4, cap));
                s.bind(LOCAL_PORT).unwrap();
                sockets.add(s)
            }
            Kind::Icmp => {
                let mut s = icmp::Socket::new(mk_buf(icmp::PacketMetadata::EMPTY, 4, cap), mk_buf(icmp::PacketMetadata::EMPTY, 4, cap));
                s.bind(icmp::Endpoint::Ident(ICMP_IDENT)).unwrap();
                sockets.add(s)
            }
            Kind::Raw => sockets.add(raw::Socket::new(
                Some(IpVersion::Ipv4),
                Some(IpProtocol::Unknown(RAW_PROTO)),
                mk_buf(raw::PacketMetadata::EMPTY, 4, cap),
                mk_buf(raw::PacketMetadata::EMPTY, 4, cap),
            )),
        };
        let h2 = {
            let mut s = udp::Socket::new(mk_buf(udp::PacketMetadata::EMPTY, 4, 200), mk_buf(udp::PacketMetadata::EMPTY, 4, 200));
            s.bind(LOCAL_PORT + 1).unwrap();
            sockets.add(s)
        };
        if eth {
            let (Addr::V4(spa), Addr::V4(tpa)) = (a.clone(), us.clone()) else { unreachable!() };
            dev.inner.rx.push_back(fr::eth(&MAC_US, &MAC_A, fr::ETH_ARP, &fr::arp(2, &MAC_A, &spa, &MAC_US, &tpa)));
        }
        for _ in 0..3 {
            iface.poll(Instant::from_micros(0), &mut dev, &mut sockets);
        }
        dev.inner.take_tx();
        // one datagram per socket, queued before the same poll
        let sizes = [[0usize, 1, 17][c1] + cfgs[0].fills_mtu(), [0usize, 1, 17][c2] + cfgs[1].fills_mtu()];
        let bytes = [app_bytes(&cfgs[0], &us, &a, sizes[0], 1), app_bytes(&cfgs[1], &us, &a, sizes[1], 2)];
        let ok1 = match k1 {
            Kind::Udp => sockets.get_mut::<udp::Socket>(h1).send_slice(&bytes[0], IpEndpoint::new(to_ip(&a), REMOTE_PORT)).is_ok(),
            Kind::Icmp => sockets.get_mut::<icmp::Socket>(h1).send_slice(&bytes[0], to_ip(&a)).is_ok(),
            Kind::Raw => sockets.get_mut::<raw::Socket>(h1).send_slice(&bytes[0]).is_ok(),
        };
        let ok2 = sockets.get_mut::<udp::Socket>(h2).send_slice(&bytes[1], IpEndpoint::new(to_ip(&a), REMOTE_PORT + 1)).is_ok();
        vlog!("  send on socket 1 ({} octets) -> {}, on socket 2 ({} octets) -> {}", sizes[0], ok1, sizes[1], ok2);
        if !ok1 || !ok2 {
            v("send-refused", format!("send refused a datagram into an empty buffer ({} / {})", ok1, ok2));
            return;
        }
        let expected = [
            expected_ip_payload(&cfgs[0], &bytes[0], LOCAL_PORT, REMOTE_PORT),
            expected_ip_payload(&cfgs[1], &bytes[1], LOCAL_PORT + 1, REMOTE_PORT + 1),
        ];
        let protos = [[fr::PROTO_UDP, fr::PROTO_ICMP, RAW_PROTO][k1 as usize], fr::PROTO_UDP];
        let mut trains: BTreeMap<u16, (usize, Train)> = BTreeMap::new();
        let queue = |sockets: &SocketSet<'static>, i: usize| -> usize {
            if i == 1 {
                return sockets.get::<udp::Socket>(h2).send_queue();
            }
            match k1 {
                Kind::Udp => sockets.get::<udp::Socket>(h1).send_queue(),
                Kind::Icmp => sockets.get::<icmp::Socket>(h1).send_queue(),
                Kind::Raw => sockets.get::<raw::Socket>(h1).send_queue(),
            }
        };
        for round in 0..40 {
            if one_per_poll {
                dev.inner.tx_budget = Some(1);
            }
            iface.poll(Instant::from_micros(0), &mut dev, &mut sockets);
            let frames = dev.inner.take_tx();
            vlog!("  poll #{}: {} frame(s)", round + 1, frames.len());
            for (_, f) in frames {
                let p = fr::parse_frame(eth, &f);
                let (info, packet) = match &p.l3 {
                    fr::L3::Arp { .. } => continue,
                    fr::L3::Bad(e) => {
                        v("unparsable-frame", format!("frame {} cannot be parsed: {}", hx(&f), e));
                        continue;
                    }
                    fr::L3::Ip { info, packet } => (info.clone(), packet.clone()),
                };
                if info.version != 4 || !protos.contains(&info.proto) {
                    continue;
                }
                *frames_seen.borrow_mut() += 1;
                let payload = &packet[info.payload_off..];
                vlog!("      tx: proto {} ident {:#06x} offset {} MF={} len {} {}", info.proto, info.ident, info.frag_offset, info.more_frags as u8, payload.len(), hx(payload));
                if !info.header_checksum_ok {
                    v("ipv4-header-checksum", format!("packet ident {:#06x} offset {} left with a wrong IPv4 header checksum", info.ident, info.frag_offset));
                    continue;
                }
                if !info.more_frags && info.frag_offset == 0 {
                    match (0..2).find(|&i| protos[i] == info.proto && eq_masked(payload, &expected[i].0, expected[i].1)) {
                        Some(i) => counts.borrow_mut()[i] += 1,
                        None => v("unexpected-datagram", format!("whole datagram {} on the wire is neither of the two datagrams sent", hx(payload))),
                    }
                    continue;
                }
                if info.frag_offset == 0 {
                    // first fragment: whose datagram is it?
                    let who = (0..2).find(|&i| {
                        protos[i] == info.proto
                            && payload.len() <= expected[i].0.len()
                            && eq_masked(payload, &expected[i].0[..payload.len()], expected[i].1)
                            && !trains.values().any(|(j, _)| *j == i)
                            && counts.borrow()[i] == 0
                    });
                    match who {
                        None => v("unexpected-datagram", format!("first fragment {} belongs to neither datagram (or to one already transmitted)", hx(payload))),
                        Some(i) => {
                            let mut t = Train { ident: info.ident, label: i as u8 + 1, expected: expected[i].0.clone(), mask: expected[i].1, next: 0 };
                            match t.feed(&info, payload) {
                                Ok(_) => {
                                    trains.insert(info.ident, (i, t));
                                }
                                Err((cause, d)) => v(cause, d),
                            }
                        }
                    }
                    continue;
                }
                match trains.remove(&info.ident) {
                    None => v("stray-fragment", format!("fragment ident {:#06x} offset {} belongs to no train in flight", info.ident, info.frag_offset)),
                    Some((i, mut t)) => match t.feed(&info, payload) {
                        Ok(true) => counts.borrow_mut()[i] += 1,
                        Ok(false) => {
                            trains.insert(info.ident, (i, t));
                        }
                        Err((cause, d)) => v(cause, d),
                    },
                }
            }
            if (0..2).all(|i| queue(&sockets, i) == 0) && trains.is_empty() && iface.poll_at(Instant::from_micros(0), &sockets).is_none() {
                break;
            }
        }
        for i in 0..2 {
            let n = counts.borrow()[i];
            let what = format!("datagram of socket {} ({} octets, {})", i + 1, sizes[i], ["fits", "2 fragments", "3 fragments"][[c1, c2][i]]);
            if queue(&sockets, i) != 0 {
                v("never-dequeued", format!("{} is still queued after 40 polls", what));
            } else if n == 0 {
                let d = format!("{} was dequeued by its socket but never appeared on the wire completely", what);
                v(if trains.values().any(|(j, _)| *j == i) { "fragment-train-incomplete" } else { "dequeued-datagram-never-transmitted" }, d);
            } else if n > 1 {
                v("duplicate-transmission", format!("{} appeared {} times", what, n));
            }
        }
    }));
    if let Err(e) = r {
        let d = format!("panic: {} at {}", panic_msg(e), last_panic_loc());
        viols.borrow_mut().push(Viol::new(format!("C09/{}/tx-pair/panic/{}", name, panic_site()), format!("[{}] {}", desc, d)));
    }
    let viols = viols.into_inner();
    let summary = json!({"scenario": desc, "frames_of_the_sockets": *frames_seen.borrow(), "complete_datagrams_seen": *counts.borrow(), "violations": viols.iter().map(|x| x.sig.clone()).collect::<Vec<_>>()});
    (viols, summary)
}

pub fn run(tier: Tier) -> i32 {
    let mut rep = Report::new("C09", tier);
    rep.assumptions.push("reference model = two FIFO queues of (metadata, bytes); trusted".into());
    rep.assumptions.push("frame parser/builder (dgram/frames.rs + wirecheck) written from the RFCs, independent of smoltcp::wire; trusted".into());
    rep.assumptions.push("state merging: fingerprint = Interface::verif_digest + SocketSet debug image with (1) payload ring bytes replaced by the model queues (label renaming), (2) ipv4_id stripped (never on the wire without fragmentation), (3) instants made relative to now (past -> '-', > 3 s ahead -> 'far': only neighbor lifetimes of 60 s, histories last < 55 s, checked at run time), (4) only the allocated records of the metadata rings kept, read position of an EMPTY payload ring dropped (enqueue clears an empty ring first), (5) an expired neighbor wait of the socket == Active; plus model queues, back-pressure counter, pending neighbor request. The arguments are written next to `normalized_image`".into());
    rep.assumptions.push("buffer acceptance is judged by the documented PacketBuffer placement rule (metadata slot free; payload contiguous at the tail of the payload ring, or at its head after padding the tail, the padding taking a slot of its own; an empty ring is reset first) applied to the geometry (slots, records in use, read position, length) read from the socket's public Debug image right after a refusal (a refused enqueue leaves the geometry unchanged); only 'refused although the rule places it' is a violation".into());
    rep.assumptions.push("the IPv4 header checksum of every emitted packet of the socket's protocol (all fragments included) is verified with wirecheck (RFC 1071) where DeviceCapabilities::checksum.ipv4 is Both or Tx".into());
    rep.assumptions.push("model bookkeeping uses public api only: send*/recv*/peek* results, send_queue()/recv_queue()/can_recv(), packet capacities; the single exception is whether a ZERO-length udp datagram was queued (recv_queue() cannot tell), which is read from the socket's public Debug image".into());
    rep.assumptions.push("lenient readings: icmp sockets: checksum field of sent/received ICMP messages masked (the socket re-serialises the message); raw sockets: IP header compared by version/src/dst/protocol/hop limit, payload byte-exact (header documented as re-serialised); 3-byte garbage handed to an icmp/raw socket and datagrams to a destination without route may be dropped or stay queued, but must never appear on the wire differently; a zero-length udp datagram carries no label (order among identical zero-length datagrams is not observable)".into());
    rep.assumptions.push("close() discards queued datagrams (documented); on the ordinary links datagram sizes stay far below the MTU; on the tight IPv4 links a datagram that fits the IP MTU must leave as ONE unfragmented packet; a datagram over the MTU is matched by its first fragment (order, at most once, addressing) and reassembled by the oracle from (offset field x 8, length) of the emitted fragments, in emission order (smoltcp emits a train in order): overlap / gap / unaligned middle fragment / wrong octets / short tail / abandoned or incomplete train are violations; the udp checksum inside the reassembled payload is not compared; fingerprint: ident and buffered bytes of the egress fragmenter stripped (only copied into later fragments), an empty fragmenter is one state, progress of the reassembly included".into());
    let lim = Limits { max_states: std::env::var("DGRAM_MAXSTATES").ok().and_then(|x| x.parse().ok()).unwrap_or(50_000_000), max_wall_s: 36000.0 };
    let mut cfgs = configs(tier);
    if let Ok(f) = std::env::var("DGRAM_ONLY") {
        cfgs.retain(|(c, _)| f.split('+').all(|t| format!("{:?} ", c).contains(&format!("{} ", t))));
    }
    let mut per_cfg = vec![];
    let n_cfg = cfgs.len();
    let mut n_fix = 0u64;
    // configurations are independent: explore them in parallel (the BFS engine itself is
    // parallel per level; results are merged in configuration order, so the output is
    // deterministic)
    use rayon::prelude::*;
    let results: Vec<(Result<Stats, String>, Vec<Found>, Vec<serde_json::Value>)> = cfgs
        .par_iter()
        .map(|(cfg, depth)| {
            let mut found = vec![];
            let mut samples = vec![];
            let r = bfs::<DgH>("dgram", cfg, *depth, &lim, &mut found, &mut samples);
            (r, found, samples)
        })
        .collect();
    let mut deepest_sample: std::collections::BTreeMap<(Phase, Kind), (u64, serde_json::Value)> = Default::default();
    for ((cfg, depth), (r, found, samples)) in cfgs.iter().zip(results) {
        let name = format!("{:?}", cfg);
        for f in found {
            if !rep.found.iter().any(|g| g.viol.sig == f.viol.sig) {
                rep.found.push(f);
            }
        }
        match r {
            Ok(st) => {
                let fixpoint = st.per_level.last() == Some(&0);
                n_fix += fixpoint as u64;
                per_cfg.push(json!({"config": name, "depth_bound": if *depth == FIX { json!("unbounded (<= 120)") } else { json!(depth) }, "fixpoint": fixpoint, "deepest_level": st.per_level.len() - 1 - fixpoint as usize,
                    "events": DgH::all_events(cfg).len(), "states": st.states, "transitions": st.transitions, "per_level": st.per_level, "cap": st.cap_note}));
                if *depth == FIX && !fixpoint {
                    rep.machinery_errors.push(format!("{}: expected to reach the BFS fixpoint within {} levels", name, FIX));
                }
                rep.absorb(&format!("{} d<={}", name, depth), &st);
                // keep the longest of the deepest histories per (phase, kind)
                if let Some(smp) = samples.into_iter().next() {
                    let len = smp["deepest_history"].as_array().map_or(0, |a| a.len()) as u64;
                    let e = deepest_sample.entry((cfg.phase, cfg.kind)).or_insert((0, serde_json::Value::Null));
                    if len > e.0 {
                        *e = (len, smp);
                    }
                }
            }
            Err(e) => rep.machinery_errors.push(format!("{}: {}", name, e)),
        }
    }
    for (_, (_, smp)) in deepest_sample {
        rep.samples.push(smp);
    }
    // "largest datagram" family: scripted single runs, not BFS
    let mut largest = vec![];
    for (cfg, above) in largest_scenarios() {
        let (viols, summary) = largest_run(&cfg, above);
        rep.add_count("evaluations", 1);
        for v in viols {
            if !rep.found.iter().any(|g| g.viol.sig == v.sig) {
                rep.found.push(Found { viol: v, replay: json!({"harness": "dgram-largest", "config": format!("{:?}", cfg), "above": above}) });
            }
        }
        largest.push(summary);
    }
    rep.cov("largest_datagram_family", json!(largest));
    // two-socket family
    let mut pairs = vec![];
    let (mut pair_frames, mut pair_datagrams) = (0u64, 0u64);
    for (k1, eth, c1, c2, one) in pair_scenarios() {
        let (viols, summary) = pair_run(k1, eth, c1, c2, one);
        rep.add_count("evaluations", 1);
        pair_frames += summary["frames_of_the_sockets"].as_u64().unwrap_or(0);
        pair_datagrams += summary["complete_datagrams_seen"].as_array().map_or(0, |a| a.iter().map(|x| x.as_u64().unwrap_or(0)).sum());
        for v in viols {
            if !rep.found.iter().any(|g| g.viol.sig == v.sig) {
                rep.found.push(Found { viol: v, replay: json!({"harness": "dgram-pair", "kind": k1.name(), "eth": eth, "c1": c1, "c2": c2, "one_per_poll": one}) });
            }
        }
        if pairs.len() < 6 || !summary["violations"].as_array().map_or(true, |a| a.is_empty()) {
            pairs.push(summary);
        }
    }
    rep.cov("two_socket_family", json!({"runs": pair_scenarios().len(), "frames_judged": pair_frames, "datagrams_reassembled": pair_datagrams, "first_runs_and_failing_runs": pairs}));
    // MACHINERY pseudo-violations are machinery errors, not findings
    let (mach, real): (Vec<Found>, Vec<Found>) = std::mem::take(&mut rep.found).into_iter().partition(|f| f.viol.sig.starts_with("MACHINERY/"));
    rep.found = real;
    for m in mach {
        rep.machinery_errors.push(format!("{}: {}", m.viol.sig, m.viol.detail));
    }
    flush_stats();
    let mut outcomes = serde_json::Map::new();
    let mut distinct = 0;
    for (i, name) in O_NAMES.iter().enumerate() {
        let n = OUT[i].load(Ordering::Relaxed);
        if n > 0 {
            distinct += 1;
        }
        outcomes.insert(name.to_string(), json!(n));
    }
    rep.cov("configurations", json!(n_cfg));
    rep.cov("configurations_explored_to_fixpoint", json!(n_fix));
    if std::env::var("DGRAM_DEPTH").is_ok() || std::env::var("DGRAM_ONLY").is_ok() || std::env::var("DGRAM_MAXSTATES").is_ok() {
        rep.cov("developer_overrides", json!({"DGRAM_DEPTH": std::env::var("DGRAM_DEPTH").ok(), "DGRAM_ONLY": std::env::var("DGRAM_ONLY").ok(), "DGRAM_MAXSTATES": std::env::var("DGRAM_MAXSTATES").ok()}));
    }
    rep.cov("per_configuration", json!(per_cfg));
    rep.cov("distinct_outcomes", json!(distinct));
    rep.cov("oracle_evaluations_by_outcome", serde_json::Value::Object(outcomes));
    rep.cov("rule", json!("per configuration (socket kind x medium/route x IP version x metadata slots x payload bytes): level-synchronous BFS to the stated depth over the event alphabet listed in `alphabet`; every state = event history replayed on a fresh real Interface + socket; all oracles run after every event; outcome counters are summed over all executions (history prefixes are re-executed for every successor)"));
    rep.cov(
        "alphabet",
        json!({
            "largest_datagram": "scripted runs (not BFS): device MTU 70000, all three kinds, IPv4/IPv6, Medium::Ip and Ethernet: the largest datagram the IP length fields can express (IPv4 total length 65535, IPv6 payload length 65535) and one octet more, each with a normal datagram queued behind it; poll x3 + drain under catch_unwind",
            "two_sockets": "scripted runs (not BFS): two sockets {udp, icmp, raw} + udp on one IPv4 interface (IP MTU 36, Ethernet and Medium::Ip), each queues one datagram of size {fills the MTU, 2 fragments, 3 fragments} before the same poll; device unlimited / one frame per poll; every dequeued datagram must be on the wire exactly once, whole (reassembled from the emitted fragments), in any order",
            "small_rings": "4 metadata slots, payload ring 16 / 24 (+2*hdr) octets, sizes {2,6,8}+hdr and capacity: rx and tx alphabets (wrap-around with exact fit, one short, one over)",
            "tight_links": "IPv4, tx alphabet, IP MTU 36 ((mtu-20) % 8 == 0) and 34 ((mtu-20) % 8 == 6): send sizes {M-1, M, M+1 (2 fragments), M+17 (3 resp. 4 fragments)} with M = the datagram whose IP packet is exactly the IP MTU; a datagram that fits must leave unfragmented (MF=0, offset 0); fragment trains are reassembled by the oracle and compared with the datagram sent",
            "send_local_address": "udp: the interface owns two addresses per family; extra sends with UdpMetadata::local_address = Some(first own address) / Some(second own address) (to A, and to the unresolved B on Ethernet), offered while bound by port and while bound by (first address, port); expected IP source = local_address if set, else the bound address, else any own address",
            "checksum_capabilities": "extra tx-alphabet configurations with DeviceCapabilities::checksum = {ipv4 Rx, ipv4 None (IPv4), all five Rx (IPv4 and IPv6)} on Ethernet and Medium::Ip for all three socket kinds; a checksum field is only compared where the stack computes it (explicit match Both | Tx): the ICMP checksum of icmp-socket messages; IP/UDP checksums are never part of the comparison",
            "send": "size in {hdr, hdr+1, hdr+3, capacity} x destination in {A resolved, B unresolved on-link, C off-link (default route via B | no route)}; api rotates over send_slice / send / send_with(max=size+2); plus 3 malformed bytes (icmp, raw)",
            "receive": "recv_slice(capacity+8), recv_slice(hdr+2), peek, peek_slice(hdr+2) (udp, raw)",
            "socket": "bind(port) / bind(addr,port) / close (udp); bind(Ident) (icmp)",
            "interface": "poll, poll_egress, +1 s, refuse next 1|2 transmit() calls",
            "inbound": "matching endpoint to our unicast address, sizes hdr, hdr+1, hdr+3, capacity, capacity+1 from A/B; the same endpoint with IP destination subnet broadcast / limited broadcast / 224.0.0.1 (IPv4), ff02::1 / our solicited-node group (IPv6): delivery as the unchanged tree does it, metadata must name the frame's destination; non-matching port/ident/protocol; udp: destination port 0, icmp: port-unreachable error (can only match a socket without endpoint; must never be queued, whether the socket was never bound, is bound or was closed); each followed by poll",
            "neighbor": "ARP reply / neighbor advertisement of B when a request is pending",
            "drain": "lift back-pressure, answer requests, poll to quiescence, tx liveness verdict"
        }),
    );
    rep.finish()
}

pub fn replay(art: &serde_json::Value) -> i32 {
    if art["replay"]["harness"].as_str() == Some("dgram-pair") {
        let r = &art["replay"];
        let k1 = match r["kind"].as_str() {
            Some("icmp") => Kind::Icmp,
            Some("raw") => Kind::Raw,
            _ => Kind::Udp,
        };
        VERBOSE.store(true, Ordering::Relaxed);
        let (viols, summary) = pair_run(k1, r["eth"].as_bool().unwrap_or(true), r["c1"].as_u64().unwrap_or(0) as usize, r["c2"].as_u64().unwrap_or(0) as usize, r["one_per_poll"].as_bool().unwrap_or(false));
        VERBOSE.store(false, Ordering::Relaxed);
        println!("summary: {}", summary);
        for v in &viols {
            println!("violation: {} :: {}", v.sig, v.detail);
        }
        if viols.is_empty() {
            println!("no violation on replay");
        }
        return if viols.is_empty() { 0 } else { 1 };
    }
    let cfgs = art["replay"]["config"].as_str().unwrap_or("");
    let Some(cfg) = Cfg::parse(cfgs) else {
        eprintln!("MACHINERY ERROR: cannot parse configuration {:?}", cfgs);
        return 2;
    };
    println!("configuration: {:?} (capacity {} bytes, {} slots)", cfg, cfg.cap(), cfg.slots);
    if art["replay"]["harness"].as_str() == Some("dgram-largest") {
        VERBOSE.store(true, Ordering::Relaxed);
        let (viols, summary) = largest_run(&cfg, art["replay"]["above"].as_bool().unwrap_or(false));
        VERBOSE.store(false, Ordering::Relaxed);
        println!("summary: {}", summary);
        for v in &viols {
            println!("violation: {} :: {}", v.sig, v.detail);
        }
        if viols.is_empty() {
            println!("no violation on replay");
        }
        return if viols.is_empty() { 0 } else { 1 };
    }
    if art["replay"]["list_events"].as_bool() == Some(true) {
        // convenience for writing artefacts by hand: the alphabet with its choice indices
        // (NeighReply / Refuse are filtered by `enabled()` when not applicable)
        for (i, e) in DgH::new(&cfg).enabled().iter().enumerate() {
            println!("  choice {:2} = {:?}", i, e.0);
        }
    }
    VERBOSE.store(true, Ordering::Relaxed);
    let r = replay_artifact::<DgH>(&cfg, art);
    VERBOSE.store(false, Ordering::Relaxed);
    r
}
