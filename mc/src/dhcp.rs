//! C18 — "DHCPv4 client never uses an address beyond its lease" (E1 BFS, replay based).
//!
//! A real Ethernet `Interface` + `dhcpv4::Socket`; the explorer plays DHCP server, ARP
//! responder, network (loss = not answering) and clock.  A state is the choice history;
//! the fingerprint is the socket set's `{:?}` image + `Interface::verif_digest()` with all
//! instants made relative to "now" + the reference model.
//!
//! Reference model (boring on purpose): which (xid, type) the client has put on the wire
//! (own parser, offsets from RFC 951/2131/826), and a lease clock fed ONLY by ACKs that meet
//! every acceptance condition of the statement.  The oracle is pure safety: it never demands
//! that a good ACK is accepted, only that a bad one is not, and that a granted lease is not
//! overstayed.  Lenient readings are marked `LENIENT:` below.
//!
//! Reference lease = min(lease option, max_lease_duration) (with a configured maximum the
//! effective lease is the smaller one; an ACK without lease option under a cap is bounded by
//! the cap whatever the built-in default is; without cap and without option nothing is
//! demanded).  Dimensions: retry configuration, max_lease_duration {None, 30 s (below the 120 s
//! default), 300/600 s (above)}, ignore_naks, device back-pressure; server messages deviate
//! from a well-formed base in one dimension (all values) or in selected pairs, see `alphabet`.

use crate::core::*;
use crate::sim::*;
use serde_json::json;
use smoltcp::iface::{Config, Interface, SocketHandle, SocketSet};
use smoltcp::phy::Medium;
use smoltcp::socket::dhcpv4;
use smoltcp::time::{Duration, Instant};
use smoltcp::wire::{
    DhcpMessageType, DhcpOption, DhcpPacket, DhcpRepr, EthernetAddress, HardwareAddress, IpAddress, IpCidr,
    Ipv4Address, Ipv4Cidr,
};
use std::collections::HashMap;
use std::fmt::Write as _;
use std::sync::atomic::{AtomicBool, Ordering};
use std::sync::Mutex;

const CLIENT_MAC: [u8; 6] = [2, 0, 0, 0, 0, 1];
const SERVER_MAC: [u8; 6] = [2, 0, 0, 0, 0, 2];
const FOREIGN_MAC: [u8; 6] = [2, 0, 0, 0, 0, 0x99];
const SERVER_IP: [u8; 4] = [192, 168, 1, 1];
const YI_UNI: [u8; 4] = [192, 168, 1, 42];
const YI_MCAST: [u8; 4] = [224, 0, 0, 1];
const BCAST: [u8; 4] = [255, 255, 255, 255];
const MASK24: [u8; 4] = [255, 255, 255, 0];
const MASK_NC: [u8; 4] = [255, 0, 255, 0];
const DNS1: [u8; 4] = [1, 1, 1, 1];
const US: i64 = 1_000_000;
/// iterations of the "silent server until the lease is gone" macro event
const RUN_CAP: usize = 250;

// ---------------------------------------------------------------------------------------
// configuration
// ---------------------------------------------------------------------------------------

#[derive(Clone, Debug, PartialEq)]
pub struct Cfg {
    pub retry_short: bool,
    pub max_lease: Option<u32>,
    pub ignore_naks: bool,
    /// 0 = full alphabet (all single deviations + pairs), 1 = single deviations only
    pub alpha: u8,
    /// device back-pressure events ("block tx" = `Device::transmit()` returns None until
    /// "unblock tx") are part of the alphabet
    pub bp: bool,
}

fn parse_cfg(s: &str) -> Cfg {
    let has = |k: &str| s.contains(k);
    let max_lease = s.find("max_lease: Some(").map(|i| {
        let r = &s[i + "max_lease: Some(".len()..];
        r[..r.find(')').unwrap_or(0)].parse::<u32>().unwrap_or(30)
    });
    let alpha = s.find("alpha: ").and_then(|i| s[i + 7..].chars().next()).and_then(|c| c.to_digit(10)).unwrap_or(0) as u8;
    Cfg { retry_short: has("retry_short: true"), max_lease, ignore_naks: has("ignore_naks: true"), alpha, bp: has("bp: true") }
}

fn retry_config(short: bool) -> dhcpv4::RetryConfig {
    let mut rc = dhcpv4::RetryConfig::default();
    if short {
        rc.discover_timeout = Duration::from_secs(2);
        rc.initial_request_timeout = Duration::from_secs(1);
        rc.request_retries = 2;
        rc.min_renew_timeout = Duration::from_secs(5);
        rc.max_renew_timeout = Duration::from_secs(50);
    }
    rc
}

/// Maximum back-off between two solicitations while unconfigured, derived from RetryConfig:
/// DISCOVER is repeated every `discover_timeout`; the n-th REQUEST waits
/// `initial_request_timeout << (n/2)`, n < request_retries.
/// LENIENT: + 1 s (an interface may silence a socket for the neighbour-discovery silent time
/// after a failed unicast) + 1 ms slack.
fn max_backoff_us(rc: &dhcpv4::RetryConfig) -> i64 {
    let d = rc.discover_timeout.total_micros() as i64;
    let sh = (rc.request_retries.saturating_sub(1) as u32) / 2;
    let r = (rc.initial_request_timeout.total_micros() as i64) << sh;
    d.max(r) + US + 1000
}

// ---------------------------------------------------------------------------------------
// server message alphabet
// ---------------------------------------------------------------------------------------

#[derive(Clone, Copy, PartialEq, Eq, Debug, Hash)]
pub enum MT {
    Offer,
    Ack,
    Nak,
    Discover,
    Inform,
    Request,
}
#[derive(Clone, Copy, PartialEq, Eq, Debug, Hash)]
pub enum X {
    Latest,
    Earlier,
    Foreign,
}
#[derive(Clone, Copy, PartialEq, Eq, Debug, Hash)]
pub enum M {
    M24,
    NonContig,
    Absent,
}
#[derive(Clone, Copy, PartialEq, Eq, Debug, Hash)]
pub enum Y {
    Uni,
    Bcast,
    Zero,
    Mcast,
}
/// value of a T1 or T2 option that comes ALONE (the other one absent), relative to the lease L
/// carried by the same ACK, or equal to the configuration's max-lease cap
#[derive(Clone, Copy, PartialEq, Eq, Debug, Hash)]
pub enum AV {
    Zero,
    Half,
    Lm1,
    L,
    Lp1,
    Cap(u32),
}
impl AV {
    fn value(self, l: u32) -> u32 {
        match self {
            AV::Zero => 0,
            AV::Half => l / 2,
            AV::Lm1 => l.saturating_sub(1),
            AV::L => l,
            AV::Lp1 => l.saturating_add(1),
            AV::Cap(c) => c,
        }
    }
}
#[derive(Clone, Copy, PartialEq, Eq, Debug, Hash)]
pub enum T12 {
    Absent,
    Zero,
    Equal,
    Inverted,
    Over,
    T1Only,
    T2Only,
    Valid,
    Tight,
    /// the RFC defaults spelled out: (L/2, 7L/8)
    Spelled,
    /// explicit inconsistent/edge pairs: T1 == 0 with a proper T2: (0, L/2); T2 == lease: (L/2, L)
    T1Zero,
    T2EqLease,
    /// option 58 alone / option 59 alone with the values 0, L/2, L-1, L, L+1 (and the cap)
    /// (`T1Only` = 58 alone with L/2, `T2Only` = 59 alone with L/4 are the older two)
    T1Alone(AV),
    T2Alone(AV),
    /// explicit pairs around a max_lease_duration cap c (only in configurations with a cap):
    /// (c-1, c), (c, c+1), (c+1, L-1) — valid for a server lease L > c+2, not for the capped one
    CapLo(u32),
    CapAt(u32),
    CapHi(u32),
}

/// IPv4 source address of the server frame (dhcpv4::Socket::process stores the OFFER's source
/// as the address renewals are unicast to)
#[derive(Clone, Copy, PartialEq, Eq, Debug, Hash)]
pub enum S {
    Server,
    Unspecified,
    OtherHost,
    OffSubnet,
}
const SRC_OTHER_HOST: [u8; 4] = [192, 168, 1, 7];
const SRC_OFF_SUBNET: [u8; 4] = [10, 9, 8, 7];

/// The DHCP payload is cut right after its last option (no END option, no padding) and the
/// named option is that last one, i.e. it ends exactly at the end of the datagram.
#[derive(Clone, Copy, PartialEq, Eq, Debug, Hash)]
pub enum Cut {
    No,
    Lease,
    T1,
    T2,
    ServerId,
    Mask,
    Router,
}
impl Cut {
    fn kind(self) -> Option<u8> {
        match self {
            Cut::No => None,
            Cut::Lease => Some(51),
            Cut::T1 => Some(58),
            Cut::T2 => Some(59),
            Cut::ServerId => Some(54),
            Cut::Mask => Some(1),
            Cut::Router => Some(3),
        }
    }
}
/// Re-order the options of an emitted DHCP payload so that option `last` comes last, drop the
/// END option and everything after it.  None if the option is not in the message.
fn cut_after(payload: &[u8], last: u8) -> Option<Vec<u8>> {
    let mut opts: Vec<&[u8]> = vec![];
    let mut i = 240;
    while i < payload.len() {
        let c = payload[i];
        if c == 255 {
            break;
        }
        if c == 0 {
            i += 1;
            continue;
        }
        if i + 1 >= payload.len() {
            break;
        }
        let l = payload[i + 1] as usize;
        if i + 2 + l > payload.len() {
            break;
        }
        opts.push(&payload[i..i + 2 + l]);
        i += 2 + l;
    }
    let pos = opts.iter().position(|o| o[0] == last)?;
    let tail = opts.remove(pos);
    let mut out = payload[..240].to_vec();
    for o in opts {
        out.extend_from_slice(o);
    }
    out.extend_from_slice(tail);
    Some(out)
}

#[derive(Clone, Copy, PartialEq, Eq, Hash)]
pub struct MsgSpec {
    typ: MT,
    xid: X,
    own_chaddr: bool,
    sid: bool,
    mask: M,
    yi: Y,
    lease: Option<u32>,
    t12: T12,
    extras: bool,
    unicast: bool,
    src: S,
    cut: Cut,
}

const BASE_LEASE: u32 = 600;
fn base(typ: MT) -> MsgSpec {
    MsgSpec {
        typ,
        xid: X::Latest,
        own_chaddr: true,
        sid: true,
        mask: M::M24,
        yi: Y::Uni,
        lease: Some(BASE_LEASE),
        t12: T12::Absent,
        extras: true,
        unicast: false,
        src: S::Server,
        cut: Cut::No,
    }
}

impl std::fmt::Debug for MsgSpec {
    fn fmt(&self, f: &mut std::fmt::Formatter) -> std::fmt::Result {
        let b = base(self.typ);
        write!(f, "{:?}{{", self.typ)?;
        let mut parts: Vec<String> = vec![];
        if self.xid != b.xid {
            parts.push(format!("xid={:?}", self.xid));
        }
        if !self.own_chaddr {
            parts.push("chaddr=foreign".into());
        }
        if !self.sid {
            parts.push("server-id=absent".into());
        }
        if self.mask != b.mask {
            parts.push(format!("mask={:?}", self.mask));
        }
        if self.yi != b.yi {
            parts.push(format!("yiaddr={:?}", self.yi));
        }
        if self.lease != b.lease {
            parts.push(match self.lease {
                None => "lease=absent".into(),
                Some(l) => format!("lease={}", l),
            });
        }
        if self.t12 != b.t12 {
            let (a, c) = t12_values(self.t12, self.lease);
            parts.push(format!("T1/T2={:?}({:?},{:?})", self.t12, a, c));
        }
        if !self.extras {
            parts.push("no-router/dns".into());
        }
        if self.unicast {
            parts.push("unicast".into());
        }
        if self.src != S::Server {
            parts.push(format!("ip-src={:?}", self.src));
        }
        if self.cut != Cut::No {
            parts.push(format!("cut-after={:?}", self.cut));
        }
        write!(f, "{}}}", parts.join(" "))
    }
}

/// T1/T2 option values for a variant, relative to the lease L carried (120 = the documented
/// default when the lease option is absent).
fn t12_values(t: T12, lease: Option<u32>) -> (Option<u32>, Option<u32>) {
    let l = lease.unwrap_or(120);
    match t {
        T12::Absent => (None, None),
        T12::Zero => (Some(0), Some(0)),
        T12::Equal => (Some(l / 2), Some(l / 2)),
        T12::Inverted => (Some(l / 4 * 3), Some(l / 4)),
        T12::Over => (Some(l.saturating_add(1)), Some(l.saturating_add(2))),
        T12::T1Only => (Some(l / 2), None),
        T12::T2Only => (None, Some(l / 4)),
        T12::Valid => (Some(l / 4), Some(l / 2)),
        T12::Tight => (Some(l.saturating_sub(2)), Some(l.saturating_sub(1))),
        T12::Spelled => (Some(l / 2), Some((l as u64 * 7 / 8) as u32)),
        T12::T1Zero => (Some(0), Some(l / 2)),
        T12::T2EqLease => (Some(l / 2), Some(l)),
        T12::T1Alone(v) => (Some(v.value(l)), None),
        T12::T2Alone(v) => (None, Some(v.value(l))),
        T12::CapLo(c) => (Some(c.saturating_sub(1)), Some(c)),
        T12::CapAt(c) => (Some(c), Some(c.saturating_add(1))),
        T12::CapHi(c) => (Some(c.saturating_add(1)), Some(l.saturating_sub(1))),
    }
}

const LEASES: [Option<u32>; 7] = [None, Some(0), Some(1), Some(2), Some(60), Some(600), Some(u32::MAX)];
const T12S: [T12; 21] = [
    T12::Absent,
    T12::Zero,
    T12::Equal,
    T12::Inverted,
    T12::Over,
    T12::T1Only,
    T12::T2Only,
    T12::Valid,
    T12::Tight,
    T12::Spelled,
    T12::T1Zero,
    T12::T2EqLease,
    T12::T1Alone(AV::Zero),
    T12::T1Alone(AV::Lm1),
    T12::T1Alone(AV::L),
    T12::T1Alone(AV::Lp1),
    T12::T2Alone(AV::Zero),
    T12::T2Alone(AV::Half),
    T12::T2Alone(AV::Lm1),
    T12::T2Alone(AV::L),
    T12::T2Alone(AV::Lp1),
];

/// `cap` = the configuration's max_lease_duration: adds a control lease just below the cap and
/// the explicit T1/T2 pairs around the cap (singly and paired with every lease value).
fn alphabet(alpha: u8, earlier: bool, cap: Option<u32>) -> Vec<MsgSpec> {
    let mut v = vec![];
    let mut leases: Vec<Option<u32>> = LEASES.to_vec();
    let mut t12s: Vec<T12> = T12S.to_vec();
    if let Some(c) = cap {
        if c >= 20 {
            leases.push(Some(c - 10));
        }
        t12s.extend([T12::CapLo(c), T12::CapAt(c), T12::CapHi(c), T12::T1Alone(AV::Cap(c)), T12::T2Alone(AV::Cap(c))]);
    }
    let xids: &[X] = if earlier { &[X::Earlier, X::Foreign] } else { &[X::Foreign] };
    // OFFER: base + single deviations in the dimensions an OFFER has
    let o = base(MT::Offer);
    v.push(o);
    for &x in xids {
        v.push(MsgSpec { xid: x, ..o });
    }
    v.push(MsgSpec { own_chaddr: false, ..o });
    v.push(MsgSpec { sid: false, ..o });
    v.push(MsgSpec { mask: M::NonContig, ..o });
    v.push(MsgSpec { mask: M::Absent, ..o });
    for y in [Y::Bcast, Y::Zero, Y::Mcast] {
        v.push(MsgSpec { yi: y, ..o });
    }
    v.push(MsgSpec { lease: None, ..o });
    v.push(MsgSpec { unicast: true, ..o });
    // IP source of the frame: singly, and paired with unicast delivery
    for sc in [S::Unspecified, S::OtherHost, S::OffSubnet] {
        v.push(MsgSpec { src: sc, ..o });
        if alpha == 0 {
            v.push(MsgSpec { src: sc, unicast: true, ..o });
        }
    }
    // datagram cut right after the last option (no END/padding), each candidate option last;
    // T1/T2 need the options present: the valid pair (L/4, L/2)
    for c in [Cut::Lease, Cut::T1, Cut::T2, Cut::ServerId, Cut::Mask, Cut::Router] {
        let t12 = if matches!(c, Cut::T1 | Cut::T2) { T12::Valid } else { o.t12 };
        v.push(MsgSpec { cut: c, t12, ..o });
    }
    // ACK: base + all single deviations
    let a = base(MT::Ack);
    v.push(a);
    for &x in xids {
        v.push(MsgSpec { xid: x, ..a });
    }
    v.push(MsgSpec { own_chaddr: false, ..a });
    v.push(MsgSpec { sid: false, ..a });
    v.push(MsgSpec { mask: M::NonContig, ..a });
    v.push(MsgSpec { mask: M::Absent, ..a });
    for y in [Y::Bcast, Y::Zero, Y::Mcast] {
        v.push(MsgSpec { yi: y, ..a });
    }
    for &l in &leases {
        if l != a.lease {
            v.push(MsgSpec { lease: l, ..a });
        }
    }
    for &t in &t12s {
        if t != a.t12 {
            v.push(MsgSpec { t12: t, ..a });
        }
    }
    v.push(MsgSpec { extras: false, ..a });
    v.push(MsgSpec { unicast: true, ..a });
    for sc in [S::Unspecified, S::OtherHost, S::OffSubnet] {
        v.push(MsgSpec { src: sc, ..a });
    }
    for c in [Cut::Lease, Cut::T1, Cut::T2, Cut::ServerId, Cut::Mask, Cut::Router] {
        let t12 = if matches!(c, Cut::T1 | Cut::T2) { T12::Valid } else { a.t12 };
        v.push(MsgSpec { cut: c, t12, ..a });
    }
    // the lease option last, with the lease values below the documented 120 s default (both
    // alphabets: the value is intrinsic to this variant)
    for l in [Some(1), Some(60)] {
        v.push(MsgSpec { cut: Cut::Lease, lease: l, ..a });
    }
    if alpha == 0 {
        // pairs over a reduced set: lease x T1/T2 (the two dimensions that interact in
        // parse_ack), unicast delivery x tiny leases
        for &l in &leases {
            if l == a.lease {
                continue;
            }
            for &t in &t12s {
                if t == a.t12 {
                    continue;
                }
                v.push(MsgSpec { lease: l, t12: t, ..a });
            }
        }
        v.push(MsgSpec { unicast: true, lease: Some(0), ..a });
        v.push(MsgSpec { unicast: true, lease: Some(1), ..a });
        for l in [Some(0), Some(2), Some(u32::MAX)] {
            v.push(MsgSpec { cut: Cut::Lease, lease: l, ..a });
        }
        // IP source paired with two option deviations (no router: the only way to an off-subnet
        // server is gone; short lease)
        for sc in [S::Unspecified, S::OtherHost, S::OffSubnet] {
            v.push(MsgSpec { src: sc, extras: false, ..a });
            v.push(MsgSpec { src: sc, lease: Some(60), ..a });
        }
    }
    // NAK
    let n = MsgSpec { yi: Y::Zero, mask: M::Absent, lease: None, extras: false, ..base(MT::Nak) };
    v.push(n);
    for &x in xids {
        v.push(MsgSpec { xid: x, ..n });
    }
    v.push(MsgSpec { own_chaddr: false, ..n });
    v.push(MsgSpec { sid: false, ..n });
    v.push(MsgSpec { unicast: true, ..n });
    // unrelated types, otherwise perfect
    for t in [MT::Discover, MT::Inform, MT::Request] {
        v.push(base(t));
    }
    v
}

fn bursts() -> Vec<Vec<MsgSpec>> {
    let a = base(MT::Ack);
    let n = MsgSpec { yi: Y::Zero, mask: M::Absent, lease: None, extras: false, ..base(MT::Nak) };
    vec![
        vec![base(MT::Offer), a],
        vec![a, n],
        vec![n, a],
        vec![a, MsgSpec { lease: Some(1), ..a }],
    ]
}

#[derive(Clone, PartialEq, Hash)]
pub enum Ev {
    /// one server frame, then `Interface::poll`
    Msg(MsgSpec),
    /// several server frames queued back to back, then ONE `Interface::poll`
    Burst(Vec<MsgSpec>),
    /// answer the client's outstanding ARP request for the server address, then poll
    ArpReply,
    /// advance the clock to `Interface::poll_at` (or poll again now if that is not in the future)
    ToPollAt,
    Plus1s,
    /// advance to (expiry of the lease granted by the most recent acceptable ACK, capped with
    /// max_lease_duration) + n us
    ToExpiry(i64),
    /// same for the server's uncapped lease option (only when that differs)
    ToCappedExpiry(i64),
    /// silent DHCP server: follow poll_at until the client gives the address up
    /// (bool: ARP requests for the server are answered)
    RunSilent(bool),
    /// back-pressure: from now on `Device::transmit()` refuses (returns None); then poll
    BlockTx,
    /// lift the back-pressure; then poll
    UnblockTx,
}
impl std::fmt::Debug for Ev {
    fn fmt(&self, f: &mut std::fmt::Formatter) -> std::fmt::Result {
        match self {
            Ev::Msg(m) => write!(f, "deliver {:?}", m),
            Ev::Burst(v) => write!(f, "deliver-burst {:?}", v),
            Ev::ArpReply => write!(f, "arp-reply"),
            Ev::ToPollAt => write!(f, "advance-to-poll_at"),
            Ev::Plus1s => write!(f, "advance+1s"),
            Ev::ToExpiry(d) => write!(f, "advance-to-expiry{:+}us", d),
            Ev::ToCappedExpiry(d) => write!(f, "advance-to-uncapped-expiry{:+}us", d),
            Ev::RunSilent(arp) => write!(f, "run-silent-server(arp-answered={})", arp),
            Ev::BlockTx => write!(f, "block-tx"),
            Ev::UnblockTx => write!(f, "unblock-tx"),
        }
    }
}

// ---------------------------------------------------------------------------------------
// independent parser for what the client puts on the wire
// ---------------------------------------------------------------------------------------

#[derive(Clone, Debug)]
struct ClientMsg {
    typ: u8,
    xid: u32,
    ciaddr: [u8; 4],
    ip_src: [u8; 4],
    ip_dst: [u8; 4],
    eth_dst: [u8; 6],
}
enum Tx {
    ArpRequest { spa: [u8; 4], tpa: [u8; 4] },
    Dhcp(ClientMsg),
    Other,
}
fn a4(b: &[u8]) -> [u8; 4] {
    [b[0], b[1], b[2], b[3]]
}
fn parse_tx(f: &[u8]) -> Tx {
    if f.len() < 14 {
        return Tx::Other;
    }
    let et = u16::from_be_bytes([f[12], f[13]]);
    let p = &f[14..];
    if et == 0x0806 {
        if p.len() >= 28 && u16::from_be_bytes([p[6], p[7]]) == 1 {
            return Tx::ArpRequest { spa: a4(&p[14..18]), tpa: a4(&p[24..28]) };
        }
        return Tx::Other;
    }
    if et != 0x0800 || p.len() < 20 || p[0] >> 4 != 4 || p[9] != 17 {
        return Tx::Other;
    }
    let ihl = ((p[0] & 0xf) as usize) * 4;
    if p.len() < ihl + 8 {
        return Tx::Other;
    }
    let u = &p[ihl..];
    let (sp, dp) = (u16::from_be_bytes([u[0], u[1]]), u16::from_be_bytes([u[2], u[3]]));
    if sp != 68 || dp != 67 {
        return Tx::Other;
    }
    let d = &u[8..];
    if d.len() < 240 || d[236..240] != [0x63, 0x82, 0x53, 0x63] {
        return Tx::Other;
    }
    let mut typ = 0u8;
    let mut i = 240;
    while i < d.len() {
        let c = d[i];
        if c == 255 {
            break;
        }
        if c == 0 {
            i += 1;
            continue;
        }
        if i + 1 >= d.len() {
            break;
        }
        let l = d[i + 1] as usize;
        if i + 2 + l > d.len() {
            break;
        }
        if c == 53 && l == 1 {
            typ = d[i + 2];
        }
        i += 2 + l;
    }
    let mut eth_dst = [0u8; 6];
    eth_dst.copy_from_slice(&f[0..6]);
    Tx::Dhcp(ClientMsg {
        typ,
        xid: u32::from_be_bytes([d[4], d[5], d[6], d[7]]),
        ciaddr: a4(&d[12..16]),
        ip_src: a4(&p[12..16]),
        ip_dst: a4(&p[16..20]),
        eth_dst,
    })
}
fn ip4(a: [u8; 4]) -> String {
    format!("{}.{}.{}.{}", a[0], a[1], a[2], a[3])
}
fn tsec(us: i64) -> String {
    format!("{}.{:06}s", us / US, us % US)
}

// ---------------------------------------------------------------------------------------
// reference model
// ---------------------------------------------------------------------------------------

#[derive(Clone, Debug)]
struct Lease {
    /// reference expiry: arrival + min(lease option, max_lease_duration).  With a configured
    /// maximum the effective lease is the smaller of the two; an ACK without lease option is then
    /// bounded by the cap alone (LENIENT: whatever the built-in default is, min(default, cap) <=
    /// cap).  None = no lease option and no cap (LENIENT: nothing granted explicitly, the 120 s
    /// default is documented but not part of the statement: no expiry demanded).
    e_stmt: Option<i64>,
    /// arrival + lease option where that differs (a cap is in force): only used to AIM time
    /// events at the instant the server's own number would suggest, never in a verdict.
    e_capped: Option<i64>,
    /// granted seconds after capping (attempt clause threshold)
    secs_capped: Option<u64>,
    /// a renewal attempt (and renew-before-rebind) is demanded unless the ACK carried option 59
    /// (T2) alone.  LENIENT: with a lone T2 the statement's "T1 < T2" premise is undefined (the
    /// code documents T1 := min(lease/2, T2), which can make T1 == T2 and skip the renewing
    /// phase).  A REBINDING attempt before the end of the lease is demanded for every shape.
    order_demanded: bool,
    t2only: bool,
    renew_seen: bool,
    rebind_seen: bool,
    /// the clock never jumped past an instant the client asked to be polled at
    faithful: bool,
    /// no DHCP message from the server since the ACK
    silent: bool,
}

#[derive(Clone, Debug)]
struct Model {
    latest_xid: Option<u32>,
    latest_type: u8,
    earlier_xid: Option<u32>,
    last_req_xid: Option<u32>,
    xids: Vec<u32>,
    /// what the client currently reports through `dhcpv4::Socket::poll()`
    reported: Option<([u8; 4], u8)>,
    /// a clause-1 violation happened earlier in this history: the lease clock no longer
    /// describes what the client holds, later lease/renew verdicts are suppressed
    tainted: bool,
    lease: Option<Lease>,
    /// max(time the client became unconfigured, time of its last solicitation)
    unconf_ref: i64,
    nosol_pollats: u8,
    /// (sender, target) protocol address of the client's latest unanswered ARP request
    arp_pending: Option<([u8; 4], [u8; 4])>,
    labels: u32,
}

const L_CONFIGURED: u32 = 1;
const L_RENEW_SEEN: u32 = 2;
const L_REBIND_SEEN: u32 = 4;
const L_EXPIRED: u32 = 8;
const L_NAK_DECONF: u32 = 16;
const L_REQUESTING: u32 = 32;
const L_LEASE_RENEWED: u32 = 64;
const L_TAINTED: u32 = 128;
const L_RUN_CAPPED: u32 = 256;
const L_T2ONLY_NO_RENEW: u32 = 512;
const L_RUN_FULL_LEASE: u32 = 1024;
const L_RUN_ANY_REQUEST: u32 = 2048;
const LABEL_NAMES: [(&str, u32); 12] = [
    ("configured", L_CONFIGURED),
    ("renew_attempt_seen_in_lease", L_RENEW_SEEN),
    ("rebind_attempt_seen_in_lease", L_REBIND_SEEN),
    ("reached_by_lease_expiry", L_EXPIRED),
    ("reached_by_nak_deconfigure", L_NAK_DECONF),
    ("requesting", L_REQUESTING),
    ("reached_by_lease_renewal_ack", L_LEASE_RENEWED),
    ("after_clause1_violation", L_TAINTED),
    ("run_silent_capped", L_RUN_CAPPED),
    ("observation_lone_T2_rebind_without_renew", L_T2ONLY_NO_RENEW),
    ("silent_run_checked_renew_and_rebind_before_expiry", L_RUN_FULL_LEASE),
    ("lease_end_checked_some_request_before_expiry", L_RUN_ANY_REQUEST),
];

/// side channel for vacuity statistics (never for verdicts): per distinct state fingerprint and
/// per distinct explored history (hash of the event names) the OR of the outcome labels
static LABELS: Mutex<Option<(HashMap<u128, u32>, HashMap<u64, u32>)>> = Mutex::new(None);
static VERBOSE: AtomicBool = AtomicBool::new(false);

// ---------------------------------------------------------------------------------------
// harness
// ---------------------------------------------------------------------------------------

pub struct DhcpH {
    cfg: Cfg,
    backoff: i64,
    dev: SimDevice,
    iface: Interface,
    sockets: SocketSet<'static>,
    handle: SocketHandle,
    now: i64,
    m: Model,
    pending: Vec<Viol>,
    /// Interface::poll_at as of the end of the last poll
    pa: Option<i64>,
    /// `Interface::poll` panicked in this history: reported, nothing more can be explored
    dead: bool,
    hist_hash: u64,
    pub log: Vec<String>,
}

/// what was delivered in the poll being judged
#[derive(Default)]
struct PollCtx {
    delivered: Vec<(MsgSpec, Vec<&'static str>)>, // spec + failed acceptance conditions
    nak: bool,
    any_dhcp: bool,
}

impl DhcpH {
    fn say(&mut self, s: impl FnOnce() -> String) {
        if VERBOSE.load(Ordering::Relaxed) {
            let l = format!("t={} {}", tsec(self.now), s());
            self.log.push(l);
        }
    }

    fn xid_value(&self, x: X) -> u32 {
        match x {
            X::Latest => self.m.latest_xid.unwrap_or(1),
            X::Earlier => self.m.earlier_xid.unwrap_or(2),
            X::Foreign => {
                let mut v = 0x0bad_f00du32;
                while self.m.xids.contains(&v) {
                    v = v.wrapping_add(0x1357_9bdf);
                }
                v
            }
        }
    }

    /// The statement's acceptance conditions, evaluated against what the client has put on the
    /// wire so far.  Returns the list of failed conditions (empty = acceptable).
    fn failed_conditions(&self, s: &MsgSpec) -> Vec<&'static str> {
        let mut f = vec![];
        if s.typ != MT::Ack {
            f.push("not-an-ack");
            return f;
        }
        let xid = self.xid_value(s.xid);
        match self.m.last_req_xid {
            None => f.push("ack-before-request"),
            Some(r) if r != xid => {
                // the current transaction (latest client message) has no REQUEST yet
                if Some(xid) == self.m.latest_xid && self.m.latest_type != 3 {
                    f.push("ack-before-request")
                } else {
                    f.push("xid-not-of-latest-request")
                }
            }
            _ => {}
        }
        if !s.own_chaddr {
            f.push("foreign-chaddr");
        }
        if !s.sid {
            f.push("no-server-id");
        }
        match s.mask {
            M::M24 => {}
            M::NonContig => f.push("non-contiguous-mask"),
            M::Absent => f.push("no-mask"),
        }
        match s.yi {
            Y::Uni => {}
            Y::Bcast => f.push("yiaddr-broadcast"),
            Y::Zero => f.push("yiaddr-unspecified"),
            Y::Mcast => f.push("yiaddr-multicast"),
        }
        f
    }

    fn build_frame(&self, s: &MsgSpec) -> Vec<u8> {
        use smoltcp::phy::ChecksumCapabilities;
        use smoltcp::wire::{
            EthernetFrame, EthernetProtocol, EthernetRepr, IpProtocol, Ipv4Packet, Ipv4Repr, UdpPacket, UdpRepr,
        };
        let yi = match s.yi {
            Y::Uni => YI_UNI,
            Y::Bcast => BCAST,
            Y::Zero => [0; 4],
            Y::Mcast => YI_MCAST,
        };
        let carries_cfg = matches!(s.typ, MT::Offer | MT::Ack);
        let (t1, t2) = if carries_cfg { t12_values(s.t12, s.lease) } else { (None, None) };
        let t1b = t1.unwrap_or(0).to_be_bytes();
        let t2b = t2.unwrap_or(0).to_be_bytes();
        let mut extra: Vec<DhcpOption> = vec![];
        if t1.is_some() {
            extra.push(DhcpOption { kind: 58, data: &t1b });
        }
        if t2.is_some() {
            extra.push(DhcpOption { kind: 59, data: &t2b });
        }
        // DNS option (6) goes through additional_options: keeps this crate free of `heapless`
        if s.extras && carries_cfg {
            extra.push(DhcpOption { kind: 6, data: &DNS1 });
        }
        let repr = DhcpRepr {
            message_type: match s.typ {
                MT::Offer => DhcpMessageType::Offer,
                MT::Ack => DhcpMessageType::Ack,
                MT::Nak => DhcpMessageType::Nak,
                MT::Discover => DhcpMessageType::Discover,
                MT::Inform => DhcpMessageType::Inform,
                MT::Request => DhcpMessageType::Request,
            },
            transaction_id: self.xid_value(s.xid),
            secs: 0,
            client_hardware_address: EthernetAddress(if s.own_chaddr { CLIENT_MAC } else { FOREIGN_MAC }),
            client_ip: Ipv4Address::UNSPECIFIED,
            your_ip: Ipv4Address::from(yi),
            server_ip: Ipv4Address::from(SERVER_IP),
            router: if s.extras && carries_cfg { Some(Ipv4Address::from(SERVER_IP)) } else { None },
            subnet_mask: match s.mask {
                M::M24 => Some(Ipv4Address::from(MASK24)),
                M::NonContig => Some(Ipv4Address::from(MASK_NC)),
                M::Absent => None,
            },
            relay_agent_ip: Ipv4Address::UNSPECIFIED,
            broadcast: false,
            requested_ip: None,
            client_identifier: None,
            server_identifier: if s.sid { Some(Ipv4Address::from(SERVER_IP)) } else { None },
            parameter_request_list: None,
            dns_servers: None,
            max_size: None,
            lease_duration: if carries_cfg { s.lease } else { None },
            renew_duration: None,
            rebind_duration: None,
            additional_options: &extra,
        };
        let mut dhcp = vec![0u8; repr.buffer_len()];
        repr.emit(&mut DhcpPacket::new_unchecked(&mut dhcp[..])).expect("emit dhcp stimulus");
        if let Some(k) = s.cut.kind() {
            if let Some(c) = cut_after(&dhcp, k) {
                dhcp = c;
            }
        }
        let dlen = dhcp.len();
        let ip_dst = if s.unicast { Ipv4Address::from(YI_UNI) } else { Ipv4Address::BROADCAST };
        let ip_src = Ipv4Address::from(match s.src {
            S::Server => SERVER_IP,
            S::Unspecified => [0; 4],
            S::OtherHost => SRC_OTHER_HOST,
            S::OffSubnet => SRC_OFF_SUBNET,
        });
        let ip = Ipv4Repr { src_addr: ip_src, dst_addr: ip_dst, next_header: IpProtocol::Udp, payload_len: 8 + dlen, hop_limit: 64 };
        let eth = EthernetRepr {
            src_addr: EthernetAddress(SERVER_MAC),
            dst_addr: if s.unicast { EthernetAddress(CLIENT_MAC) } else { EthernetAddress::BROADCAST },
            ethertype: EthernetProtocol::Ipv4,
        };
        let caps = ChecksumCapabilities::default();
        let mut buf = vec![0u8; 14 + 20 + 8 + dlen];
        let mut fr = EthernetFrame::new_unchecked(&mut buf[..]);
        eth.emit(&mut fr);
        let mut ipp = Ipv4Packet::new_unchecked(fr.payload_mut());
        ip.emit(&mut ipp, &caps);
        let mut udp = UdpPacket::new_unchecked(ipp.payload_mut());
        UdpRepr { src_port: 67, dst_port: 68 }.emit(
            &mut udp,
            &IpAddress::Ipv4(ip_src),
            &IpAddress::Ipv4(ip_dst),
            dlen,
            |p| p.copy_from_slice(&dhcp),
            &caps,
        );
        buf
    }

    fn build_arp_reply(&self, client_ip: [u8; 4], asked: [u8; 4]) -> Vec<u8> {
        use smoltcp::wire::{ArpOperation, ArpPacket, ArpRepr, EthernetFrame, EthernetProtocol, EthernetRepr};
        let arp = ArpRepr::EthernetIpv4 {
            operation: ArpOperation::Reply,
            source_hardware_addr: EthernetAddress(SERVER_MAC),
            source_protocol_addr: Ipv4Address::from(asked),
            target_hardware_addr: EthernetAddress(CLIENT_MAC),
            target_protocol_addr: Ipv4Address::from(client_ip),
        };
        let eth = EthernetRepr {
            src_addr: EthernetAddress(SERVER_MAC),
            dst_addr: EthernetAddress(CLIENT_MAC),
            ethertype: EthernetProtocol::Arp,
        };
        let mut buf = vec![0u8; 14 + arp.buffer_len()];
        let mut fr = EthernetFrame::new_unchecked(&mut buf[..]);
        eth.emit(&mut fr);
        arp.emit(&mut ArpPacket::new_unchecked(fr.payload_mut()));
        buf
    }

    /// Feed the lease clock / context with a message about to be delivered.
    fn model_deliver(&mut self, s: &MsgSpec, ctx: &mut PollCtx) {
        let failed = self.failed_conditions(s);
        ctx.any_dhcp = true;
        if s.typ == MT::Nak {
            ctx.nak = true;
        }
        if let Some(l) = self.m.lease.as_mut() {
            l.silent = false;
        }
        if failed.is_empty() {
            let cap = self.cfg.max_lease.map(|c| c as u64);
            let secs_capped = s.lease.map(|l| cap.map_or(l as u64, |c| c.min(l as u64)));
            let renewed = self.m.reported.is_some();
            let (t1, t2) = t12_values(s.t12, s.lease);
            let fresh = Lease {
                e_stmt: match (s.lease, self.cfg.max_lease) {
                    (Some(l), Some(c)) => Some(self.now + l.min(c) as i64 * US),
                    (Some(l), None) => Some(self.now + l as i64 * US),
                    (None, Some(c)) => Some(self.now + c as i64 * US),
                    (None, None) => None,
                },
                e_capped: s.lease.map(|l| self.now + l as i64 * US),
                secs_capped,
                order_demanded: !(t1.is_none() && t2.is_some()),
                t2only: t1.is_none() && t2.is_some(),
                renew_seen: false,
                rebind_seen: false,
                // LENIENT: under device back-pressure a renewal/rebind attempt leaves no frame,
                // so order/attempt verdicts are only made for leases during which the device
                // accepted frames all the time
                faithful: !self.blocked(),
                silent: true,
            };
            // LENIENT: the IPv4 source address of the frame is not among the statement's
            // acceptance conditions, so an otherwise acceptable ACK from an unexpected source
            // (0.0.0.0, another host, off-subnet) may be honoured or ignored by the client; the same
            // holds for a message without END option (RFC 2132 requires one).  If the client
            // reports Configured from it, the lease clock uses the values that are IN the message.  A
            // Configured event after it is legitimate; if it arrives while a lease is already
            // held (no event tells whether it was honoured) the client may go by either lease:
            // expiry = the later of the two (no demand if either carries no lease option) and
            // the order/attempt clauses are not judged for this lease any more.
            let holds_lease = self.m.lease.is_some() && (self.m.reported.is_some() || ctx.delivered.iter().any(|d| d.1.is_empty()));
            if (s.src != S::Server || s.cut != Cut::No) && holds_lease {
                let old = self.m.lease.as_mut().unwrap();
                let later = |a: Option<i64>, b: Option<i64>| match (a, b) {
                    (Some(x), Some(y)) => Some(x.max(y)),
                    _ => None,
                };
                old.e_stmt = later(old.e_stmt, fresh.e_stmt);
                old.e_capped = later(old.e_capped, fresh.e_capped);
                old.faithful = false;
            } else {
                self.m.lease = Some(fresh);
            }
            if renewed {
                self.m.labels |= L_LEASE_RENEWED;
            }
        }
        let xid = self.xid_value(s.xid);
        self.say(|| format!("server -> {:?} xid={:08x} acceptable-per-statement={}", s, xid, if failed.is_empty() { "yes".to_string() } else { format!("no{:?}", failed) }));
        ctx.delivered.push((*s, failed));
    }

    /// Signature suffix only (never part of a verdict): does the socket-set image show the DHCP
    /// socket silenced by the interface's neighbour-discovery back-off (`socket_meta.rs`,
    /// `NeighborState::Waiting`) after a unicast renewal REQUEST could not leave?
    fn silenced(&self) -> bool {
        format!("{:?}", self.sockets).contains("Waiting")
    }
    fn blocked(&self) -> bool {
        self.dev.tx_budget == Some(0)
    }
    fn cause(&self) -> &'static str {
        if self.silenced() {
            "socket-silenced-after-unsendable-renew"
        } else {
            "plain"
        }
    }

    fn observe_tx(&mut self, t: i64, f: &[u8], out: &mut Vec<Viol>, solicited: &mut bool) {
        match parse_tx(f) {
            Tx::ArpRequest { spa, tpa } => {
                self.say(|| format!("client -> ARP who-has {} tell {}", ip4(tpa), ip4(spa)));
                {
                    self.m.arp_pending = Some((spa, tpa));
                    // LENIENT: an ARP request while bound (for the server the OFFER came from, or
                    // for the router towards it; nothing else on this interface needs one) is the
                    // visible part of a unicast renewal attempt whose REQUEST cannot leave
                    // without the answer
                    if self.m.reported.is_some() {
                        if let Some(l) = self.m.lease.as_mut() {
                            l.renew_seen = true;
                        }
                    }
                }
            }
            Tx::Dhcp(c) => {
                if self.m.latest_xid != Some(c.xid) {
                    if self.m.latest_xid.is_some() {
                        self.m.earlier_xid = self.m.latest_xid;
                    }
                    self.m.xids.push(c.xid);
                }
                self.m.latest_xid = Some(c.xid);
                self.m.latest_type = c.typ;
                if c.typ == 3 {
                    self.m.last_req_xid = Some(c.xid);
                }
                let renewal = c.typ == 3 && c.ciaddr != [0; 4];
                let bc = c.ip_dst == BCAST;
                self.say(|| {
                    format!(
                        "client -> {} xid={:08x} ciaddr={} ip {}->{} eth-dst={}{}",
                        match c.typ {
                            1 => "DISCOVER",
                            3 => "REQUEST",
                            _ => "type?",
                        },
                        c.xid,
                        ip4(c.ciaddr),
                        ip4(c.ip_src),
                        ip4(c.ip_dst),
                        hex(&c.eth_dst),
                        if renewal { if bc { " (rebind)" } else { " (renew)" } } else { "" }
                    )
                });
                if c.typ == 1 || (c.typ == 3 && !renewal) {
                    *solicited = true;
                    self.m.unconf_ref = t;
                    self.m.nosol_pollats = 0;
                }
                if renewal {
                    let tainted = self.m.tainted;
                    let past = self.m.lease.as_ref().and_then(|l| l.e_stmt).is_some_and(|e| t >= e);
                    let cause = if past { self.cause() } else { "" };
                    // LENIENT: a renewal attempt that cannot leave the interface (no route because
                    // the user could not yet apply the address in the poll that delivered the ACK,
                    // or neighbour discovery rate-limited) puts no frame on the wire; the `Waiting`
                    // image of the socket meta (it persists until the neighbour is discovered) is
                    // taken as evidence that such an attempt was made.  This can only suppress
                    // order/attempt verdicts, never create one.
                    let invisible_attempt = bc && self.m.lease.as_ref().is_some_and(|l| !l.renew_seen) && self.silenced();
                    if let Some(l) = self.m.lease.as_mut() {
                        if let Some(e) = l.e_stmt {
                            if t >= e && !tainted {
                                out.push(Viol::new(
                                    format!("C18/renew/request-after-expiry/{}", if bc { "rebind" } else { "renew" }),
                                    format!("DHCPREQUEST with ciaddr {} sent at {} but the lease granted by the most recent acceptable ACK expired at {} ({})", ip4(c.ciaddr), tsec(t), tsec(e), cause),
                                ));
                            }
                        }
                        if bc {
                            if invisible_attempt {
                                l.renew_seen = true;
                            }
                            if !l.renew_seen {
                                if l.t2only {
                                    self.m.labels |= L_T2ONLY_NO_RENEW;
                                }
                                if l.order_demanded && l.faithful && !tainted {
                                    out.push(Viol::new(
                                        "C18/renew/rebind-before-renew",
                                        format!("broadcast rebind REQUEST at {} although no renewal attempt (unicast REQUEST or ARP for the server) was made in this lease and the clock never skipped a poll_at instant", tsec(t)),
                                    ));
                                }
                            }
                            l.rebind_seen = true;
                        } else {
                            l.renew_seen = true;
                        }
                    }
                }
            }
            Tx::Other => {
                self.say(|| format!("client -> other frame {}", hex(&f[..f.len().min(24)])));
            }
        }
    }

    /// One `Interface::poll` at `self.now` + drain of socket events + all per-poll oracles.
    fn poll_step(&mut self, ctx: &PollCtx, out: &mut Vec<Viol>) -> bool {
        let ts = Instant::from_micros(self.now);
        if self.blocked() {
            if let Some(l) = self.m.lease.as_mut() {
                l.faithful = false;
            }
            // LENIENT: "keeps soliciting at bounded intervals" is only demanded while the device
            // accepts frames; the back-off reference restarts when the back-pressure is lifted
            self.m.unconf_ref = self.now;
            self.m.nosol_pollats = 0;
        }
        if self.dead {
            return false;
        }
        let r = {
            let (iface, dev, sockets) = (&mut self.iface, &mut self.dev, &mut self.sockets);
            std::panic::catch_unwind(std::panic::AssertUnwindSafe(|| {
                iface.poll(ts, dev, sockets);
            }))
        };
        if let Err(e) = r {
            // a client that panics inside poll can neither renew nor give the address up
            let msg = panic_msg(e);
            let site = panic_site();
            self.say(|| format!("PANIC inside Interface::poll: {} at {}", msg, last_panic_loc()));
            out.push(Viol::new(
                format!("C18/panic/{}", site),
                format!("Interface::poll panicked at {} (now {}, reported {:?}): {}", last_panic_loc(), tsec(self.now), self.m.reported, msg),
            ));
            self.dead = true;
            self.pa = None;
            return false;
        }
        let frames = self.dev.take_tx();
        let mut solicited = false;
        for (t, f) in frames {
            self.observe_tx(t, &f, out, &mut solicited);
        }
        // drain events
        loop {
            let ev = {
                let s = self.sockets.get_mut::<dhcpv4::Socket>(self.handle);
                match s.poll() {
                    None => None,
                    Some(dhcpv4::Event::Deconfigured) => Some(None),
                    Some(dhcpv4::Event::Configured(c)) => Some(Some((c.address, c.router))),
                }
            };
            match ev {
                None => break,
                Some(None) => {
                    self.say(|| "event Deconfigured".to_string());
                    if self.m.reported.is_some() {
                        // lease-end bookkeeping
                        if ctx.nak {
                            self.m.labels |= L_NAK_DECONF;
                        } else {
                            self.m.labels |= L_EXPIRED;
                        }
                        if let Some(l) = self.m.lease.clone() {
                            // "attempts renewal before rebinding before expiry": demanded for a
                            // silent server, a clock that followed poll_at, a granted (and capped)
                            // lease of at least 10 minutes (LENIENT: shorter leases interact with
                            // the documented minimum retry interval).
                            // "silent" includes this very poll: a Deconfigured in a poll that
                            // delivered a server message (NAK, bursts) is not an expiry.
                            // With no answer after the ACK the client must send at least one
                            // renewal (unicast) and at least one rebinding (broadcast) REQUEST
                            // strictly before the lease ends (a REQUEST at/after expiry is
                            // C18/renew/request-after-expiry).  The rebinding half is judged for
                            // every T1/T2 shape, the renewal half unless T2 came alone.
                            // LENIENT: not while the interface holds the socket back after an
                            // unanswered ARP (`Waiting` image): the 1 s silence can cover a
                            // rebinding instant less than a second before expiry.
                            if !ctx.any_dhcp && l.silent && l.faithful && !self.m.tainted && l.secs_capped.is_some_and(|s| s >= 600) {
                                self.m.labels |= L_RUN_FULL_LEASE;
                                if l.order_demanded && !l.renew_seen && !self.silenced() {
                                    out.push(Viol::new("C18/renew/no-renew-attempt-before-expiry", format!("lease of {:?} s ended at {} without any renewal attempt although the server was silent and the client was polled at every poll_at", l.secs_capped, tsec(self.now))));
                                }
                                if !l.rebind_seen && !self.silenced() {
                                    out.push(Viol::new("C18/renew/no-rebind-attempt-before-expiry", format!("lease of {:?} s ended at {} without any rebind attempt although the server was silent and the client was polled at every poll_at", l.secs_capped, tsec(self.now))));
                                }
                            }
                        }
                        if let Some(l) = self.m.lease.clone() {
                            // Weak form for every lease "long enough for T1 to exist": silent
                            // server, clock following poll_at, device never blocked, and the
                            // granted lease after the max_lease cap is at least 10 s (LENIENT:
                            // far above the 1 s neighbour-discovery silence and sub-second T1 of
                            // tiny leases): the address must not be given up without a single
                            // renewal-type REQUEST (unicast renew, broadcast rebind, or the ARP
                            // request for the server that precedes a unicast renew).  Judged
                            // whatever T1/T2 options the ACK carried.
                            if !ctx.any_dhcp && l.silent && l.faithful && !self.m.tainted && l.secs_capped.is_some_and(|s| s >= 10) {
                                self.m.labels |= L_RUN_ANY_REQUEST;
                                if !l.renew_seen && !l.rebind_seen && !self.silenced() {
                                    out.push(Viol::new(
                                        "C18/renew/no-request-before-expiry",
                                        format!("lease of {:?} s (after the max_lease cap) ended at {} without a single renewal or rebinding REQUEST although the server was silent, the device accepted frames and the client was polled at every poll_at", l.secs_capped, tsec(self.now)),
                                    ));
                                }
                            }
                        }
                        self.m.unconf_ref = self.now;
                        self.m.nosol_pollats = 0;
                    }
                    self.m.reported = None;
                    self.iface.update_ip_addrs(|a| a.clear());
                    self.iface.routes_mut().remove_default_ipv4_route();
                }
                Some(Some((addr, router))) => {
                    let got = (addr.address().octets(), addr.prefix_len());
                    self.say(|| format!("event Configured {}/{} router={:?}", ip4(got.0), got.1, router));
                    // clause 1
                    let acc: Vec<&MsgSpec> = ctx.delivered.iter().filter(|d| d.1.is_empty()).map(|d| &d.0).collect();
                    let mut legit = true;
                    if acc.is_empty() {
                        legit = false;
                        let acks: Vec<&(MsgSpec, Vec<&'static str>)> = ctx.delivered.iter().filter(|d| d.0.typ == MT::Ack).collect();
                        let cause = match acks.last() {
                            None => "no-ack-delivered".to_string(),
                            Some(d) => d.1.join("+"),
                        };
                        out.push(Viol::new(
                            format!("C18/configured/{}", cause),
                            format!("Configured({}/{}) reported at {} but the poll delivered {:?}: no DHCPACK meeting all acceptance conditions of the statement", ip4(got.0), got.1, tsec(self.now), ctx.delivered.iter().map(|d| format!("{:?} failing {:?}", d.0, d.1)).collect::<Vec<_>>()),
                        ));
                    } else if got != (YI_UNI, 24) {
                        // every acceptable ACK of the alphabet carries yiaddr YI_UNI, mask /24
                        legit = false;
                        out.push(Viol::new("C18/configured/address-differs-from-ack", format!("Configured({}/{}) but the ACK carried {}/24", ip4(got.0), got.1, ip4(YI_UNI))));
                    }
                    if !legit {
                        self.m.tainted = true;
                    }
                    self.m.reported = Some(got);
                    // apply the configuration like examples/dhcp_client.rs (documented duty of
                    // the user).  Guard: never hand a non-unicast address to update_ip_addrs
                    // (it panics by contract); such an address was reported above already.
                    if Ipv4Address::from(got.0).is_multicast() || got.0 == BCAST || got.0 == [0; 4] {
                        continue;
                    }
                    self.iface.update_ip_addrs(|a| {
                        a.clear();
                        a.push(IpCidr::Ipv4(Ipv4Cidr::new(addr.address(), addr.prefix_len()))).unwrap();
                    });
                    match router {
                        Some(r) => {
                            let _ = self.iface.routes_mut().add_default_ipv4_route(r);
                        }
                        None => {
                            self.iface.routes_mut().remove_default_ipv4_route();
                        }
                    }
                }
            }
        }
        // LENIENT: while an ARP request for the server is unanswered the interface holds the
        // socket back (socket_meta.rs) and a unicast renewal cannot be demanded; neighbour
        // discovery in progress counts as the renewal attempt of the current lease, also when
        // the request predates the ACK that started this lease.
        if self.m.arp_pending.is_some() {
            if let Some(l) = self.m.lease.as_mut() {
                l.renew_seen = true;
            }
        }
        // clause 2a: not reporting past expiry
        if let (Some(rep), Some(l)) = (self.m.reported, self.m.lease.as_ref()) {
            if let Some(e) = l.e_stmt {
                if self.now >= e && !self.m.tainted {
                    out.push(Viol::new(
                        format!("C18/lease/reported-past-expiry/{}", self.cause()),
                        format!("poll at {} (>= expiry {} of the lease granted by the most recent acceptable ACK) did not produce Deconfigured; {}/{} still reported", tsec(self.now), tsec(e), ip4(rep.0), rep.1),
                    ));
                }
            }
        }
        if self.m.reported.is_none() {
            self.m.lease = None;
        }
        self.check_poll_at(out);
        solicited
    }

    fn poll_at(&mut self) -> Option<i64> {
        self.iface.poll_at(Instant::from_micros(self.now), &self.sockets).map(|i| i.total_micros())
    }

    fn check_poll_at(&mut self, out: &mut Vec<Viol>) {
        let pa = self.poll_at();
        self.pa = pa;
        match self.m.reported {
            Some(_) => {
                if self.m.tainted {
                    return;
                }
                if let Some(e) = self.m.lease.as_ref().and_then(|l| l.e_stmt) {
                    if self.now < e {
                        match pa {
                            None => out.push(Viol::new("C18/lease/poll-at-none-while-configured", format!("Interface::poll_at is None at {} while a lease expiring at {} is held", tsec(self.now), tsec(e)))),
                            Some(p) if p > e => out.push(Viol::new(
                                format!("C18/lease/poll-at-beyond-expiry/{}", self.cause()),
                                format!("Interface::poll_at = {} at {} exceeds the lease expiry {}", tsec(p), tsec(self.now), tsec(e)),
                            )),
                            _ => {}
                        }
                    }
                }
            }
            None if self.blocked() => {}
            None => match pa {
                None => out.push(Viol::new("C18/solicit/poll-at-none", format!("unconfigured at {} and Interface::poll_at is None: the client stopped soliciting", tsec(self.now)))),
                Some(p) if p > self.now && p > self.m.unconf_ref + self.backoff => out.push(Viol::new(
                    "C18/solicit/poll-at-beyond-backoff",
                    format!("unconfigured; last solicitation/deconfiguration at {}, poll_at = {} is later than the configured maximum back-off of {} us allows", tsec(self.m.unconf_ref), tsec(p), self.backoff),
                )),
                _ => {}
            },
        }
    }

    /// advance the clock; a jump beyond the client's poll_at makes the current lease "unfaithful"
    fn advance_to(&mut self, t: i64) {
        if t <= self.now {
            return;
        }
        let pa = self.poll_at();
        if let Some(l) = self.m.lease.as_mut() {
            // every event ends with a poll at `now`, so a poll_at that is not in the future
            // means the client had its chance at this instant and asks for nothing later:
            // only jumping over a FUTURE wake-up (or having none) makes the lease unfaithful
            match pa {
                Some(p) if p <= self.now || t <= p => {}
                _ => l.faithful = false,
            }
        }
        self.now = t;
    }

    fn deliver_arp_reply(&mut self) {
        if let Some((spa, tpa)) = self.m.arp_pending.take() {
            let f = self.build_arp_reply(spa, tpa);
            self.say(|| format!("server -> ARP reply {} is-at {}", ip4(tpa), hex(&SERVER_MAC)));
            self.dev.rx.push_back(f);
        }
    }

    fn set_dynamic_labels(&mut self) {
        let mut l = self.m.labels & !(L_CONFIGURED | L_RENEW_SEEN | L_REBIND_SEEN | L_REQUESTING | L_TAINTED);
        if self.m.reported.is_some() {
            l |= L_CONFIGURED;
            if let Some(le) = &self.m.lease {
                if le.renew_seen {
                    l |= L_RENEW_SEEN;
                }
                if le.rebind_seen {
                    l |= L_REBIND_SEEN;
                }
            }
        } else if self.m.latest_type == 3 {
            l |= L_REQUESTING;
        }
        if self.m.tainted {
            l |= L_TAINTED;
        }
        self.m.labels = l;
    }
}


const EVENT_SCOPED: u32 = L_EXPIRED | L_NAK_DECONF | L_LEASE_RENEWED | L_RUN_CAPPED | L_T2ONLY_NO_RENEW | L_RUN_FULL_LEASE | L_RUN_ANY_REQUEST;

impl Harness for DhcpH {
    type Cfg = Cfg;
    type Ev = Ev;

    fn new(cfg: &Cfg) -> Self {
        let mut dev = SimDevice::new(Medium::Ethernet, 1514);
        let mut config = Config::new(HardwareAddress::Ethernet(EthernetAddress(CLIENT_MAC)));
        config.random_seed = 0x5eed_0c18;
        let iface = Interface::new(config, &mut dev, Instant::from_micros(0));
        let mut sock = dhcpv4::Socket::new();
        let rc = retry_config(cfg.retry_short);
        sock.set_retry_config(rc);
        sock.set_max_lease_duration(cfg.max_lease.map(|s| Duration::from_secs(s as u64)));
        sock.set_ignore_naks(cfg.ignore_naks);
        let mut sockets = SocketSet::new(vec![]);
        let handle = sockets.add(sock);
        let mut h = DhcpH {
            cfg: cfg.clone(),
            backoff: max_backoff_us(&rc),
            dev,
            iface,
            sockets,
            handle,
            now: 0,
            m: Model {
                latest_xid: None,
                latest_type: 0,
                earlier_xid: None,
                last_req_xid: None,
                xids: vec![],
                reported: None,
                tainted: false,
                lease: None,
                unconf_ref: 0,
                nosol_pollats: 0,
                arp_pending: None,
                labels: 0,
            },
            pending: vec![],
            pa: None,
            dead: false,
            hist_hash: 0x9e37_79b9_7f4a_7c15,
            log: vec![],
        };
        // initial state = after the first poll at t=0 (the first DISCOVER is on the wire)
        let mut v = vec![];
        h.poll_step(&PollCtx::default(), &mut v);
        h.set_dynamic_labels();
        h.pending = v;
        h
    }

    fn enabled(&self) -> Vec<(Ev, u32)> {
        // after a clause-1 violation the lease clock no longer describes what the client holds
        // and every later verdict is suppressed: nothing left to check on this branch
        if self.m.tainted || self.dead {
            return vec![];
        }
        let mut v: Vec<(Ev, u32)> = alphabet(self.cfg.alpha, self.m.earlier_xid.is_some(), self.cfg.max_lease).into_iter().map(|m| (Ev::Msg(m), 1)).collect();
        for b in bursts() {
            v.push((Ev::Burst(b), 1));
        }
        if self.m.arp_pending.is_some() {
            v.push((Ev::ArpReply, 1));
        }
        if self.pa.is_some() {
            v.push((Ev::ToPollAt, 0));
        }
        v.push((Ev::Plus1s, 1));
        if self.m.reported.is_some() {
            if let Some(l) = &self.m.lease {
                if let Some(e) = l.e_stmt {
                    for d in [-1, 0, 1] {
                        if e + d > self.now {
                            v.push((Ev::ToExpiry(d), 1));
                        }
                    }
                }
                if let Some(e) = l.e_capped {
                    if l.e_capped != l.e_stmt {
                        for d in [-1, 0, 1] {
                            if e + d > self.now {
                                v.push((Ev::ToCappedExpiry(d), 1));
                            }
                        }
                    }
                }
            }
            // (a silent run under back-pressure would only spin on a poll_at in the past)
            if !self.blocked() {
                v.push((Ev::RunSilent(true), 1));
                v.push((Ev::RunSilent(false), 1));
            }
        }
        if self.cfg.bp {
            v.push((if self.blocked() { Ev::UnblockTx } else { Ev::BlockTx }, 1));
        }
        v
    }

    fn apply(&mut self, ev: &Ev, out: &mut Vec<Viol>) {
        out.append(&mut self.pending);
        self.m.labels &= !EVENT_SCOPED;
        self.hist_hash = {
            use std::hash::{Hash, Hasher};
            let mut hh = std::collections::hash_map::DefaultHasher::new();
            self.hist_hash.hash(&mut hh);
            ev.hash(&mut hh);
            hh.finish()
        };
        if VERBOSE.load(Ordering::Relaxed) {
            let l = format!("--- event: {:?}", ev);
            self.log.push(l);
        }
        match ev {
            Ev::Msg(s) => {
                let f = self.build_frame(s);
                let mut ctx = PollCtx::default();
                self.model_deliver(s, &mut ctx);
                self.dev.rx.push_back(f);
                self.poll_step(&ctx, out);
            }
            Ev::Burst(v) => {
                let mut ctx = PollCtx::default();
                for s in v {
                    let f = self.build_frame(s);
                    self.model_deliver(s, &mut ctx);
                    self.dev.rx.push_back(f);
                }
                self.poll_step(&ctx, out);
            }
            Ev::ArpReply => {
                self.deliver_arp_reply();
                self.poll_step(&PollCtx::default(), out);
            }
            Ev::ToPollAt => {
                let was_unconf = self.m.reported.is_none();
                if let Some(p) = self.pa {
                    self.advance_to(p);
                }
                let sol = self.poll_step(&PollCtx::default(), out);
                if was_unconf && self.m.reported.is_none() && !sol && !self.blocked() && !self.dead {
                    self.m.nosol_pollats += 1;
                    if self.m.nosol_pollats >= 3 {
                        out.push(Viol::new("C18/solicit/stuck", format!("unconfigured client polled 3 times in a row exactly at Interface::poll_at (now {}) without sending DISCOVER or REQUEST", tsec(self.now))));
                        self.m.nosol_pollats = 3;
                    }
                }
            }
            Ev::Plus1s => {
                self.advance_to(self.now + US);
                self.poll_step(&PollCtx::default(), out);
            }
            Ev::ToExpiry(d) => {
                if let Some(e) = self.m.lease.as_ref().and_then(|l| l.e_stmt) {
                    self.advance_to(e + d);
                }
                self.poll_step(&PollCtx::default(), out);
            }
            Ev::ToCappedExpiry(d) => {
                if let Some(e) = self.m.lease.as_ref().and_then(|l| l.e_capped) {
                    self.advance_to(e + d);
                }
                self.poll_step(&PollCtx::default(), out);
            }
            Ev::BlockTx => {
                self.dev.tx_budget = Some(0);
                self.say(|| "device: transmit() refuses from now on".to_string());
                self.poll_step(&PollCtx::default(), out);
            }
            Ev::UnblockTx => {
                self.dev.tx_budget = None;
                self.say(|| "device: transmit() accepts again".to_string());
                self.m.unconf_ref = self.now;
                self.poll_step(&PollCtx::default(), out);
            }
            Ev::RunSilent(arp) => {
                let mut n = 0;
                while self.m.reported.is_some() && !self.dead {
                    if n >= RUN_CAP {
                        self.m.labels |= L_RUN_CAPPED;
                        break;
                    }
                    n += 1;
                    let Some(p) = self.pa else { break };
                    self.advance_to(p);
                    self.poll_step(&PollCtx::default(), out);
                    if *arp && self.m.arp_pending.is_some() && self.m.reported.is_some() {
                        self.deliver_arp_reply();
                        self.poll_step(&PollCtx::default(), out);
                    }
                }
            }
        }
        self.set_dynamic_labels();
    }

    fn fingerprint(&self) -> u128 {
        let s = self.fp_string();
        let fp = fp128(&s);
        if let Some(m) = LABELS.lock().unwrap().as_mut() {
            *m.0.entry(fp).or_insert(0) |= self.m.labels;
            *m.1.entry(self.hist_hash).or_insert(0) |= self.m.labels;
        }
        fp
    }
}

/// Replace every `Instant { micros: N }` by its distance to `now`.  Everything in the
/// socket / neighbour cache / socket meta compares instants with "now" only through
/// `<`, `<=`, `>=` (dhcpv4.rs dispatch/poll_at, neighbor.rs lookup, socket_meta.rs), and
/// the two subtractions in dhcpv4::dispatch are only evaluated for instants in the future,
/// so all instants <= now are equivalent and the behaviour is invariant under a common
/// shift of the clock.
fn norm_instants(s: &str, now: i64, out: &mut String) {
    const K: &str = "Instant { micros: ";
    let mut rest = s;
    while let Some(i) = rest.find(K) {
        out.push_str(&rest[..i]);
        let after = &rest[i + K.len()..];
        let end = after.find(' ').unwrap_or(after.len());
        let n: i64 = after[..end].parse().unwrap_or(0);
        let rel = n.saturating_sub(now);
        if rel <= 0 {
            out.push_str("T<=now");
        } else {
            let _ = write!(out, "T+{}", rel);
        }
        rest = &after[end..];
        if let Some(r) = rest.strip_prefix(" }") {
            rest = r;
        }
    }
    out.push_str(rest);
}
/// cut `key<digits>` down to `key#`
fn strip_number(s: &str, key: &str) -> String {
    match s.find(key) {
        None => s.to_string(),
        Some(i) => {
            let after = &s[i + key.len()..];
            let end = after.find(|c: char| !c.is_ascii_digit()).unwrap_or(after.len());
            format!("{}{}#{}", &s[..i], key, &after[end..])
        }
    }
}
fn strip_between(s: &str, from: &str, to: &str) -> String {
    match (s.find(from), s.find(to)) {
        (Some(a), Some(b)) if a < b => format!("{}{}", &s[..a], &s[b..]),
        _ => s.to_string(),
    }
}

impl DhcpH {
    fn fp_string(&self) -> String {
        let mut out = String::with_capacity(2048);
        // The numeric xid only ever takes part in equality tests against xids of incoming
        // messages, which the explorer chooses by RELATION to the client's history (latest /
        // earlier / foreign); the relations are part of the model image below.  Hence the xid
        // value, the PRNG state it is drawn from and the IPv4 ident counter (only copied into
        // emitted headers) are stripped.
        let socks = strip_number(&format!("{:?}", self.sockets), "transaction_id: ");
        norm_instants(&socks, self.now, &mut out);
        let dig = self.iface.verif_digest();
        let dig = strip_between(&dig, " ipv4_id=", " tag=");
        let dig = strip_between(&dig, " rand=", " slaac_enabled=");
        out.push('|');
        norm_instants(&dig, self.now, &mut out);
        let m = &self.m;
        let rel = |t: i64| (t - self.now).max(-1);
        let _ = write!(
            out,
            "|M dead={} blocked={} earlier={} req={} req_is_latest={} req_is_earlier={} lt={} rep={:?} taint={} unconf_age={} nosol={} arp={:?}",
            self.dead,
            self.blocked(),
            m.earlier_xid.is_some(),
            m.last_req_xid.is_some(),
            m.last_req_xid.is_some() && m.last_req_xid == m.latest_xid,
            m.last_req_xid.is_some() && m.last_req_xid == m.earlier_xid,
            m.latest_type,
            m.reported,
            m.tainted,
            if m.reported.is_none() { self.now - m.unconf_ref } else { 0 },
            m.nosol_pollats,
            m.arp_pending,
        );
        if let Some(l) = &m.lease {
            let _ = write!(
                out,
                " L e={:?} ec={:?} big={} ord={} t2o={} rn={} rb={} f={} s={}",
                l.e_stmt.map(rel),
                l.e_capped.map(rel),
                l.secs_capped.is_some_and(|s| s >= 600),
                l.order_demanded,
                l.t2only,
                l.renew_seen,
                l.rebind_seen,
                l.faithful,
                l.silent
            );
        }
        out
    }
}

// ---------------------------------------------------------------------------------------
// scripted narration (evidence samples, replay)
// ---------------------------------------------------------------------------------------

/// Replay a list of event names (their `{:?}` image) and return the wire/event log.
fn narrate_script(cfg: &Cfg, script: &[&str]) -> Result<(Vec<String>, Vec<Viol>), String> {
    VERBOSE.store(true, Ordering::SeqCst);
    let mut h = DhcpH::new(cfg);
    let mut viols = vec![];
    for name in script {
        let en = h.enabled();
        let Some((ev, _)) = en.into_iter().find(|(e, _)| format!("{:?}", e) == *name) else {
            VERBOSE.store(false, Ordering::SeqCst);
            return Err(format!("script event {:?} not enabled", name));
        };
        h.apply(&ev, &mut viols);
    }
    VERBOSE.store(false, Ordering::SeqCst);
    Ok((std::mem::take(&mut h.log), viols))
}

fn narrate_choices(cfg: &Cfg, choices: &[u16]) -> (Vec<String>, Vec<Viol>) {
    VERBOSE.store(true, Ordering::SeqCst);
    let r = replay_choices::<DhcpH>(cfg, choices, false);
    VERBOSE.store(false, Ordering::SeqCst);
    match r {
        Ok(mut r) => (r.h.as_mut().map(|h| std::mem::take(&mut h.log)).unwrap_or_default(), r.viols),
        Err(e) => (vec![format!("machinery: {}", e)], vec![]),
    }
}

// ---------------------------------------------------------------------------------------
// entry points
// ---------------------------------------------------------------------------------------

pub fn run(tier: Tier) -> i32 {
    let mut rep = Report::new("C18", tier);
    rep.assumptions.push("stimulus frames are built with smoltcp::wire emitters (trusted for building, not as oracle); what the client sends is read with an independent parser (RFC 826/951/2131 offsets); a panic inside Interface::poll is isolated with catch_unwind and reported as C18/panic/<file>".into());
    rep.assumptions.push("one dhcpv4::Socket on one Ethernet interface; the harness applies Configured/Deconfigured to the interface exactly like examples/dhcp_client.rs; device back-pressure (transmit() refusing every frame between a block-tx and an unblock-tx event) is an event dimension in the configurations marked bp: true, elsewhere the device never refuses".into());
    rep.assumptions.push("server messages deviate from a well-formed base message in ONE dimension (all values) or in the pair lease x T1/T2 (all values) / unicast x tiny lease; yiaddr values: 192.168.1.42, 255.255.255.255, 0.0.0.0, 224.0.0.1 (subnet-directed broadcast is read as 'unicast', lenient)".into());
    rep.assumptions.push("reference lease = min(lease option, max_lease_duration); an ACK without lease option is bounded by the cap if one is configured, else nothing is demanded; lenient readings: the IPv4 source of a server frame and a missing END option are outside the statement, so an otherwise acceptable ACK from a source other than the server, or cut right after its last option, may be honoured or ignored; if honoured the lease clock uses the values IN the message (Configured after it is legitimate; arriving during a lease, the later of the two expiries counts and order/attempt clauses are dropped for that lease); ACK without lease option and without cap grants nothing checkable; a renewal attempt and renew-before-rebind are demanded unless the ACK carried T2 alone; a rebinding attempt strictly before the end of the lease is demanded for every T1/T2 shape; 'renew and rebind attempted before expiry' only for silent server, clock following poll_at, lease (after the max_lease cap) >= 600 s; weak form 'some renewal-type REQUEST before the address is given up' for capped lease >= 10 s; an ARP request for the server counts as renewal attempt; order/attempt verdicts only for leases during which the device accepted frames all the time, solicitation bound only demanded while the device accepts frames (reference restarts at unblock-tx); back-off bound = max(discover_timeout, initial_request_timeout << ((retries-1)/2)) + 1 s + 1 ms".into());
    rep.assumptions.push("state merging: instants relative to now (all <= now equivalent), xid value / PRNG / IPv4 ident stripped (only relations between xids matter, kept in the model image)".into());

    // quick: singles-only alphabet d<=5 on eight configurations (retry/cap mixes with caps None /
    // 30 s / 600 s, ignore_naks, back-pressure), full alphabet d<=3 on
    // one configuration per cap class;
    // thorough: the full 2x2x2 configuration cube (full alphabet, d<=5; d<=4 with ignore_naks), singles-only d<=8, back-pressure d<=4 (singles d<=7), caps 600/300 d<=5.
    // (The IP-source dimension multiplies the bound states by the four possible server addresses,
    // the optional-ACK variants add an "order/attempt clauses dropped" copy of every lease state.)
    let mut cfgs: Vec<(Cfg, usize)> = vec![];
    if tier == Tier::Quick {
        let c = |retry_short, max_lease, ignore_naks, alpha, bp| Cfg { retry_short, max_lease, ignore_naks, alpha, bp };
        // singles-only alphabet (every single deviation; every seeded defect so far needs one)
        cfgs.push((c(false, None, false, 1, false), 5));
        cfgs.push((c(true, Some(30), false, 1, false), 5));
        cfgs.push((c(false, Some(30), false, 1, false), 5));
        cfgs.push((c(true, None, false, 1, false), 5));
        cfgs.push((c(false, None, true, 1, false), 5));
        cfgs.push((c(false, None, false, 1, true), 5));
        cfgs.push((c(true, Some(30), false, 1, true), 5));
        // a cap long enough for the strong renew-and-rebind clause to be judged on capped leases
        cfgs.push((c(false, Some(600), false, 1, false), 5));
        // full alphabet (pairs) shallow, one configuration per cap class
        cfgs.push((c(false, None, false, 0, false), 3));
        cfgs.push((c(true, Some(30), false, 0, false), 3));
        cfgs.push((c(false, Some(600), false, 0, false), 3));
    } else {
        for ignore_naks in [false, true] {
            for retry_short in [false, true] {
                for max_lease in [None, Some(30)] {
                                        cfgs.push((Cfg { retry_short, max_lease, ignore_naks, alpha: 0, bp: false }, if ignore_naks { 4 } else { 5 }));
                }
            }
        }
        cfgs.push((Cfg { retry_short: false, max_lease: None, ignore_naks: false, alpha: 1, bp: false }, 8));
        cfgs.push((Cfg { retry_short: true, max_lease: Some(30), ignore_naks: false, alpha: 1, bp: false }, 8));
        // device back-pressure as an extra event dimension
        cfgs.push((Cfg { retry_short: false, max_lease: None, ignore_naks: false, alpha: 0, bp: true }, 4));
        cfgs.push((Cfg { retry_short: true, max_lease: Some(30), ignore_naks: false, alpha: 0, bp: true }, 4));
        cfgs.push((Cfg { retry_short: false, max_lease: None, ignore_naks: true, alpha: 1, bp: true }, 7));
        // caps long enough for the strong renew-and-rebind clause to be judged on capped leases
        cfgs.push((Cfg { retry_short: false, max_lease: Some(600), ignore_naks: false, alpha: 0, bp: false }, 5));
        cfgs.push((Cfg { retry_short: true, max_lease: Some(300), ignore_naks: false, alpha: 0, bp: false }, 5));
    }
    let lim = Limits::default();
    let mut per_cfg = vec![];
    let mut alpha_sizes = serde_json::Map::new();
    for (cfg, d) in &cfgs {
        *LABELS.lock().unwrap() = Some((HashMap::new(), HashMap::new()));
        let mut samples = vec![];
        let name = format!("{:?} depth<={}", cfg, d);
        match bfs::<DhcpH>("dhcp", cfg, *d, &lim, &mut rep.found, &mut samples) {
            Ok(st) => {
                rep.absorb(&name, &st);
                let (smap, hmap) = LABELS.lock().unwrap().take().unwrap_or_default();
                let mut counts = serde_json::Map::new();
                let mut hcounts = serde_json::Map::new();
                for (n, bit) in LABEL_NAMES {
                    counts.insert(n.to_string(), json!(smap.values().filter(|v| *v & bit != 0).count()));
                    hcounts.insert(n.to_string(), json!(hmap.values().filter(|v| *v & bit != 0).count()));
                }
                counts.insert("unconfigured".into(), json!(smap.values().filter(|v| *v & L_CONFIGURED == 0).count()));
                hcounts.insert("unconfigured".into(), json!(hmap.values().filter(|v| *v & L_CONFIGURED == 0).count()));
                hcounts.insert("total_histories".into(), json!(hmap.len()));
                per_cfg.push(json!({"config": format!("{:?}", cfg), "depth": d, "states": st.states, "transitions": st.transitions,
                    "per_level": st.per_level, "cap": st.cap_note, "distinct_states_by_outcome": counts,
                    "explored_histories_by_outcome": hcounts}));
                if per_cfg.len() == 1 {
                    rep.samples.extend(samples);
                }
            }
            Err(e) => rep.machinery_errors.push(e),
        }
        let h = DhcpH::new(cfg);
        alpha_sizes.insert(format!("alpha{}{}{}", cfg.alpha, if cfg.bp { "+bp" } else { "" }, cfg.max_lease.map_or(String::new(), |c| format!("+cap{}", c))), json!({
            "server_messages": alphabet(cfg.alpha, true, cfg.max_lease).len(), "bursts": bursts().len(),
            "max_events_enabled_initially": h.enabled().len()}));
    }
    *LABELS.lock().unwrap() = None;
    rep.cov("per_configuration", json!(per_cfg));
    rep.cov("alphabet", json!(alpha_sizes));
    rep.cov("rule", json!("BFS over choice histories replayed on a fresh real Interface+dhcpv4::Socket; from every distinct state every enabled event: each server message of the alphabet (built from the latest client message on the wire; types OFFER/ACK/NAK/DISCOVER/INFORM/REQUEST; xid latest/earlier/foreign; chaddr own/foreign; server-id present/absent; mask /24, 255.0.255.0, absent; yiaddr unicast/broadcast/0/multicast; lease absent,0,1,2,60,600,2^32-1; T1/T2 absent,0/0,equal,inverted (T2<T1<lease),>lease,T1 only,T2 only,valid,tight,(L/2,7L/8) spelled out,(0,L/2),(L/2,L), option 58 alone and option 59 alone each with 0, L/2, L-1, L, L+1 (and = cap in max-lease configurations), and in max-lease configurations (cap-1,cap),(cap,cap+1),(cap+1,L-1) plus a control lease cap-10; router/DNS present/absent; broadcast/unicast delivery; datagram cut right after the last option (no END, no padding) with lease / T1 / T2 / server-id / mask / router as that last option, for OFFER and ACK, the lease-last ACK with every lease value; IPv4 source of the frame = server / 0.0.0.0 / another host of the subnet / an off-subnet host, for OFFER and ACK singly and paired with unicast delivery, no-router, lease 60), 4 two-frame bursts in ONE poll, ARP reply, clock to poll_at, +1 s, expiry-1us/expiry/expiry+1us (reference expiry = min(option, cap) and, where different, the server's uncapped option), silent-server run following poll_at to the end of the lease (ARP answered / not), block-tx / unblock-tx (bp configurations). One Interface::poll + drain of Socket::poll() per event; all oracles after every poll."));

    rep.cov("caps", json!(format!("the silent-server macro event stops after {} polls (enough for a complete 600 s lease with the ARP request repeated every second); runs that hit the cap are counted as run_silent_capped (leases of 2^32-1 s) and make no attempt verdict; no other cap", RUN_CAP)));
    // narrated samples: a full lease life cycle under each retry configuration
    for (cfg, script) in [
        (Cfg { retry_short: false, max_lease: None, ignore_naks: false, alpha: 0, bp: false }, vec!["deliver Offer{ip-src=Unspecified}", "deliver Ack{}", "advance-to-poll_at"]),
        (Cfg { retry_short: false, max_lease: None, ignore_naks: false, alpha: 0, bp: false }, vec!["deliver Offer{ip-src=OffSubnet}", "deliver Ack{}", "run-silent-server(arp-answered=true)"]),
        (Cfg { retry_short: false, max_lease: None, ignore_naks: false, alpha: 0, bp: false }, vec!["deliver Offer{}", "deliver Ack{lease=1}", "advance-to-poll_at", "advance-to-expiry+0us", "advance-to-poll_at"]),
        (Cfg { retry_short: false, max_lease: None, ignore_naks: false, alpha: 0, bp: false }, vec!["deliver Offer{}", "deliver Ack{}", "run-silent-server(arp-answered=true)"]),
        (Cfg { retry_short: true, max_lease: Some(30), ignore_naks: false, alpha: 0, bp: false }, vec!["deliver Offer{}", "deliver Ack{}", "run-silent-server(arp-answered=false)", "advance-to-poll_at"]),
        (Cfg { retry_short: false, max_lease: None, ignore_naks: false, alpha: 0, bp: false }, vec!["advance-to-poll_at", "deliver Offer{xid=Earlier}", "deliver Offer{}", "deliver Ack{lease=60 T1/T2=Valid(Some(15),Some(30))}", "advance-to-poll_at", "arp-reply", "deliver Ack{lease=2}", "advance-to-expiry-1us", "advance-to-expiry+0us"]),
    ] {
        match narrate_script(&cfg, &script) {
            Ok((log, v)) => rep.samples.push(json!({"config": format!("{:?}", cfg), "script": script, "wire_and_event_log": log,
                "violations": v.iter().map(|x| x.sig.clone()).collect::<Vec<_>>()})),
            // a script is only an illustration; if the tree changed so that one of its events is
            // no longer enabled, say so instead of failing the check
            Err(e) => rep.samples.push(json!({"config": format!("{:?}", cfg), "script": script, "not_applicable": e})),
        }
    }
    // attach a narrated log to every finding
    for f in rep.found.iter_mut() {
        let cfg = parse_cfg(f.replay["config"].as_str().unwrap_or(""));
        let ch: Vec<u16> = f.replay["choices"].as_array().map(|a| a.iter().map(|x| x.as_u64().unwrap_or(0) as u16).collect()).unwrap_or_default();
        let (log, _) = narrate_choices(&cfg, &ch);
        f.replay["wire_and_event_log"] = json!(log);
    }
    rep.finish()
}

pub fn replay(art: &serde_json::Value) -> i32 {
    let cfg = parse_cfg(art["replay"]["config"].as_str().unwrap_or(""));
    let want = art["signature"].as_str().unwrap_or("").to_string();
    let choices: Vec<u16> = art["replay"]["choices"].as_array().map(|a| a.iter().map(|x| x.as_u64().unwrap_or(0) as u16).collect()).unwrap_or_default();
    println!("config: {:?}", cfg);
    let (log, viols) = narrate_choices(&cfg, &choices);
    for l in &log {
        println!("{}", l);
    }
    if viols.is_empty() {
        println!("no violation on replay");
        return 0;
    }
    let mut hit = false;
    for v in &viols {
        println!("violation: {} :: {}", v.sig, v.detail);
        hit |= want.is_empty() || v.sig == want;
    }
    if hit {
        1
    } else {
        println!("(the recorded signature {} did not reoccur)", want);
        0
    }
}
