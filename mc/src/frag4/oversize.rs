//! rx family "oversize trains" (only in the build variant with a 64 KiB reassembly buffer):
//! in-order (and a few other orders of) maximal-size fragment trains whose reassembled payload is
//! at / just above / far above what an IPv4 datagram can carry (header 20 + payload <= 65535).
//!
//! Oracle: no call into the stack panics; a train whose total IP length exceeds 65535 octets has
//! no original datagram, so nothing may be delivered to any socket and no reply may be generated
//! from it; the largest legal train (payload 65515) must be delivered exactly.

use super::wire::*;
use super::*;
use crate::wirecheck as wc;
use std::collections::BTreeMap;

const PIECE: usize = 1480;
const MAX_OFFSET: usize = 8191 * 8;
const UDP_BOUND_PORT: u16 = 1000;
const UDP_CLOSED_PORT: u16 = 4000;
const SPORT: u16 = 3000;

pub(crate) fn enabled() -> bool {
    smoltcp::config::REASSEMBLY_BUFFER_SIZE >= 65535
}

#[derive(Clone, Copy, Debug, PartialEq, Eq, PartialOrd, Ord)]
pub(crate) enum Target {
    UdpClosed,
    UdpBound,
    Raw,
    Echo,
}
impl Target {
    const ALL: [Target; 4] = [Target::UdpClosed, Target::UdpBound, Target::Raw, Target::Echo];
    fn name(self) -> &'static str {
        match self {
            Target::UdpClosed => "udp-closed-port",
            Target::UdpBound => "udp-bound-socket",
            Target::Raw => "raw-socket-proto-253",
            Target::Echo => "icmp-echo-request",
        }
    }
    fn from(s: &str) -> Option<Target> {
        Target::ALL.iter().copied().find(|t| t.name() == s)
    }
    fn proto(self) -> u8 {
        match self {
            Target::UdpClosed | Target::UdpBound => PROTO_UDP,
            Target::Raw => PROTO_RAW,
            Target::Echo => PROTO_ICMP,
        }
    }
}

const ORDERS: [&str; 4] = ["in-order", "last-first", "reverse", "one-duplicate"];

#[derive(Clone, Debug)]
pub(crate) struct Case {
    pub eth: bool,
    pub target: Target,
    /// reassembled IP payload length
    pub total: usize,
    pub order: &'static str,
}

impl Case {
    fn legal(&self) -> bool {
        20 + self.total <= 65535
    }
    fn label(&self) -> String {
        format!(
            "oversize-trains {} {} payload {} (IP total {}{}) {}",
            medium_name(self.eth),
            self.target.name(),
            self.total,
            20 + self.total,
            if self.legal() { ", legal" } else { ", impossible" },
            self.order
        )
    }
    fn to_json(&self) -> Value {
        json!({"part": "rx", "class": "oversize-trains", "medium": medium_name(self.eth), "target": self.target.name(), "total": self.total, "order": self.order, "label": self.label(),
            "note": "replay with the build variant asm32 (VERIF_VARIANT=asm32 ./check C12 --replay ...)"})
    }
    pub fn from_json(r: &Value) -> Option<Case> {
        let o = r["order"].as_str()?;
        Some(Case {
            eth: r["medium"].as_str()? == "ethernet",
            target: Target::from(r["target"].as_str()?)?,
            total: r["total"].as_u64()? as usize,
            order: ORDERS.iter().copied().find(|x| *x == o)?,
        })
    }
    /// maximal-size pieces; the last piece starts at the highest offset the field allows at most
    fn cuts(&self) -> Vec<(usize, usize)> {
        let mut v = vec![];
        let mut off = 0;
        while off + PIECE < self.total && off + PIECE <= MAX_OFFSET {
            v.push((off, PIECE));
            off += PIECE;
        }
        if self.total - off > PIECE {
            // step to the last representable offset first
            v.push((off, MAX_OFFSET - off));
            off = MAX_OFFSET;
        }
        v.push((off, self.total - off));
        v
    }
    fn ip_payload(&self) -> Vec<u8> {
        let t = self.total;
        match self.target {
            Target::UdpClosed | Target::UdpBound => {
                let port = if self.target == Target::UdpBound { UDP_BOUND_PORT } else { UDP_CLOSED_PORT };
                if t <= 65535 {
                    // a UDP datagram that is fine as far as UDP goes (length field = t)
                    udp_datagram(PEER_IP, OUR_IP, SPORT, port, &pattern(t - 8, 5))
                } else {
                    // the length does not fit the UDP length field: field = t mod 2^16, no checksum
                    let mut d = udp_datagram(PEER_IP, OUR_IP, SPORT, port, &pattern(t - 8, 5));
                    d[4] = (t >> 8) as u8;
                    d[5] = t as u8;
                    d[6] = 0;
                    d[7] = 0;
                    d
                }
            }
            Target::Raw => pattern(t, 5),
            Target::Echo => icmp_echo(8, 0x4242, 1, &pattern(t - 8, 5)),
        }
    }
    fn sequence(&self, n: usize) -> Vec<usize> {
        match self.order {
            "last-first" => std::iter::once(n - 1).chain(0..n - 1).collect(),
            "reverse" => (0..n).rev().collect(),
            "one-duplicate" => (0..n).flat_map(|i| if i == n / 2 { vec![i, i] } else { vec![i] }).collect(),
            _ => (0..n).collect(),
        }
    }
}

pub(crate) struct Outcome {
    /// deliveries to the socket: (exact?, length)
    pub deliveries: Vec<(bool, usize)>,
    /// frames the stack emitted (described)
    pub tx: Vec<String>,
}

fn run_case(c: &Case) -> Result<Outcome, String> {
    let mut net = Net::new(c.eth, 1500)?;
    let hu = net.add_udp(UDP_BOUND_PORT, 2, 140_000, 1, 64);
    let hr = net.add_raw(2, 140_000, 1, 64);
    let payload = c.ip_payload();
    let cuts = c.cuts();
    let frs = fragment(0x5500, c.target.proto(), PEER_IP, OUR_IP, &payload, &cuts);
    let seq = c.sequence(frs.len());
    for &i in &seq {
        net.inject(frs[i].clone());
        net.poll();
    }
    for _ in 0..4 {
        net.poll();
    }
    let mut out = Outcome { deliveries: vec![], tx: vec![] };
    for (_, f) in net.dev.take_tx() {
        out.tx.push(match parse_tx_frame(c.eth, &f) {
            Ok(fr) => describe(&fr),
            Err(e) => format!("<{}> {} bytes", e, f.len()),
        });
    }
    loop {
        let s = net.sockets.get_mut::<udp::Socket>(hu);
        let Ok((pl, _)) = s.recv() else { break };
        out.deliveries.push((c.target == Target::UdpBound && pl == &payload[8..], pl.len()));
    }
    loop {
        let s = net.sockets.get_mut::<raw::Socket>(hr);
        let Ok(pkt) = s.recv() else { break };
        let exact = c.target == Target::Raw
            && match wc::parse_ip(pkt) {
                Ok(ip) => ip.src == wc::Addr::V4(PEER_IP) && ip.dst == wc::Addr::V4(OUR_IP) && ip.proto == PROTO_RAW && pkt[ip.payload_off..] == payload[..],
                Err(_) => false,
            };
        out.deliveries.push((exact, pkt.len()));
    }
    Ok(out)
}

/// (violations, outcome class for the evidence)
fn judge(c: &Case, r: Result<Result<Outcome, String>, Box<dyn std::any::Any + Send>>, machinery: &mut Vec<String>) -> (Vec<Viol>, &'static str) {
    let mut v = vec![];
    let label = c.label();
    let out = match r {
        Err(e) => {
            v.push(Viol::new(
                format!("C12/rx/oversize/panic/{}", stable_site(&panic_site())),
                format!("{}: panic while the train was delivered: {} at {}", label, panic_msg(e), last_panic_loc()),
            ));
            return (v, "panic");
        }
        Ok(Err(m)) => {
            machinery.push(format!("{}: {}", label, m));
            return (v, "machinery");
        }
        Ok(Ok(o)) => o,
    };
    if !c.legal() {
        // no IPv4 datagram of that size exists: nothing may come of it
        if !out.deliveries.is_empty() {
            v.push(Viol::new(
                "C12/rx/oversize/delivered-impossible-datagram",
                format!("{}: the socket received {} datagram(s) of {:?} octets reassembled from a train longer than any IPv4 datagram", label, out.deliveries.len(), out.deliveries.iter().map(|d| d.1).collect::<Vec<_>>()),
            ));
            return (v, "delivered");
        }
        if !out.tx.is_empty() {
            v.push(Viol::new(
                "C12/rx/oversize/answered-impossible-datagram",
                format!("{}: the stack answered the impossible datagram (it was reassembled and handed to the upper layer): {}", label, out.tx.join(" | ")),
            ));
            return (v, "answered");
        }
        return (v, "nothing");
    }
    // the largest legal datagram
    match c.target {
        Target::UdpBound | Target::Raw => {
            if out.deliveries.iter().any(|d| !d.0) {
                v.push(Viol::new("C12/rx/oversize/legal-maximum-corrupted", format!("{}: delivered {:?} (exact?, octets)", label, out.deliveries)));
                (v, "corrupted")
            } else if out.deliveries.is_empty() {
                v.push(Viol::new(
                    "C12/rx/oversize/legal-maximum-not-delivered",
                    format!("{}: header+payload = 65535 fits the reassembly buffer of {} and the order needs at most 2 ranges, but nothing was delivered", label, smoltcp::config::REASSEMBLY_BUFFER_SIZE),
                ));
                (v, "nothing")
            } else if out.deliveries.len() > 1 {
                v.push(Viol::new("C12/rx/oversize/legal-maximum-delivered-twice", format!("{}: delivered {} times", label, out.deliveries.len())));
                (v, "delivered-twice")
            } else {
                (v, "delivered-exact")
            }
        }
        // closed port: an ICMP error may be sent; echo: the reply (65535 octets) exceeds the
        // fragmentation buffer and may be dropped as a whole. Nothing demanded beyond "no panic",
        // but nothing may reach the sockets (they are not addressed).
        _ => {
            if !out.deliveries.is_empty() {
                v.push(Viol::new("C12/rx/oversize/legal-maximum-corrupted", format!("{}: a socket that is not addressed received {:?}", label, out.deliveries)));
                (v, "corrupted")
            } else if out.tx.is_empty() {
                (v, "nothing")
            } else {
                (v, "answered")
            }
        }
    }
}

pub(crate) fn cases() -> Vec<Case> {
    let mut v = vec![];
    for eth in [false, true] {
        for target in Target::ALL {
            for total in [65515usize, 65516, 65520, 65528, 65535, 65536, 66000, MAX_OFFSET + PIECE] {
                for order in ORDERS {
                    v.push(Case { eth, target, total, order });
                }
            }
        }
    }
    v
}

pub(crate) fn run(rep: &mut Report) {
    use rayon::prelude::*;
    let cs = cases();
    let results: Vec<(Vec<Viol>, &'static str, Vec<String>, usize)> = cs
        .par_iter()
        .map(|c| {
            let r = std::panic::catch_unwind(std::panic::AssertUnwindSafe(|| run_case(c)));
            let n = c.sequence(c.cuts().len()).len();
            let mut m = vec![];
            let (v, o) = judge(c, r, &mut m);
            (v, o, m, n)
        })
        .collect();
    let mut outcomes: BTreeMap<String, u64> = BTreeMap::new();
    let mut frames = 0u64;
    for (c, (v, o, m, n)) in cs.iter().zip(results.iter()) {
        frames += *n as u64;
        *outcomes.entry(format!("{}/{}/{}", if c.legal() { "legal-maximum" } else { "impossible" }, c.target.name(), o)).or_insert(0) += 1;
        for e in m {
            if rep.machinery_errors.len() < 5 {
                rep.machinery_errors.push(e.clone());
            }
        }
        for viol in v {
            rep.violation(viol.sig.clone(), format!("[rx] {}", viol.detail), c.to_json());
        }
    }
    rep.add_count("states", cs.len() as u64);
    rep.add_count("transitions", cs.len() as u64);
    rep.add_count("evaluations", cs.len() as u64);
    rep.add_count("real_code_steps", frames);
    rep.add_count("distinct_nontrivial", cs.iter().filter(|c| !c.legal()).count() as u64);
    rep.cov(
        "rx_oversize_trains",
        json!({"what": "fragment trains of maximal-size (1480-octet) pieces, identification 0x5500, peer -> us, one poll per fragment; a fresh interface (MTU 1500) with a udp socket bound to port 1000 and a raw socket for protocol 253 (both with 140000-octet receive buffers)",
            "domain": {"media": ["ip", "ethernet"], "targets": Target::ALL.iter().map(|t| t.name()).collect::<Vec<_>>(),
                "reassembled_payload_octets": [65515, 65516, 65520, 65528, 65535, 65536, 66000, MAX_OFFSET + PIECE], "orders": ORDERS,
                "largest_legal_payload": 65515, "highest_fragment_offset": MAX_OFFSET},
            "trains": cs.len(), "fragments_injected": frames, "outcomes(legality/target/outcome)": outcomes,
            "oracle": "no panic in any call; IP total length > 65535: nothing delivered to a socket, no frame emitted in answer; payload 65515 (IP total 65535): bound udp / raw socket get exactly the original once"}),
    );
    if let Some(i) = cs.iter().position(|c| !c.eth && c.target == Target::UdpClosed && c.total == 65520 && c.order == "in-order") {
        rep.samples.push(json!({"part": "rx", "class": "oversize-trains", "case": cs[i].label(), "fragments": cs[i].cuts().len(), "outcome": results[i].1}));
    }
}

pub(crate) fn replay(r: &Value) -> i32 {
    let Some(c) = Case::from_json(r) else {
        eprintln!("MACHINERY ERROR: bad oversize-trains artefact");
        return 2;
    };
    println!("rx case: {}", c.label());
    let cuts = c.cuts();
    println!("  {} fragments, last at offset {} with {} octets; REASSEMBLY_BUFFER_SIZE={}", cuts.len(), cuts[cuts.len() - 1].0, cuts[cuts.len() - 1].1, smoltcp::config::REASSEMBLY_BUFFER_SIZE);
    let res = std::panic::catch_unwind(std::panic::AssertUnwindSafe(|| run_case(&c)));
    if let Ok(Ok(o)) = &res {
        println!("  deliveries (exact?, octets): {:?}; frames emitted: {:?}", o.deliveries, o.tx);
    }
    let mut m = vec![];
    let (v, o) = judge(&c, res, &mut m);
    for e in &m {
        eprintln!("MACHINERY ERROR: {}", e);
    }
    if !m.is_empty() {
        return 2;
    }
    println!("outcome: {}", o);
    if v.is_empty() {
        println!("no violation on replay");
        0
    } else {
        for x in v {
            println!("violation: {} :: {}", x.sig, x.detail);
        }
        1
    }
}
