//! Receiver side (E2): every arrival order of fragment sets built by our own fragmenter.

use super::wire::*;
use super::*;
use crate::wirecheck as wc;
use std::collections::BTreeMap;

const RX_UDP_PORT: u16 = 1000;
const RX_SPORT_BASE: u16 = 3000;

#[derive(Clone, Debug)]
pub(crate) struct Dg {
    pub id: u16,
    /// IP payload length (UDP: header included)
    pub len: usize,
    pub salt: u32,
    /// (offset, len) pieces; may overlap (retransmission with a different split)
    pub cuts: Vec<(usize, usize)>,
    /// IPv4 destination of every fragment of this datagram (ours, or someone else's)
    pub dst: [u8; 4],
    /// UDP source port (udp variant); None = RX_SPORT_BASE + index
    pub sport: Option<u16>,
    /// UDP checksum field 0 = "no checksum" (legal over IPv4)
    pub zero_cksum: bool,
    /// per cut: octets of IPv4 options (NOP padding, multiple of 4) in that fragment's header;
    /// empty = no fragment carries options
    pub opts: Vec<u8>,
}

#[derive(Clone, Debug)]
pub(crate) struct Family {
    pub class: &'static str,
    pub raw: bool,
    pub eth: bool,
    pub dgs: Vec<Dg>,
    /// the multiset of (datagram, cut index) that arrives, sorted; every distinct arrangement is delivered
    pub items: Vec<(u8, u8)>,
    pub label: String,
}

impl Dg {
    fn ip_payload(&self, raw: bool, idx: usize) -> Vec<u8> {
        if raw {
            pattern(self.len, self.salt)
        } else {
            let mut d = udp_datagram(PEER_IP, self.dst, self.sport(idx), RX_UDP_PORT, &pattern(self.len - 8, self.salt));
            if self.zero_cksum {
                d[6] = 0;
                d[7] = 0;
            }
            d
        }
    }
    /// the `c`-th fragment of this datagram as an IPv4 packet (with its options, if any)
    pub(crate) fn frag(&self, proto: u8, payload: &[u8], c: usize) -> Vec<u8> {
        let f = fragment(self.id, proto, PEER_IP, self.dst, payload, &[self.cuts[c]]).pop().unwrap();
        match self.opts.get(c) {
            Some(&n) if n > 0 => with_options(&f, n as usize),
            _ => f,
        }
    }
    fn sport(&self, idx: usize) -> u16 {
        self.sport.unwrap_or(RX_SPORT_BASE + idx as u16)
    }
    fn for_us(&self) -> bool {
        self.dst == OUR_IP
    }
    fn plain(id: u16, len: usize, salt: u32, cuts: Vec<(usize, usize)>) -> Dg {
        Dg { id, len, salt, cuts, dst: OUR_IP, sport: None, zero_cksum: false, opts: vec![] }
    }
    fn to_json(&self) -> Value {
        json!({"id": self.id, "len": self.len, "salt": self.salt, "cuts": self.cuts.iter().map(|c| json!([c.0, c.1])).collect::<Vec<_>>(),
            "dst": self.dst, "sport": self.sport, "zero_cksum": self.zero_cksum, "opts": self.opts})
    }
}

pub(crate) struct RxResult {
    /// per datagram index: number of exact deliveries
    pub exact: Vec<u32>,
    /// deliveries that match no datagram: (cause, text)
    pub bad: Vec<(&'static str, String)>,
    pub tx_frames: usize,
    pub polls: u64,
    pub machinery: Option<String>,
}

/// Deliver the fragments in the given order to a fresh interface, one poll per arrival.
pub(crate) fn run_case(fam: &Family, order: &[u8]) -> RxResult {
    let nd = fam.dgs.len();
    let mut res = RxResult { exact: vec![0; nd], bad: vec![], tx_frames: 0, polls: 0, machinery: None };
    let mut net = match Net::new(fam.eth, 1500) {
        Ok(n) => n,
        Err(e) => {
            res.machinery = Some(e);
            return res;
        }
    };
    let h = if fam.raw { net.add_raw(4, 8192, 1, 64) } else { net.add_udp(RX_UDP_PORT, 4, 8192, 1, 64) };
    let proto = if fam.raw { PROTO_RAW } else { PROTO_UDP };
    let payloads: Vec<Vec<u8>> = fam.dgs.iter().enumerate().map(|(i, d)| d.ip_payload(fam.raw, i)).collect();
    for &it in order {
        let (d, c) = fam.items[it as usize];
        let dg = &fam.dgs[d as usize];
        let f = dg.frag(proto, &payloads[d as usize], c as usize);
        net.inject(f);
        net.poll();
    }
    net.poll();
    res.tx_frames = net.dev.tx.len();
    res.polls = net.polls;
    drain(&mut net, h, fam, &payloads, &mut res);
    res
}

/// take everything out of the socket and classify it against the datagrams of the family
fn drain(net: &mut Net, h: SocketHandle, fam: &Family, payloads: &[Vec<u8>], res: &mut RxResult) {
    for _ in 0..16 {
        if fam.raw {
            let s = net.sockets.get_mut::<raw::Socket>(h);
            let Ok(pkt) = s.recv() else { break };
            let pkt = pkt.to_vec();
            match wc::parse_ip(&pkt) {
                Ok(ip) if ip.version == 4 => {
                    let pl = &pkt[ip.payload_off..];
                    if ip.src != wc::Addr::V4(PEER_IP) || ip.proto != PROTO_RAW {
                        res.bad.push(("wrong-header", format!("raw socket got src={} dst={} proto={}", ip.src, ip.dst, ip.proto)));
                        continue;
                    }
                    // the header destination must be the one of the datagram whose bytes follow
                    let dst = match ip.dst {
                        wc::Addr::V4(a) => a,
                        _ => [0; 4],
                    };
                    classify(fam, payloads, pl, None, Some(dst), res);
                }
                Ok(_) => res.bad.push(("wrong-header", "raw socket got a non-IPv4 packet".into())),
                Err(e) => res.bad.push(("malformed", format!("raw socket got an inconsistent packet: {} ({} bytes)", e, pkt.len()))),
            }
        } else {
            let s = net.sockets.get_mut::<udp::Socket>(h);
            let Ok((pl, meta)) = s.recv() else { break };
            let pl = pl.to_vec();
            let ep = meta.endpoint;
            if ep.addr != IpAddress::v4(PEER_IP[0], PEER_IP[1], PEER_IP[2], PEER_IP[3]) {
                res.bad.push(("wrong-endpoint", format!("udp socket got a datagram from {}", ep)));
                continue;
            }
            classify(fam, payloads, &pl, Some(ep.port), None, res);
        }
    }
}

/// `run_case` with every call into smoltcp isolated: a panic becomes a localised violation
/// `C12/panic/rx/<site>` and the sweep continues with the next case.
pub(crate) fn run_case_caught(fam: &Family, order: &[u8]) -> Result<RxResult, Viol> {
    std::panic::catch_unwind(std::panic::AssertUnwindSafe(|| run_case(fam, order))).map_err(|e| {
        Viol::new(
            format!("C12/panic/rx/{}", stable_site(&panic_site())),
            format!("{}: panic while delivering the fragments: {} at {}", fam.label, panic_msg(e), last_panic_loc()),
        )
    })
}

fn classify(fam: &Family, payloads: &[Vec<u8>], got: &[u8], sport: Option<u16>, hdr_dst: Option<[u8; 4]>, res: &mut RxResult) {
    // what each datagram looks like at the socket: udp socket -> UDP payload (the source port
    // selects the candidates); raw socket -> IP payload, and the re-serialized header must carry
    // the destination of that same datagram
    let cands: Vec<(usize, &[u8])> = match sport {
        Some(p) => payloads.iter().enumerate().filter(|(i, _)| fam.dgs[*i].sport(*i) == p).map(|(i, d)| (i, &d[8..])).collect(),
        None => payloads.iter().enumerate().map(|(i, d)| (i, &d[..])).collect(),
    };
    let dst_ok = |i: usize| hdr_dst.map_or(true, |d| d == fam.dgs[i].dst);
    if let Some((i, _)) = cands.iter().find(|(i, d)| *d == got && dst_ok(*i)) {
        res.exact[*i] += 1;
        return;
    }
    if let Some((i, _)) = cands.iter().find(|(_, d)| *d == got) {
        res.bad.push(("header-of-other-datagram", format!("bytes of datagram {} delivered under destination {:?} (its fragments were sent to {:?})", i, hdr_dst, fam.dgs[*i].dst)));
        return;
    }
    if cands.is_empty() {
        res.bad.push(("wrong-endpoint", format!("datagram from unknown source port {:?}, {} bytes", sport, got.len())));
        return;
    }
    // reference for the diagnosis: the candidate sharing the longest prefix with what was
    // delivered (first one on ties)
    let lcp = |d: &[u8]| (0..got.len().min(d.len())).take_while(|&k| got[k] == d[k]).count();
    let best = cands.iter().map(|(_, d)| lcp(d)).max().unwrap_or(0);
    let (i, want) = cands.iter().find(|(_, d)| lcp(d) == best).unwrap();
    // spliced: every byte comes from one of the candidates at the same position, but not all from one
    if cands.len() > 1 && cands.iter().all(|(_, d)| d.len() == got.len()) && (0..got.len()).all(|k| cands.iter().any(|(_, d)| d[k] == got[k])) {
        let from: Vec<usize> = (0..got.len()).map(|k| cands.iter().find(|(_, d)| d[k] == got[k]).unwrap().0).collect();
        res.bad.push(("spliced-from-two-datagrams", format!("delivered {} bytes are a mix of datagrams (per byte source: {:?})", got.len(), from)));
        return;
    }
    let cause = if got.len() < want.len() {
        "truncated"
    } else if got.len() > want.len() {
        "extended"
    } else {
        "content-differs"
    };
    let pos = (0..got.len().min(want.len())).find(|&k| got[k] != want[k]);
    res.bad.push((cause, format!("datagram {}: socket got {} bytes, original has {}; first differing byte {:?}", i, got.len(), want.len(), pos)));
}

/// Reference model: which datagrams MUST be delivered, and how many deliveries are possible.
/// * a reassembly slot is taken by the first fragment of a key and freed on completion
///   (REASSEMBLY_BUFFER_COUNT slots); a fragment that finds no slot is lost;
/// * the assembler tracks ranges as (hole, data) pairs in ASSEMBLER_MAX_SEGMENT_COUNT slots
///   (src/storage/assembler.rs: a new range that neither touches nor overlaps an existing one
///   needs a new Contig; `add_contig_at`/the append path fail when all are in use), so a
///   fragment is recordable iff the number of disjoint present ranges after adding it is
///   <= the limit. Reading the statement's "gaps the assembler is configured to track" as this
///   number is the lenient one (ranges >= gaps between them).
/// * fragments addressed to another destination take part in the slot accounting like any other
///   datagram: process_ipv4 reassembles BEFORE it filters on the destination address, and the
///   key contains the destination, so they legitimately occupy a slot of their own until they
///   complete. With REASSEMBLY_BUFFER_COUNT=1 a foreign fragment that arrives first holds the only
///   slot and "nothing" is acceptable for our datagram (lenient reading); with >= 2 slots our
///   datagram is always demanded.
/// Delivery is demanded iff no fragment of the datagram was ever lost, the order completes it and
/// header+payload fit REASSEMBLY_BUFFER_SIZE.
pub(crate) fn model(fam: &Family, order: &[u8]) -> (Vec<bool>, Vec<u32>) {
    let slots = smoltcp::config::REASSEMBLY_BUFFER_COUNT;
    let limit = smoltcp::config::ASSEMBLER_MAX_SEGMENT_COUNT;
    let nd = fam.dgs.len();
    let add = |r: &mut Vec<(usize, usize)>, a: usize, b: usize| {
        r.push((a, b));
        r.sort();
        let mut m: Vec<(usize, usize)> = vec![];
        for &(s, e) in r.iter() {
            match m.last_mut() {
                Some(l) if s <= l.1 => l.1 = l.1.max(e),
                _ => m.push((s, e)),
            }
        }
        *r = m;
    };
    // pass 1: no limits -> how many complete covers arrive (upper bound on deliveries)
    let mut max_del = vec![0u32; nd];
    {
        let mut rg: Vec<Vec<(usize, usize)>> = vec![vec![]; nd];
        for &it in order {
            let (d, c) = fam.items[it as usize];
            let (d, c) = (d as usize, c as usize);
            let (o, l) = fam.dgs[d].cuts[c];
            add(&mut rg[d], o, o + l);
            if rg[d] == [(0, fam.dgs[d].len)] {
                max_del[d] += 1;
                rg[d].clear();
            }
        }
    }
    // pass 2: with slots and range limit -> demanded
    let mut used = 0usize;
    let mut in_slot = vec![false; nd];
    let mut lost = vec![false; nd];
    let mut done = vec![false; nd];
    let mut rg: Vec<Vec<(usize, usize)>> = vec![vec![]; nd];
    for &it in order {
        let (d, c) = fam.items[it as usize];
        let (d, c) = (d as usize, c as usize);
        let (o, l) = fam.dgs[d].cuts[c];
        if !in_slot[d] {
            if used < slots {
                used += 1;
                in_slot[d] = true;
            } else {
                if !done[d] {
                    lost[d] = true;
                }
                continue;
            }
        }
        let before = rg[d].clone();
        add(&mut rg[d], o, o + l);
        if rg[d].len() > limit {
            rg[d] = before;
            if !done[d] {
                lost[d] = true;
            }
            continue;
        }
        if rg[d] == [(0, fam.dgs[d].len)] {
            done[d] = true;
            rg[d].clear();
            in_slot[d] = false;
            used -= 1;
        }
    }
    let fits = |d: usize| 20 + fam.dgs[d].len <= smoltcp::config::REASSEMBLY_BUFFER_SIZE;
    ((0..nd).map(|d| done[d] && !lost[d] && fits(d)).collect(), max_del)
}

pub(crate) fn judge(fam: &Family, order: &[u8], res: &RxResult) -> (Vec<Viol>, Vec<bool>) {
    let mut v = vec![];
    let (demanded, max_del) = model(fam, order);
    for (cause, text) in &res.bad {
        v.push(Viol::new(format!("C12/rx/exact/{}", cause), format!("{}: {}", fam.label, text)));
    }
    let mut demanded = demanded;
    for d in 0..fam.dgs.len() {
        if !fam.dgs[d].for_us() {
            // a datagram addressed to someone else: delivery is never demanded. At a udp socket it
            // must never show up. A raw socket is served by `raw_socket_filter` BEFORE the
            // destination filter of process_ipv4 (src/iface/interface/ipv4.rs), i.e. smoltcp's raw
            // sockets see every datagram that reaches the interface: delivered whole and under its
            // own destination it is still "exactly the original datagram" (whether it should be
            // filtered is C11's business) -- lenient reading, counted in the evidence.
            demanded[d] = false;
            if !fam.raw && res.exact[d] > 0 {
                v.push(Viol::new(
                    "C12/rx/exact/datagram-for-other-destination-delivered",
                    format!("{}: datagram {} addressed to {:?} was delivered to the udp socket {} time(s)", fam.label, d, fam.dgs[d].dst, res.exact[d]),
                ));
            }
        }
        if res.exact[d] > max_del[d] {
            v.push(Viol::new(
                "C12/rx/once/delivered-more-often-than-complete-sets-arrived",
                format!("{}: datagram {} delivered {} times, only {} complete set(s) of fragments arrived", fam.label, d, res.exact[d], max_del[d]),
            ));
        }
        if demanded[d] && res.exact[d] == 0 && res.bad.is_empty() {
            v.push(Viol::new(
                format!("C12/rx/deliver/not-delivered-{}", fam.class),
                format!(
                    "{}: datagram {} ({} bytes) was not delivered although the order never needs more than {} ranges / {} slot(s)",
                    fam.label,
                    d,
                    fam.dgs[d].len,
                    smoltcp::config::ASSEMBLER_MAX_SEGMENT_COUNT,
                    smoltcp::config::REASSEMBLY_BUFFER_COUNT
                ),
            ));
        }
    }
    (v, demanded)
}

fn next_permutation(a: &mut [u8]) -> bool {
    if a.len() < 2 {
        return false;
    }
    let mut i = a.len() - 1;
    while i > 0 && a[i - 1] >= a[i] {
        i -= 1;
    }
    if i == 0 {
        return false;
    }
    let mut j = a.len() - 1;
    while a[j] <= a[i - 1] {
        j -= 1;
    }
    a.swap(i - 1, j);
    a[i..].reverse();
    true
}

fn replay_json(fam: &Family, order: &[u8]) -> Value {
    json!({"part": "rx", "class": fam.class, "raw": fam.raw, "medium": medium_name(fam.eth), "label": fam.label,
        "dgs": fam.dgs.iter().map(|d| d.to_json()).collect::<Vec<_>>(),
        "items": fam.items.iter().map(|i| json!([i.0, i.1])).collect::<Vec<_>>(),
        "order": order})
}

fn cuts_of(n: usize, piece: usize, last: usize) -> (usize, Vec<(usize, usize)>) {
    let total = (n - 1) * piece + last;
    (total, even_cuts(total, piece))
}

#[derive(Default)]
struct Tally {
    arrangements: u64,
    frames: u64,
    demanded_delivered: u64,
    demanded_missing: u64,
    free_delivered: u64,
    free_nothing: u64,
    delivered_twice_ok: u64,
    tx_frames: u64,
    foreign_whole_to_raw: u64,
    panics: u64,
}

fn run_family(rep: &mut Report, fam: &Family, tally_by_class: &mut BTreeMap<String, Tally>, samples: &mut Vec<Value>) {
    use rayon::prelude::*;
    let n = fam.items.len();
    // the item multiset: indices into fam.items; equal items (a duplicated fragment) must get the
    // same sort key so that each distinct arrangement is generated once
    let mut keys: Vec<u8> = vec![];
    for (i, it) in fam.items.iter().enumerate() {
        let first = fam.items.iter().position(|x| x == it).unwrap();
        let _ = i;
        keys.push(first as u8);
    }
    keys.sort();
    let mut flat: Vec<u8> = vec![];
    let mut cur = keys.clone();
    loop {
        flat.extend_from_slice(&cur);
        if !next_permutation(&mut cur) {
            break;
        }
    }
    struct R {
        viols: Vec<Viol>,
        exact: Vec<u32>,
        demanded: Vec<bool>,
        tx: usize,
        machinery: Option<String>,
        panicked: bool,
    }
    let results: Vec<R> = flat
        .par_chunks(n)
        .map(|order| match run_case_caught(fam, order) {
            Ok(res) => {
                let (viols, demanded) = judge(fam, order, &res);
                R { viols, exact: res.exact, demanded, tx: res.tx_frames, machinery: res.machinery, panicked: false }
            }
            Err(v) => R { viols: vec![v], exact: vec![0; fam.dgs.len()], demanded: vec![false; fam.dgs.len()], tx: 0, machinery: None, panicked: true },
        })
        .collect();
    let t = tally_by_class.entry(fam.class.to_string()).or_default();
    for (k, r) in results.iter().enumerate() {
        let order = &flat[k * n..(k + 1) * n];
        t.arrangements += 1;
        t.frames += n as u64;
        if r.panicked {
            t.panics += 1;
        }
        t.tx_frames += r.tx as u64;
        for d in 0..fam.dgs.len() {
            match (r.demanded[d], r.exact[d]) {
                (true, 0) => t.demanded_missing += 1,
                (true, _) => t.demanded_delivered += 1,
                (false, 0) => t.free_nothing += 1,
                (false, _) => t.free_delivered += 1,
            }
            if r.exact[d] > 1 {
                t.delivered_twice_ok += 1;
            }
            if !fam.dgs[d].for_us() && fam.raw && r.exact[d] > 0 {
                t.foreign_whole_to_raw += 1;
            }
        }
        if let Some(m) = &r.machinery {
            if rep.machinery_errors.len() < 5 {
                rep.machinery_errors.push(format!("rx {}: {}", fam.label, m));
            }
        }
        for v in &r.viols {
            rep.violation(v.sig.clone(), format!("[rx order {:?}] {}", order.iter().map(|&i| fam.items[i as usize]).collect::<Vec<_>>(), v.detail), replay_json(fam, order));
        }
    }
    if samples.len() < 4 && (fam.class == "range-limit" || fam.class == "with-duplicate" || samples.is_empty()) {
        // one written-out case per interesting class: the last arrangement (descending order)
        let k = results.len() - 1;
        let order = &flat[k * n..(k + 1) * n];
        if !samples.iter().any(|s| s["class"] == fam.class) {
            samples.push(json!({"part": "rx", "class": fam.class, "family": fam.label,
                "arrival_order(datagram,fragment)": order.iter().map(|&i| json!([fam.items[i as usize].0, fam.items[i as usize].1])).collect::<Vec<_>>(),
                "demanded": results[k].demanded, "delivered_exact": results[k].exact}));
        }
    }
}

pub(crate) fn families(tier: Tier) -> Vec<Family> {
    let thorough = tier == Tier::Thorough;
    let limit = smoltcp::config::ASSEMBLER_MAX_SEGMENT_COUNT;
    let mut v = vec![];
    let plain_max = if thorough { 7 } else { 5 };
    let dup_max = if thorough { 6 } else { 4 };
    let one = |class: &'static str, raw: bool, eth: bool, total: usize, cuts: Vec<(usize, usize)>, items: Vec<(u8, u8)>, what: String| Family {
        class,
        raw,
        eth,
        label: format!("{} {} {} {}B {}", class, if raw { "raw" } else { "udp" }, medium_name(eth), total, what),
        dgs: vec![Dg::plain(0x3300, total, 7, cuts)],
        items,
    };
    // --- plain permutations
    for n in 2..=plain_max {
        let mut sets: Vec<(usize, Vec<(usize, usize)>, String)> = vec![];
        for (piece, last) in [(8usize, 8usize), (8, 1), (16, 5), (24, 24)] {
            let (t, c) = cuts_of(n, piece, last);
            sets.push((t, c, format!("{}x{}+{}", n - 1, piece, last)));
        }
        // uneven pieces
        let pieces = [8usize, 24, 16, 8, 40, 16, 8];
        let mut c = vec![];
        let mut off = 0;
        for p in pieces.iter().take(n - 1) {
            c.push((off, *p));
            off += p;
        }
        c.push((off, 3));
        sets.push((off + 3, c, "uneven".into()));
        for (t, c, what) in sets {
            let items: Vec<(u8, u8)> = (0..c.len()).map(|i| (0u8, i as u8)).collect();
            for (raw, eth) in [(false, false), (true, false), (false, true)] {
                if eth && n > 3 {
                    continue;
                }
                v.push(one("plain-permutation", raw, eth, t, c.clone(), items.clone(), what.clone()));
            }
        }
    }
    // --- IPv4 options (IHL > 5) in some of the fragments: the header length of every
    // fragment is its own; every non-empty subset of fragments carries 4 (thorough: also 8, 40)
    // octets of NOP options; all arrival orders
    for n in 2..=(if thorough { 4 } else { 3 }) {
        for (piece, last) in [(8usize, 8usize), (16, 5)] {
            let (t, c) = cuts_of(n, piece, last);
            let items: Vec<(u8, u8)> = (0..c.len()).map(|i| (0u8, i as u8)).collect();
            let optlens: &[u8] = if thorough { &[4, 8, 40] } else { &[4] };
            for &ol in optlens {
                for mask in 1u32..(1 << n) {
                    for raw in [false, true] {
                        let mut dg = Dg::plain(0x3300, t, 7, c.clone());
                        dg.opts = (0..n).map(|i| if mask >> i & 1 == 1 { ol } else { 0 }).collect();
                        v.push(Family {
                            class: "fragments-with-ip-options",
                            raw,
                            eth: false,
                            label: format!("fragments-with-ip-options {} ip {}B {}x{}+{} option octets per fragment {:?}", if raw { "raw" } else { "udp" }, t, n - 1, piece, last, dg.opts),
                            dgs: vec![dg],
                            items: items.clone(),
                        });
                    }
                }
            }
        }
    }
    // large datagrams around REASSEMBLY_BUFFER_SIZE
    let rbs = smoltcp::config::REASSEMBLY_BUFFER_SIZE;
    if rbs >= 600 {
        let fit = (rbs - 20) / 8 * 8; // largest 8-aligned payload that fits with its header
        let piece = (fit / 3) / 8 * 8;
        let mut totals = vec![fit, rbs - 20, rbs - 20 + 8, 2 * rbs];
        totals.dedup();
        for total in totals {
            let c = even_cuts(total, piece.max(8));
            if c.len() > 7 {
                continue;
            }
            let items: Vec<(u8, u8)> = (0..c.len()).map(|i| (0u8, i as u8)).collect();
            for raw in [false, true] {
                v.push(one("plain-permutation", raw, false, total, c.clone(), items.clone(), format!("large, piece {}", piece)));
            }
        }
    }
    // --- one fragment duplicated
    for n in 2..=dup_max {
        for (piece, last) in [(8usize, 8usize), (16, 5)] {
            let (t, c) = cuts_of(n, piece, last);
            for dup in 0..n {
                let mut items: Vec<(u8, u8)> = (0..n).map(|i| (0u8, i as u8)).collect();
                items.push((0, dup as u8));
                items.sort();
                for raw in [false, true] {
                    v.push(one("with-duplicate", raw, false, t, c.clone(), items.clone(), format!("{}x{}+{} dup#{}", n - 1, piece, last, dup)));
                }
            }
        }
    }
    // --- overlapping retransmission: the same datagram cut in two different ways, all fragments of both
    {
        let mixes: Vec<(usize, Vec<(usize, usize)>)> = if thorough {
            vec![(48, vec![(0, 16), (16, 16), (32, 16), (0, 24), (24, 24)]), (29, vec![(0, 8), (8, 8), (16, 8), (24, 5), (0, 16), (16, 13)]), (40, vec![(0, 8), (8, 32), (0, 32), (32, 8), (8, 24)])]
        } else {
            vec![(48, vec![(0, 16), (16, 16), (32, 16), (0, 24), (24, 24)]), (29, vec![(0, 8), (8, 8), (16, 8), (24, 5), (0, 16), (16, 13)])]
        };
        for (t, c) in mixes {
            let items: Vec<(u8, u8)> = (0..c.len()).map(|i| (0u8, i as u8)).collect();
            for raw in [false, true] {
                v.push(one("overlapping-retransmission", raw, false, t, c.clone(), items.clone(), format!("cuts {:?}", c)));
            }
        }
    }
    // --- two interleaved datagrams with different ids
    let pairs: Vec<(usize, usize)> = if thorough { vec![(2, 2), (3, 2), (2, 3), (3, 3), (4, 3), (4, 4)] } else { vec![(2, 2), (3, 2), (2, 3), (3, 3)] };
    for (n, m) in pairs {
        let (t1, c1) = cuts_of(n, 8, 8);
        let (t2, c2) = cuts_of(m, 16, 5);
        let mut items: Vec<(u8, u8)> = (0..n).map(|i| (0u8, i as u8)).collect();
        items.extend((0..m).map(|i| (1u8, i as u8)));
        for raw in [false, true] {
            v.push(Family {
                class: "interleaved-datagrams",
                raw,
                eth: false,
                label: format!("interleaved {} ip {}+{} fragments", if raw { "raw" } else { "udp" }, n, m),
                dgs: vec![Dg::plain(0x3300, t1, 7, c1.clone()), Dg::plain(0x3301, t2, 9, c2.clone())],
                items: items.clone(),
            });
        }
    }
    // --- same id / source / protocol, different destination: datagram 0 is for us, datagram 1 for
    // a foreign on-link unicast address or an unjoined multicast group. Same length, same source
    // port, compatible cuts (a fragment of one tiles with fragments of the other), different salts:
    // only the destination address in the reassembly key keeps them apart.
    let sk_pairs: Vec<(usize, usize)> = if thorough { vec![(2, 2), (3, 2), (2, 3), (3, 3)] } else { vec![(2, 2), (3, 2)] };
    for other in [[10u8, 0, 0, 77], [239, 1, 2, 3]] {
        for zero in [true, false] {
            for &(n, m) in &sk_pairs {
                let total = 29usize;
                let cut = |k: usize| if k == 2 { vec![(0usize, 16usize), (16, 13)] } else { vec![(0, 8), (8, 8), (16, 13)] };
                let mut items: Vec<(u8, u8)> = (0..n).map(|i| (0u8, i as u8)).collect();
                items.extend((0..m).map(|i| (1u8, i as u8)));
                for raw in [false, true] {
                    if raw && !zero {
                        continue; // the raw variant has no UDP checksum: one family per combination
                    }
                    v.push(Family {
                        class: "same-key-different-destination",
                        raw,
                        eth: false,
                        label: format!(
                            "same-key {} ip {}+{} fragments of {}B, other dst {}.{}.{}.{}, udp checksum {}",
                            if raw { "raw" } else { "udp" },
                            n,
                            m,
                            total,
                            other[0],
                            other[1],
                            other[2],
                            other[3],
                            if raw { "n/a" } else if zero { "0 (none)" } else { "valid" }
                        ),
                        dgs: vec![
                            Dg { id: 0x3300, len: total, salt: 7, cuts: cut(n), dst: OUR_IP, sport: Some(RX_SPORT_BASE), zero_cksum: zero, opts: vec![] },
                            Dg { id: 0x3300, len: total, salt: 9, cuts: cut(m), dst: other, sport: Some(RX_SPORT_BASE), zero_cksum: zero, opts: vec![] },
                        ],
                        items: items.clone(),
                    });
                }
            }
        }
    }
    // --- enough fragments to exceed the assembler's range limit: 2*limit+1 single-piece fragments
    let mut ns = vec![];
    if 2 * limit + 1 <= 9 {
        ns.push(2 * limit + 1);
    }
    if thorough && 2 * limit + 2 <= 10 {
        ns.push(2 * limit + 2);
    }
    for n in ns {
        let (t, c) = cuts_of(n, 8, 8);
        let items: Vec<(u8, u8)> = (0..n).map(|i| (0u8, i as u8)).collect();
        v.push(one("range-limit", false, false, t, c, items, format!("{}x8", n)));
    }
    v
}

pub(crate) fn run_rx(rep: &mut Report, tier: Tier) {
    let fams = families(tier);
    let mut tally: BTreeMap<String, Tally> = BTreeMap::new();
    let mut samples = vec![];
    for f in &fams {
        run_family(rep, f, &mut tally, &mut samples);
    }
    rep.samples.extend(samples);
    let mut per_class = serde_json::Map::new();
    let (mut cases, mut frames) = (0u64, 0u64);
    let mut nontrivial = 0u64;
    for (k, t) in &tally {
        cases += t.arrangements;
        frames += t.frames;
        nontrivial += t.demanded_delivered + t.free_delivered;
        per_class.insert(
            k.clone(),
            json!({"families": fams.iter().filter(|f| f.class == k).count(), "arrival_orders_delivered": t.arrangements, "fragments_injected": t.frames,
                "datagram_outcomes": {"delivery_demanded_and_delivered_exact": t.demanded_delivered, "delivery_demanded_but_nothing": t.demanded_missing,
                    "not_demanded_delivered_exact": t.free_delivered, "not_demanded_nothing": t.free_nothing, "delivered_more_than_once_(legit: two complete sets)": t.delivered_twice_ok},
                "frames_emitted_by_stack_during_cases": t.tx_frames,
                "datagram_for_other_destination_delivered_whole_to_raw_socket_(lenient, see judge())": t.foreign_whole_to_raw,
                "cases_that_panicked": t.panics}),
        );
    }
    let ex = run_expiry(rep, tier);
    cases += ex.cases;
    frames += ex.frames;
    nontrivial += ex.y_complete_delivered;
    per_class.insert("expired-then-reused".into(), ex.evidence);
    rep.add_count("states", cases);
    rep.add_count("transitions", cases);
    rep.add_count("evaluations", cases);
    rep.add_count("real_code_steps", frames);
    rep.add_count("distinct_nontrivial", nontrivial);
    rep.cov(
        "rx",
        json!({"what": "fresh interface (MTU 1500) with a bound udp socket (port 1000) or a raw socket (protocol 253); fragments from our own fragmenter, one poll per arrival, then the socket is drained",
            "domain": fams.iter().map(|f| f.label.clone()).collect::<Vec<_>>(),
            "per_class": Value::Object(per_class),
            "demand_rule": "delivery demanded iff every fragment found a reassembly slot (REASSEMBLY_BUFFER_COUNT), the number of disjoint present ranges never exceeded ASSEMBLER_MAX_SEGMENT_COUNT, the set completes and header+payload <= REASSEMBLY_BUFFER_SIZE; exactness (never corrupted/short, never more deliveries than complete sets) is demanded always"}),
    );
}

pub(crate) fn replay(r: &Value) -> i32 {
    if r["class"].as_str() == Some("expired-then-reused") {
        return replay_expiry(r);
    }
    let parse = || -> Option<(Family, Vec<u8>)> {
        let dgs: Vec<Dg> = r["dgs"]
            .as_array()?
            .iter()
            .map(|d| {
                Some(Dg {
                    id: d["id"].as_u64()? as u16,
                    len: d["len"].as_u64()? as usize,
                    salt: d["salt"].as_u64()? as u32,
                    cuts: d["cuts"].as_array()?.iter().map(|c| (c[0].as_u64().unwrap_or(0) as usize, c[1].as_u64().unwrap_or(0) as usize)).collect(),
                    dst: match d["dst"].as_array() {
                        Some(a) if a.len() == 4 => [a[0].as_u64()? as u8, a[1].as_u64()? as u8, a[2].as_u64()? as u8, a[3].as_u64()? as u8],
                        _ => OUR_IP,
                    },
                    sport: d["sport"].as_u64().map(|p| p as u16),
                    zero_cksum: d["zero_cksum"].as_bool().unwrap_or(false),
                    opts: d["opts"].as_array().map(|a| a.iter().map(|x| x.as_u64().unwrap_or(0) as u8).collect()).unwrap_or_default(),
                })
            })
            .collect::<Option<Vec<_>>>()?;
        let items: Vec<(u8, u8)> = r["items"].as_array()?.iter().map(|c| (c[0].as_u64().unwrap_or(0) as u8, c[1].as_u64().unwrap_or(0) as u8)).collect();
        let order: Vec<u8> = r["order"].as_array()?.iter().map(|x| x.as_u64().unwrap_or(0) as u8).collect();
        let class: &'static str = match r["class"].as_str()? {
            "plain-permutation" => "plain-permutation",
            "with-duplicate" => "with-duplicate",
            "overlapping-retransmission" => "overlapping-retransmission",
            "interleaved-datagrams" => "interleaved-datagrams",
            "same-key-different-destination" => "same-key-different-destination",
            "fragments-with-ip-options" => "fragments-with-ip-options",
            _ => "range-limit",
        };
        Some((
            Family { class, raw: r["raw"].as_bool()?, eth: r["medium"].as_str()? == "ethernet", dgs, items, label: r["label"].as_str().unwrap_or("").to_string() },
            order,
        ))
    };
    let Some((fam, order)) = parse() else {
        eprintln!("MACHINERY ERROR: bad rx artefact");
        return 2;
    };
    println!("rx case: {}", fam.label);
    for &it in &order {
        let (d, c) = fam.items[it as usize];
        let dg = &fam.dgs[d as usize];
        let (o, l) = dg.cuts[c as usize];
        println!("  arrive: datagram {} id {:#06x} dst {:?} fragment offset {} len {} MF={}", d, dg.id, dg.dst, o, l, (o + l < dg.len) as u8);
    }
    let res = match run_case_caught(&fam, &order) {
        Ok(r) => r,
        Err(v) => {
            println!("violation: {} :: {}", v.sig, v.detail);
            return 1;
        }
    };
    if let Some(m) = &res.machinery {
        eprintln!("MACHINERY ERROR: {}", m);
        return 2;
    }
    let (viols, demanded) = judge(&fam, &order, &res);
    println!("delivery demanded: {:?}; exact deliveries: {:?}; bad deliveries: {:?}; frames emitted by the stack: {}", demanded, res.exact, res.bad, res.tx_frames);
    if viols.is_empty() {
        println!("no violation on replay");
        0
    } else {
        for v in viols {
            println!("violation: {} :: {}", v.sig, v.detail);
        }
        1
    }
}

// ---------------------------------------------------------------------------------------
// family "expired-then-reused": the only place where time passes
// ---------------------------------------------------------------------------------------

/// Datagram X arrives partially (a hole remains) at t=0; the clock jumps by `gap_ms`; datagram Y
/// (same size, same cuts, other salt; other id or the SAME id) arrives, complete in some order or
/// with one fragment missing.
#[derive(Clone, Debug)]
pub(crate) struct ExpiryCase {
    pub raw: bool,
    pub zero_cksum: bool,
    /// fragments of X: n-1 pieces of 8 bytes + `x_last`
    pub n: usize,
    pub x_last: usize,
    /// fragments of Y: ny-1 pieces of 8 bytes + `y_last` (same layout as X, or another total size)
    pub ny: usize,
    pub y_last: usize,
    /// fragment indices of X that arrive, in order (non-empty proper subset)
    pub x_order: Vec<u8>,
    pub gap_ms: i64,
    pub same_id: bool,
    /// fragment indices of Y that arrive, in order (all n, or all but one)
    pub y_order: Vec<u8>,
}

impl ExpiryCase {
    fn family(&self) -> Family {
        let (total, cuts) = cuts_of(self.n, 8, self.x_last);
        let (ytotal, ycuts) = cuts_of(self.ny, 8, self.y_last);
        let x = Dg { id: 0x3300, len: total, salt: 7, cuts, dst: OUR_IP, sport: Some(RX_SPORT_BASE), zero_cksum: self.zero_cksum, opts: vec![] };
        let y = Dg { id: if self.same_id { 0x3300 } else { 0x3301 }, len: ytotal, salt: 9, cuts: ycuts, dst: OUR_IP, sport: Some(RX_SPORT_BASE), zero_cksum: self.zero_cksum, opts: vec![] };
        Family { class: "expired-then-reused", raw: self.raw, eth: false, dgs: vec![x, y], items: vec![], label: self.label() }
    }
    fn label(&self) -> String {
        format!(
            "expired-then-reused {} X={}x8+{} ({}B) arrives {:?}, +{} ms, Y={}x8+{} ({}B, {} id) arrives {:?}",
            if self.raw { "raw".to_string() } else { format!("udp(cksum {})", if self.zero_cksum { "0" } else { "valid" }) },
            self.n - 1,
            self.x_last,
            8 * (self.n - 1) + self.x_last,
            self.x_order,
            self.gap_ms,
            self.ny - 1,
            self.y_last,
            8 * (self.ny - 1) + self.y_last,
            if self.same_id { "same" } else { "other" },
            self.y_order
        )
    }
    fn y_complete(&self) -> bool {
        self.y_order.len() == self.ny
    }
    fn shape(&self) -> &'static str {
        let (x, y) = (8 * (self.n - 1) + self.x_last, 8 * (self.ny - 1) + self.y_last);
        if (self.n, self.x_last) == (self.ny, self.y_last) {
            "Y same size and cuts as X"
        } else if y < x {
            "Y smaller than X"
        } else if x % 8 == 0 && y > x {
            "Y larger, a fragment boundary of Y at |X|"
        } else {
            "Y larger than X"
        }
    }
    fn to_json(&self) -> Value {
        json!({"part": "rx", "class": "expired-then-reused", "raw": self.raw, "zero_cksum": self.zero_cksum, "n": self.n, "x_last": self.x_last, "ny": self.ny, "y_last": self.y_last, "x_order": self.x_order,
            "gap_ms": self.gap_ms, "same_id": self.same_id, "y_order": self.y_order, "label": self.label()})
    }
    fn from_json(r: &Value) -> Option<ExpiryCase> {
        let arr = |v: &Value| -> Option<Vec<u8>> { Some(v.as_array()?.iter().map(|x| x.as_u64().unwrap_or(0) as u8).collect()) };
        Some(ExpiryCase {
            raw: r["raw"].as_bool()?,
            zero_cksum: r["zero_cksum"].as_bool()?,
            n: r["n"].as_u64()? as usize,
            x_last: r["x_last"].as_u64().unwrap_or(5) as usize,
            ny: r["ny"].as_u64().unwrap_or(r["n"].as_u64()?) as usize,
            y_last: r["y_last"].as_u64().unwrap_or(5) as usize,
            x_order: arr(&r["x_order"])?,
            gap_ms: r["gap_ms"].as_i64()?,
            same_id: r["same_id"].as_bool()?,
            y_order: arr(&r["y_order"])?,
        })
    }
}

/// (result, reassembly timeout in ms as reported by the interface)
pub(crate) fn run_expiry_case(c: &ExpiryCase) -> (RxResult, i64) {
    let fam = c.family();
    let mut res = RxResult { exact: vec![0; 2], bad: vec![], tx_frames: 0, polls: 0, machinery: None };
    let mut net = match Net::new(false, 1500) {
        Ok(n) => n,
        Err(e) => {
            res.machinery = Some(e);
            return (res, 0);
        }
    };
    let timeout_ms = net.iface.reassembly_timeout().total_millis() as i64;
    let h = if c.raw { net.add_raw(4, 8192, 1, 64) } else { net.add_udp(RX_UDP_PORT, 4, 8192, 1, 64) };
    let proto = if c.raw { PROTO_RAW } else { PROTO_UDP };
    let payloads: Vec<Vec<u8>> = fam.dgs.iter().enumerate().map(|(i, d)| d.ip_payload(c.raw, i)).collect();
    let t0 = Instant::from_millis(0);
    for &i in &c.x_order {
        let dg = &fam.dgs[0];
        net.inject(dg.frag(proto, &payloads[0], i as usize));
        net.poll_t(t0);
    }
    // nothing may have been delivered yet; then the clock jumps (a poll without traffic lets
    // the interface expire what is due)
    let t1 = Instant::from_millis(c.gap_ms);
    net.poll_t(t1);
    for &i in &c.y_order {
        let dg = &fam.dgs[1];
        net.inject(dg.frag(proto, &payloads[1], i as usize));
        net.poll_t(t1);
    }
    net.poll_t(t1);
    res.tx_frames = net.dev.tx.len();
    res.polls = net.polls;
    drain(&mut net, h, &fam, &payloads, &mut res);
    (res, timeout_ms)
}

/// Verdict. Returns (violations, delivery of Y demanded).
/// * X never completes (a hole remains), so X must never be delivered, before or after expiry.
/// * Y with a missing fragment must not be delivered at all: nothing X left behind (ranges, total
///   size, bytes) may complete it. This holds for every gap when the ids differ, and after the
///   expiry when the id is re-used.
/// * Complete Y must be delivered when the clock passed the timeout (gap > timeout: the source
///   expires with `expires_at < now`, src/iface/fragmentation.rs remove_expired) -- the slot is
///   free again. For gap <= timeout X is still pending (or, exactly at the boundary, may be:
///   lenient): with REASSEMBLY_BUFFER_COUNT = 1 the only slot is busy and "nothing" is acceptable;
///   with >= 2 slots Y (other id) has a slot of its own and is demanded.
/// * A re-used id before the expiry is not generated: the receiver cannot tell X's and Y's
///   fragments apart then, a mix would be legitimate.
pub(crate) fn judge_expiry(c: &ExpiryCase, res: &RxResult, timeout_ms: i64) -> (Vec<Viol>, bool) {
    let mut v = vec![];
    let label = c.label();
    for (cause, text) in &res.bad {
        v.push(Viol::new(format!("C12/rx/exact/{}", cause), format!("{}: {}", label, text)));
    }
    if res.exact[0] > 0 {
        v.push(Viol::new("C12/rx/exact/incomplete-expired-datagram-delivered", format!("{}: datagram X was delivered although it never arrived completely", label)));
    }
    let y_max = c.y_complete() as u32;
    if res.exact[1] > y_max {
        v.push(Viol::new(
            "C12/rx/once/delivered-more-often-than-complete-sets-arrived",
            format!("{}: datagram Y delivered {} time(s), {} complete set(s) arrived", label, res.exact[1], y_max),
        ));
    }
    // range limit for Y alone (always satisfied for n <= 2*limit, kept general)
    let limit = smoltcp::config::ASSEMBLER_MAX_SEGMENT_COUNT;
    let mut present = vec![false; c.ny];
    let mut within_limit = true;
    for &i in &c.y_order {
        present[i as usize] = true;
        let runs = (0..c.ny).filter(|&k| present[k] && (k == 0 || !present[k - 1])).count();
        within_limit &= runs <= limit;
    }
    let expired = c.gap_ms > timeout_ms;
    let slot_free = expired || (!c.same_id && smoltcp::config::REASSEMBLY_BUFFER_COUNT >= 2);
    let demanded = c.y_complete() && within_limit && slot_free;
    if demanded && res.exact[1] == 0 && res.bad.is_empty() {
        v.push(Viol::new(
            "C12/rx/deliver/not-delivered-expired-then-reused",
            format!("{}: all fragments of Y arrived {} but Y was not delivered", label, if expired { "after X had expired" } else { "and a second reassembly slot exists" }),
        ));
    }
    (v, demanded)
}

pub(crate) struct ExpirySummary {
    pub cases: u64,
    pub frames: u64,
    pub y_complete_delivered: u64,
    pub evidence: Value,
}

fn all_orders(items: &[u8]) -> Vec<Vec<u8>> {
    let mut cur = items.to_vec();
    cur.sort();
    let mut out = vec![];
    loop {
        out.push(cur.clone());
        if !next_permutation(&mut cur) {
            break;
        }
    }
    out
}

pub(crate) fn expiry_cases(tier: Tier) -> Vec<ExpiryCase> {
    // the interface default; run_expiry_case reads the real value and judge_expiry uses that
    let timeout_ms = 60_000i64;
    let ns: Vec<usize> = if tier == Tier::Thorough { vec![3, 4, 5] } else { vec![3, 4] };
    let mut v = vec![];
    for (raw, zero) in [(false, true), (false, false), (true, false)] {
        for &n in &ns {
            // X: every non-empty proper subset with at most 3 fragments, in every order
            let mut x_orders: Vec<Vec<u8>> = vec![];
            for mask in 1u32..(1 << n) - 1 {
                let set: Vec<u8> = (0..n as u8).filter(|i| mask & (1 << i) != 0).collect();
                if set.len() <= 3 {
                    x_orders.extend(all_orders(&set));
                }
            }
            // (x_last, ny, y_last, Y-without-one-fragment for every index?)
            //  * same size and cuts (Y lacking a fragment X had delivered)
            //  * Y smaller (one fragment less), Y larger (longer tail; thorough: one fragment more)
            //  * X a multiple of 8 and Y one fragment longer: a fragment boundary of Y falls on |X|
            let mut layouts: Vec<(usize, usize, usize, bool)> = vec![(5, n, 5, false), (5, n - 1, 5, true), (5, n, 8, true), (8, n + 1, 5, true)];
            if tier == Tier::Thorough {
                layouts.push((5, n + 1, 5, true));
                layouts.push((5, n, 3, true));
            }
            for (x_last, ny, y_last, every_missing) in layouts {
                let full: Vec<u8> = (0..ny as u8).collect();
                for (same_id, gap) in [(false, timeout_ms - 1000), (false, timeout_ms), (false, timeout_ms + 1000), (true, timeout_ms + 1000)] {
                    for xo in &x_orders {
                        let mk = |yo: Vec<u8>| ExpiryCase { raw, zero_cksum: zero, n, x_last, ny, y_last, x_order: xo.clone(), gap_ms: gap, same_id, y_order: yo };
                        // Y complete, every order
                        for yo in all_orders(&full) {
                            v.push(mk(yo));
                        }
                        // Y without one fragment, every order of the rest: a fragment X had
                        // delivered (same layout) / any fragment (other layouts)
                        let mut missing: Vec<u8> = if every_missing { full.clone() } else { xo.clone() };
                        missing.sort();
                        for m in missing {
                            let rest: Vec<u8> = full.iter().copied().filter(|&i| i != m).collect();
                            if rest.is_empty() {
                                continue;
                            }
                            for yo in all_orders(&rest) {
                                v.push(mk(yo));
                            }
                        }
                    }
                }
            }
        }
    }
    v
}

pub(crate) fn run_expiry_caught(c: &ExpiryCase) -> Result<(RxResult, i64), Viol> {
    std::panic::catch_unwind(std::panic::AssertUnwindSafe(|| run_expiry_case(c))).map_err(|e| {
        Viol::new(
            format!("C12/panic/rx/{}", stable_site(&panic_site())),
            format!("{}: panic while delivering the fragments: {} at {}", c.label(), panic_msg(e), last_panic_loc()),
        )
    })
}

pub(crate) fn run_expiry(rep: &mut Report, tier: Tier) -> ExpirySummary {
    use rayon::prelude::*;
    let cases = expiry_cases(tier);
    struct R {
        viols: Vec<Viol>,
        y: u32,
        demanded: bool,
        machinery: Option<String>,
        panicked: bool,
        timeout_ms: i64,
    }
    let results: Vec<R> = cases
        .par_iter()
        .map(|c| match run_expiry_caught(c) {
            Ok((res, t)) => {
                let (viols, demanded) = judge_expiry(c, &res, t);
                R { viols, y: res.exact[1], demanded, machinery: res.machinery, panicked: false, timeout_ms: t }
            }
            Err(v) => R { viols: vec![v], y: 0, demanded: false, machinery: None, panicked: true, timeout_ms: 0 },
        })
        .collect();
    let mut frames = 0u64;
    let mut out: BTreeMap<&'static str, u64> = BTreeMap::new();
    let mut per_gap: BTreeMap<String, u64> = BTreeMap::new();
    let mut per_shape: BTreeMap<&'static str, u64> = BTreeMap::new();
    let mut timeout_seen = 0i64;
    for (c, r) in cases.iter().zip(results.iter()) {
        frames += (c.x_order.len() + c.y_order.len()) as u64;
        timeout_seen = timeout_seen.max(r.timeout_ms);
        let k = match (c.y_complete(), r.demanded, r.y > 0, r.panicked) {
            (_, _, _, true) => "panicked",
            (true, true, true, _) => "Y_complete/demanded/delivered_exact",
            (true, true, false, _) => "Y_complete/demanded/nothing",
            (true, false, true, _) => "Y_complete/not_demanded(slot_busy)/delivered_exact",
            (true, false, false, _) => "Y_complete/not_demanded(slot_busy)/nothing",
            (false, _, true, _) => "Y_one_fragment_missing/delivered",
            (false, _, false, _) => "Y_one_fragment_missing/nothing",
        };
        *out.entry(k).or_insert(0) += 1;
        *per_gap.entry(format!("{} id, +{} ms", if c.same_id { "same" } else { "other" }, c.gap_ms)).or_insert(0) += 1;
        *per_shape.entry(c.shape()).or_insert(0) += 1;
        if let Some(m) = &r.machinery {
            if rep.machinery_errors.len() < 5 {
                rep.machinery_errors.push(format!("rx expiry {}: {}", c.label(), m));
            }
        }
        for v in &r.viols {
            rep.violation(v.sig.clone(), format!("[rx] {}", v.detail), c.to_json());
        }
    }
    if let Some(i) = cases.iter().position(|c| c.n == 4 && c.ny == 4 && c.y_last == 5 && c.x_order == [0, 2] && c.gap_ms > 60_000 && !c.same_id && c.y_order == [0, 1, 3]) {
        rep.samples.push(json!({"part": "rx", "class": "expired-then-reused", "case": cases[i].label(), "Y_delivered": results[i].y, "demanded": results[i].demanded}));
    }
    let y_ok = *out.get("Y_complete/demanded/delivered_exact").unwrap_or(&0);
    ExpirySummary {
        cases: cases.len() as u64,
        frames,
        y_complete_delivered: y_ok,
        evidence: json!({"what": "X (n-1 pieces of 8 bytes + 5) arrives partially at t=0: every non-empty proper subset of <= 3 fragments in every order; the clock jumps; Y (other salt; same size and cuts as X, or smaller, or larger, or larger with a fragment boundary exactly at |X|) arrives: every permutation of all fragments, and every permutation of all-but-one (same layout: for each fragment X had delivered; other layouts: for every fragment)", "cases_per_shape": per_shape,
            "fragments_per_datagram": if tier == Tier::Thorough { json!([3, 4, 5]) } else { json!([3, 4]) },
            "socket_variants": ["udp checksum 0", "udp checksum valid", "raw"],
            "reassembly_timeout_ms_reported_by_interface": timeout_seen,
            "cases": cases.len(), "cases_per_id_and_gap": per_gap, "fragments_injected": frames, "outcomes": out}),
    }
}

fn replay_expiry(r: &Value) -> i32 {
    let Some(c) = ExpiryCase::from_json(r) else {
        eprintln!("MACHINERY ERROR: bad expired-then-reused artefact");
        return 2;
    };
    println!("rx case: {}", c.label());
    let (res, t) = match run_expiry_caught(&c) {
        Ok(x) => x,
        Err(v) => {
            println!("violation: {} :: {}", v.sig, v.detail);
            return 1;
        }
    };
    if let Some(m) = &res.machinery {
        eprintln!("MACHINERY ERROR: {}", m);
        return 2;
    }
    let (viols, demanded) = judge_expiry(&c, &res, t);
    println!("reassembly timeout {} ms; delivery of Y demanded: {}; exact deliveries [X, Y]: {:?}; bad deliveries: {:?}", t, demanded, res.exact, res.bad);
    if viols.is_empty() {
        println!("no violation on replay");
        0
    } else {
        for v in viols {
            println!("violation: {} :: {}", v.sig, v.detail);
        }
        1
    }
}
