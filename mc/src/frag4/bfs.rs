//! tx/S2: back-to-back datagrams, BFS over event sequences on one real interface.

use super::tx::{Exp, Kind, Tracker};
use super::wire::*;
use super::*;

#[derive(Clone, Debug)]
pub(crate) struct S2Cfg {
    pub eth: bool,
    pub ip_mtu: usize,
    /// reduced alphabet (for the deepest run): sends = udp0 x {2,3 fragments}, udp1 x {unfragmented,
    /// 3 fragments}, raw x {3 fragments}; echo request with a 3-fragment reply only
    pub core: bool,
}

#[derive(Clone, Debug, PartialEq, Eq)]
pub(crate) enum Ev {
    /// socket 0/1 = udp, 2 = raw; size class 0 = no fragmentation, 1 = 2 fragments, 2 = 3 fragments
    Send { sock: u8, size: u8 },
    /// Interface::poll
    Poll,
    /// one Interface::poll_egress pass
    Egress,
    /// Interface::poll_ingress_single until the device has nothing more
    Ingress,
    /// device refuses transmit() after `n` more frames
    Bp(u8),
    /// back-pressure lifted
    BpOff,
    /// an oversized ICMP echo request arrives (as fragments); reply needs 2 (class 1) / 3 (class 2) fragments
    Echo(u8),
    /// the same from the second pre-resolved neighbour B (10.0.0.3 / 02:..:03); the reply goes to
    /// B. Ethernet configurations only: there the reply needs another hardware destination than
    /// whatever is pending in the fragmenter
    EchoB(u8),
    /// lift back-pressure, poll until nothing more happens, run the end-of-run oracle; terminal
    Quiesce,
    /// the same with an application that polls ONLY on ingress or when poll_at names a deadline
    /// (None = it sleeps forever); whatever is still owed to the wire when it stops, but comes out
    /// under unconditional polling, is a stall; terminal
    QuiesceFollow,
}

pub(crate) struct S2 {
    net: Net,
    h: [SocketHandle; 3],
    tr: Tracker,
    /// model of the bytes left behind in the stack's fragmentation buffer beyond the IP header
    /// (the digest only shows buffer[..packet_len]; stale bytes beyond can influence what an
    /// emitter that checksums the whole remaining buffer produces, so they are part of the state)
    stale: Vec<u8>,
    stale_seen: usize,
    quiesced: bool,
    pub refused_sends: u32,
    core: bool,
}

impl S2 {
    /// IP payload length per size class: fits / 2 fragments / 3 fragments at this MTU
    fn ip_payload_len(&self, size: u8) -> usize {
        let piece = (self.net.ip_mtu - 20) / 8 * 8;
        match size {
            0 => 18,
            1 => piece + 28,
            _ => 2 * piece + 48,
        }
    }
    /// canonical name: smallest k not used by an outstanding datagram of the same (kind, size)
    fn fresh_label(&self, kind: Kind, size: u8) -> (String, u32) {
        let mut k = 0u32;
        loop {
            let l = format!("{:?}/size{}/k{}", kind, size, k);
            if !self.tr.exps.iter().any(|e| e.label == l) {
                let kk = match kind {
                    Kind::Udp(s) => s as u32,
                    Kind::Raw => 2,
                    Kind::Reply => 3,
                };
                return (l, 1 + kk * 64 + size as u32 * 16 + k);
            }
            k += 1;
        }
    }
    fn capture(&mut self, out: &mut Vec<Viol>) {
        for (_, f) in self.net.dev.take_tx() {
            self.tr.feed(&f, out);
        }
        // update the stale-buffer model: a datagram whose first fragment has MF=1 went through
        // the fragmentation buffer (image at [20..20+len])
        while self.stale_seen < self.tr.frames.len() {
            let fr = &self.tr.frames[self.stale_seen];
            self.stale_seen += 1;
            if let Ok(f) = parse_tx_frame(self.net.eth, fr) {
                if f.off == 0 && f.mf {
                    if let Some(&ei) = self.tr.bind.get(&f.key) {
                        let img = &self.tr.exps[ei].image;
                        let n = img.len().min(self.stale.len() - 20);
                        self.stale[20..20 + n].copy_from_slice(&img[..n]);
                    }
                }
            }
        }
        // retire: complete and verified datagrams leave the model (a later frame with their id
        // is then a frame of no outstanding datagram); echo replies that were not started while
        // their request was being processed were dropped as a whole (allowed)
        if self.net.dev.rx.is_empty() {
            let keep: Vec<bool> = self.tr.exps.iter().map(|e| !(e.optional && !e.started())).collect();
            self.retain(&keep);
        }
    }
    fn retain(&mut self, keep: &[bool]) {
        let mut map = vec![usize::MAX; keep.len()];
        let mut n = 0;
        for (i, &k) in keep.iter().enumerate() {
            if k {
                map[i] = n;
                n += 1;
            }
        }
        let mut i = 0;
        self.tr.exps.retain(|_| {
            i += 1;
            keep[i - 1]
        });
        self.tr.bind.retain(|_, v| {
            if map[*v] == usize::MAX {
                false
            } else {
                *v = map[*v];
                true
            }
        });
    }
    fn retire_complete(&mut self, out: &mut Vec<Viol>) {
        // run the standalone reassembler on each complete datagram, then retire it
        let mut keep = vec![true; self.tr.exps.len()];
        for (i, e) in self.tr.exps.iter().enumerate() {
            if e.complete() && !e.corrupt {
                if let Err((clause, cause, text)) = reassemble(&e.frags) {
                    out.push(Viol::new(format!("C12/tx/{}/{}", clause, cause), format!("{}: {}", e.label, text)));
                }
                keep[i] = false;
            }
        }
        // keep the binding of retired datagrams? No: a retired id must not reappear; dropping the
        // binding makes any later frame with that id "frame-of-no-outstanding-datagram".
        self.retain(&keep);
    }
    fn model_string(&self) -> String {
        let mut s = String::new();
        for e in &self.tr.exps {
            s.push_str(&format!("{}>{}:{}:{:?}:{}:{:?};", e.label, e.dst[3], e.started() as u8, e.cov, e.corrupt as u8, e.clobbered_by));
        }
        s.push_str(&format!("stale={:032x}", fp128(&self.stale[20..])));
        s
    }
}

/// Strip from the digest what cannot influence anything this harness observes except through an
/// injective renaming: the IPv4 identification counter, the identification stored in the
/// fragmenter and the identification/header-checksum bytes inside the buffered IP header.
/// Argument: the transmit path never reads an identification back to take a decision
/// (dispatch_ip draws it from the counter, dispatch_ipv4_frag copies `frag.ipv4.ident` into the
/// header it re-emits from `frag.ipv4.repr`); the oracle only uses ids to group frames, so it is
/// invariant under renaming ids as long as they stay distinct, and the 16-bit counter cannot
/// wrap within the depth bound.
fn strip_digest(d: &str) -> String {
    let mut s = d.to_string();
    for pat in [" ipv4_id=", " id="] {
        if let Some(p) = s.find(pat) {
            let start = p + pat.len();
            let end = s[start..].find(|c: char| !c.is_ascii_digit()).map(|e| start + e).unwrap_or(s.len());
            s.replace_range(start..end, "_");
        }
    }
    if let Some(p) = s.find(" buf=[") {
        let start = p + 6;
        if let Some(e) = s[start..].find(']') {
            let body: Vec<&str> = s[start..start + e].split(", ").collect();
            if body.len() >= 20 {
                let kept: Vec<&str> = body.iter().enumerate().filter(|(i, _)| !matches!(i, 4 | 5 | 10 | 11)).map(|(_, x)| *x).collect();
                let new = kept.join(",");
                s.replace_range(start..start + e, &new);
            }
        }
    }
    s
}

/// Canonicalise the Debug image of the socket set: inside every `RingBuffer { storage: Owned([..]),
/// read_at: R, length: L }` the elements outside the allocated window [R, R+L) (mod capacity) are
/// blanked. Argument: smoltcp's RingBuffer/PacketBuffer never read unallocated elements back
/// (enqueue hands them out as `&mut` and both `udp::Socket::send_slice` and
/// `raw::Socket::send_slice` overwrite the whole slice; metadata slots are assigned on enqueue),
/// so leftovers of datagrams that already left the socket cannot influence future behaviour.
/// `read_at` and `length` (which decide contiguity and therefore whether a send is accepted) stay.
fn canon_sockets(s: &str) -> String {
    const OPEN: &str = "RingBuffer { storage: Owned([";
    let b = s.as_bytes();
    let mut out = String::with_capacity(s.len());
    let mut pos = 0;
    while let Some(p) = s[pos..].find(OPEN) {
        let start = pos + p + OPEN.len();
        out.push_str(&s[pos..start]);
        // split the element list at top level until the matching "])"
        let mut depth = 0i32;
        let mut i = start;
        let mut el_start = start;
        let mut els: Vec<(usize, usize)> = vec![];
        loop {
            let c = b[i];
            match c {
                b'(' | b'[' | b'{' => depth += 1,
                b')' | b'}' => depth -= 1,
                b']' => {
                    if depth == 0 {
                        if i > el_start {
                            els.push((el_start, i));
                        }
                        break;
                    }
                    depth -= 1;
                }
                b',' if depth == 0 => {
                    els.push((el_start, i));
                    el_start = i + 2; // ", "
                }
                _ => {}
            }
            i += 1;
        }
        // i at the closing ']' ; then "), read_at: R, length: L }"
        let tail = &s[i..];
        let num = |key: &str| -> usize {
            let k = tail.find(key).unwrap() + key.len();
            let e = tail[k..].find(|c: char| !c.is_ascii_digit()).unwrap();
            tail[k..k + e].parse().unwrap()
        };
        let (r, l) = (num("read_at: "), num("length: "));
        let cap = els.len();
        for (n, (a, e)) in els.iter().enumerate() {
            if n > 0 {
                out.push(',');
            }
            let live = cap > 0 && ((n + cap - r % cap.max(1)) % cap) < l;
            if live {
                out.push_str(&s[*a..*e]);
            } else {
                out.push('-');
            }
        }
        pos = i;
    }
    out.push_str(&s[pos..]);
    out
}

impl Harness for S2 {
    type Cfg = S2Cfg;
    type Ev = Ev;
    fn new(cfg: &S2Cfg) -> S2 {
        let mut net = Net::new(cfg.eth, cfg.ip_mtu).expect("interface construction");
        // each socket can queue two datagrams of the largest class
        let h0 = net.add_udp(UDP_PORT0, 1, 32, 2, 2 * 256);
        let h1 = net.add_udp(UDP_PORT0 + 1, 1, 32, 2, 2 * 256);
        let h2 = net.add_raw(1, 32, 2, 2 * 256);
        let tr = Tracker::new(cfg.eth, net.dev_mtu());
        S2 { net, h: [h0, h1, h2], tr, stale: vec![0; smoltcp::config::FRAGMENTATION_BUFFER_SIZE.max(64)], stale_seen: 0, quiesced: false, refused_sends: 0, core: cfg.core }
    }
    fn enabled(&self) -> Vec<(Ev, u32)> {
        if self.quiesced {
            return vec![];
        }
        let mut v = vec![(Ev::Poll, 0), (Ev::Egress, 0)];
        for sock in 0..3u8 {
            for size in 0..3u8 {
                if self.core && !matches!((sock, size), (0, 1) | (0, 2) | (1, 0) | (1, 2) | (2, 2)) {
                    continue;
                }
                v.push((Ev::Send { sock, size }, 0));
            }
        }
        if !self.net.dev.rx.is_empty() {
            v.push((Ev::Ingress, 0));
        } else {
            if !self.core {
                v.push((Ev::Echo(1), 0));
            }
            v.push((Ev::Echo(2), 0));
            if self.net.eth {
                if !self.core {
                    v.push((Ev::EchoB(1), 0));
                }
                v.push((Ev::EchoB(2), 0));
            }
        }
        for n in 0..2u8 {
            if self.net.dev.tx_budget != Some(n as usize) {
                v.push((Ev::Bp(n), 0));
            }
        }
        if self.net.dev.tx_budget.is_some() {
            v.push((Ev::BpOff, 0));
        }
        v.push((Ev::Quiesce, 0));
        v.push((Ev::QuiesceFollow, 0));
        v
    }
    fn apply(&mut self, ev: &Ev, out: &mut Vec<Viol>) {
        match *ev {
            Ev::Send { sock, size } => {
                let n = self.ip_payload_len(size);
                let kind = if sock < 2 { Kind::Udp(sock) } else { Kind::Raw };
                let (label, salt) = self.fresh_label(kind, size);
                if sock < 2 {
                    let p = pattern(n - 8, salt);
                    if self.net.udp_send(self.h[sock as usize], &p).is_ok() {
                        let img = udp_datagram(OUR_IP, PEER_IP, UDP_PORT0 + sock as u16, PEER_PORT, &p);
                        self.tr.expect(Exp::new(kind, label, PROTO_UDP, img, false));
                    } else {
                        self.refused_sends += 1;
                    }
                } else {
                    let p = pattern(n, salt);
                    if self.net.raw_send(self.h[2], &p).is_ok() {
                        self.tr.expect(Exp::new(kind, label, PROTO_RAW, p, false));
                    } else {
                        self.refused_sends += 1;
                    }
                }
            }
            Ev::Poll => self.net.poll(),
            Ev::Egress => {
                self.net.iface.poll_egress(now(), &mut self.net.dev, &mut self.net.sockets);
            }
            Ev::Ingress => {
                use smoltcp::iface::PollIngressSingleResult as R;
                for _ in 0..64 {
                    if let R::None = self.net.iface.poll_ingress_single(now(), &mut self.net.dev, &mut self.net.sockets) {
                        break;
                    }
                }
            }
            Ev::Bp(n) => self.net.dev.tx_budget = Some(n as usize),
            Ev::BpOff => self.net.dev.tx_budget = None,
            Ev::Echo(size) => {
                let n = self.ip_payload_len(size);
                let (label, salt) = self.fresh_label(Kind::Reply, size);
                let data = pattern(n - 8, salt);
                let img = self.net.inject_echo_request(0x7000 + size as u16, 0x4242, size as u16, &data);
                self.tr.expect(Exp::new(Kind::Reply, label, PROTO_ICMP, img, true));
            }
            Ev::EchoB(size) => {
                let n = self.ip_payload_len(size);
                let (label, salt) = self.fresh_label(Kind::Reply, size);
                let data = pattern(n - 8, salt);
                let img = self.net.inject_echo_request_from(PEER_B_IP, PEER_B_MAC, 0x7100 + size as u16, 0x4243, size as u16, &data);
                self.tr.expect(Exp::new(Kind::Reply, label, PROTO_ICMP, img, true).to(PEER_B_IP));
            }
            Ev::Quiesce => {
                self.net.dev.tx_budget = None;
                let mut quiet = false;
                for _ in 0..200 {
                    self.net.poll();
                    let got = !self.net.dev.tx.is_empty();
                    self.capture(out);
                    if !got && self.net.dev.rx.is_empty() && self.net.poll_at_is_none() {
                        quiet = true;
                        break;
                    }
                }
                if !quiet {
                    self.tr.machinery.push("no quiescence after 200 polls".into());
                }
                self.tr.finish(out);
                self.quiesced = true;
            }
            Ev::QuiesceFollow => {
                self.net.dev.tx_budget = None;
                let mut clock = now();
                let mut stopped = false;
                for _ in 0..400 {
                    if self.net.dev.rx.is_empty() {
                        match self.net.iface.poll_at(clock, &self.net.sockets) {
                            None => {
                                stopped = true;
                                break;
                            }
                            Some(t) => {
                                if t > clock {
                                    clock = t;
                                }
                            }
                        }
                    }
                    self.net.poll_t(clock);
                    self.capture(out);
                }
                if !stopped {
                    self.tr.machinery.push("poll_at never returned None within 400 polls".into());
                }
                let owing = self.tr.outstanding();
                if stopped && !owing.is_empty() {
                    let before: Vec<String> = owing.iter().map(|&i| format!("{} ({} bytes): on the wire {:?}", self.tr.exps[i].label, self.tr.exps[i].image.len(), self.tr.exps[i].cov)).collect();
                    let names: Vec<(String, [u8; 4])> = owing.iter().map(|&i| (self.tr.exps[i].label.clone(), self.tr.exps[i].dst)).collect();
                    for _ in 0..200 {
                        self.net.poll_t(clock);
                        let got = !self.net.dev.tx.is_empty();
                        self.capture(out);
                        if !got && self.net.dev.rx.is_empty() && self.net.iface.poll_at(clock, &self.net.sockets).is_none() {
                            break;
                        }
                    }
                    // looked up by name again: capture() may drop never-started optional replies
                    let recovered: Vec<&String> = names
                        .iter()
                        .zip(before.iter())
                        .filter(|((l, d), _)| self.tr.exps.iter().any(|e| &e.label == l && &e.dst == d && e.complete()))
                        .map(|(_, b)| b)
                        .collect();
                    if !recovered.is_empty() {
                        out.push(Viol::new(
                            "C12/tx/complete/stalls-when-following-poll-at",
                            format!(
                                "poll_at returned None (nothing queued inbound) while the stack still held untransmitted fragments: {}; polling anyway afterwards brought the rest out",
                                recovered.iter().map(|s| s.as_str()).collect::<Vec<_>>().join("; ")
                            ),
                        ));
                    }
                }
                self.tr.finish(out);
                self.quiesced = true;
            }
        }
        self.capture(out);
        if !self.quiesced {
            self.retire_complete(out);
        }
        if let Some(m) = self.tr.machinery.first() {
            // surfaces as a BFS error through the panic path of replay_choices: machinery, not a violation
            panic!("MACHINERY: {}", m);
        }
    }
    fn fingerprint(&self) -> u128 {
        let d = strip_digest(&self.net.iface.verif_digest());
        let s = canon_sockets(&format!("{:?}", self.net.sockets));
        fp128(&(d, s, self.net.dev.tx_budget, &self.net.dev.rx, self.model_string(), self.quiesced))
    }
    fn outcome(&self) -> String {
        String::new()
    }
}

fn cfg_of(name: &str) -> Option<S2Cfg> {
    // "s2/<medium>/<mtu>/<full|core>"
    let p: Vec<&str> = name.split('/').collect();
    if p.len() != 4 || p[0] != "s2" {
        return None;
    }
    Some(S2Cfg { eth: p[1] == "ethernet", ip_mtu: p[2].parse().ok()?, core: p[3] == "core" })
}

pub(crate) fn run_s2(rep: &mut Report, tier: Tier) {
    let plan: Vec<(S2Cfg, usize)> = match tier {
        Tier::Quick => vec![(S2Cfg { eth: false, ip_mtu: 100, core: false }, 5), (S2Cfg { eth: true, ip_mtu: 100, core: false }, 4)],
        Tier::Thorough => vec![
            (S2Cfg { eth: false, ip_mtu: 100, core: false }, 6),
            (S2Cfg { eth: false, ip_mtu: 100, core: true }, 7),
            (S2Cfg { eth: true, ip_mtu: 100, core: false }, 5),
            (S2Cfg { eth: false, ip_mtu: 68, core: false }, 5),
        ],
    };
    let lim = Limits { max_states: 6_000_000, max_wall_s: if tier == Tier::Quick { 25.0 } else { 420.0 } };
    for (cfg, depth) in plan {
        let name = format!("s2/{}/{}/{}", medium_name(cfg.eth), cfg.ip_mtu, if cfg.core { "core" } else { "full" });
        // construction (Interface::new, neighbor pre-resolution) is also a call into the stack
        if let Err(e) = std::panic::catch_unwind(std::panic::AssertUnwindSafe(|| S2::new(&cfg))) {
            rep.violation(
                format!("C12/panic/s2/{}", stable_site(&panic_site())),
                format!("[{}] panic while constructing the interface: {} at {}", name, panic_msg(e), last_panic_loc()),
                json!({"harness": name, "choices": []}),
            );
            continue;
        }
        let mut samples = vec![];
        let mut found = vec![];
        match bfs::<S2>(&name, &cfg, depth, &lim, &mut found, &mut samples) {
            Ok(st) => {
                rep.absorb(&format!("tx/S2 BFS {} depth<={}", name, depth), &st);
                if rep.samples.len() < 6 {
                    rep.samples.extend(samples);
                }
            }
            Err(e) => rep.machinery_errors.push(format!("{}: {}", name, e)),
        }
        for f in found {
            if f.viol.sig.starts_with("panic/") && f.viol.detail.contains("MACHINERY:") {
                rep.machinery_errors.push(f.viol.detail.clone());
                continue;
            }
            // core::replay_choices isolates panics raised in apply() and names them "panic/<site>"
            let sig = match f.viol.sig.strip_prefix("panic/") {
                Some(site) => format!("C12/panic/s2/{}", stable_site(site)),
                None => f.viol.sig.clone(),
            };
            rep.violation(sig, format!("[{} history {}] {}", name, f.replay["events"], f.viol.detail), f.replay.clone());
        }
    }
    rep.cov(
        "s2",
        json!({"alphabet": ["Send{sock in udp0,udp1,raw; size in no-frag(18B IP payload), 2 fragments, 3 fragments}", "Poll", "Egress (one poll_egress pass)",
            "Ingress (poll_ingress_single until empty; enabled when frames are queued)", "Bp(0|1) (device refuses transmit after n frames)", "BpOff",
            "Echo(2|3) (inbound fragmented echo request whose reply needs 2|3 fragments; enabled when the rx queue is empty)", "EchoB(2|3) (Ethernet configurations: the same request from a second pre-resolved neighbour B = 10.0.0.3 / 02:00:00:00:00:03, the reply goes to B)", "Quiesce (terminal: lift back-pressure, poll to quiescence, end-of-run oracle)", "QuiesceFollow (terminal: lift back-pressure, poll only on ingress or when poll_at names a deadline, None = stop; then the same oracle plus the stall clause)"],
            "oracle": "per captured frame: <= MTU, header checksum, on Ethernet link-layer destination = hardware address of the neighbour owning the IP destination, belongs to exactly one outstanding datagram (bound by id), bytes identical at its offset, MF consistent, no overlap/duplicate; at Quiesce: every datagram accepted by send() and every datagram whose first fragment appeared is complete exactly once; echo replies may be absent as a whole",
            "fingerprint": "verif_digest (identification counter/ids stripped) + SocketSet Debug + device budget + rx queue + outstanding-datagram model + stale fragmentation buffer image",
            "socket_tx_capacity": "2 datagrams / 512 bytes per socket; send() refusals are real (BufferFull) and leave the state unchanged"}),
    );
}

pub(crate) fn replay(harness: &str, art: &Value) -> i32 {
    let Some(cfg) = cfg_of(harness) else {
        eprintln!("MACHINERY ERROR: unknown harness {}", harness);
        return 2;
    };
    let choices: Vec<u16> = art["replay"]["choices"].as_array().map(|a| a.iter().map(|x| x.as_u64().unwrap_or(0) as u16).collect()).unwrap_or_default();
    // verbose re-execution: print the frames after every event
    let mut h = match std::panic::catch_unwind(std::panic::AssertUnwindSafe(|| S2::new(&cfg))) {
        Ok(h) => h,
        Err(e) => {
            println!("violation: C12/panic/s2/{} :: panic while constructing the interface: {} at {}", stable_site(&panic_site()), panic_msg(e), last_panic_loc());
            return 1;
        }
    };
    let mut viols = vec![];
    for (i, &c) in choices.iter().enumerate() {
        let en = h.enabled();
        if c as usize >= en.len() {
            eprintln!("MACHINERY ERROR: replay divergence at step {}", i);
            return 2;
        }
        let ev = en[c as usize].0.clone();
        let n0 = h.tr.frames.len();
        let r = std::panic::catch_unwind(std::panic::AssertUnwindSafe(|| h.apply(&ev, &mut viols)));
        println!("{:3}: {:?}", i, ev);
        if let Err(e) = r {
            println!("     panic: {} at {}", panic_msg(e), last_panic_loc());
            return 1;
        }
        for fr in &h.tr.frames[n0..] {
            match parse_tx_frame(cfg.eth, fr) {
                Ok(f) => println!("     tx {}", describe(&f)),
                Err(e) => println!("     tx <{}>", e),
            }
        }
    }
    if viols.is_empty() {
        println!("no violation on replay");
        0
    } else {
        let mut seen = std::collections::BTreeSet::new();
        for v in viols {
            if seen.insert(v.sig.clone()) {
                println!("violation: {} :: {}", v.sig, v.detail);
            }
        }
        1
    }
}

