//! Independent (no `smoltcp::wire`) builders, parser and reassembler for the C12 harness.
//! Offsets from RFC 791 / 768 / 792 / 826 / 894.

use crate::wirecheck as wc;
use std::collections::BTreeMap;

pub const OUR_IP: [u8; 4] = [10, 0, 0, 1];
pub const PEER_IP: [u8; 4] = [10, 0, 0, 2];
pub const OUR_MAC: [u8; 6] = [0x02, 0, 0, 0, 0, 0x01];
pub const PEER_MAC: [u8; 6] = [0x02, 0, 0, 0, 0, 0x02];
/// a second on-link neighbour "B" (also pre-resolved on Ethernet)
pub const PEER_B_IP: [u8; 4] = [10, 0, 0, 3];
pub const PEER_B_MAC: [u8; 6] = [0x02, 0, 0, 0, 0, 0x03];

/// the hardware address of the neighbour that owns an IP destination in our world
pub fn mac_of(ip: [u8; 4]) -> Option<[u8; 6]> {
    if ip == PEER_IP {
        Some(PEER_MAC)
    } else if ip == PEER_B_IP {
        Some(PEER_B_MAC)
    } else {
        None
    }
}

pub const PROTO_ICMP: u8 = 1;
pub const PROTO_UDP: u8 = 17;
/// RFC 3692 experimental protocol number, used for the raw socket
pub const PROTO_RAW: u8 = 253;

/// value for a checksum field such that the covered data verifies (field must be zero in `parts`)
pub fn cksum_field(parts: &[&[u8]]) -> u16 {
    !wc::rfc1071_sum(parts)
}

/// deterministic, position dependent test pattern; different `salt` => different contents
/// at (almost) every offset, so a misplaced or foreign 8-byte block is visible
pub fn pattern(len: usize, salt: u32) -> Vec<u8> {
    (0..len)
        .map(|i| {
            let x = (i as u32).wrapping_add(salt.wrapping_mul(0x9e37)).wrapping_mul(2654435761);
            ((x >> 24) as u8) ^ (salt as u8).wrapping_mul(29) | 1
        })
        .collect()
}

pub fn ipv4_header(id: u16, mf: bool, off_bytes: usize, proto: u8, src: [u8; 4], dst: [u8; 4], payload_len: usize, ttl: u8) -> [u8; 20] {
    assert!(off_bytes % 8 == 0);
    let total = 20 + payload_len;
    let mut h = [0u8; 20];
    h[0] = 0x45;
    h[2] = (total >> 8) as u8;
    h[3] = total as u8;
    h[4] = (id >> 8) as u8;
    h[5] = id as u8;
    let fo = (off_bytes / 8) as u16 | if mf { 0x2000 } else { 0 };
    h[6] = (fo >> 8) as u8;
    h[7] = fo as u8;
    h[8] = ttl;
    h[9] = proto;
    h[12..16].copy_from_slice(&src);
    h[16..20].copy_from_slice(&dst);
    let c = cksum_field(&[&h]);
    h[10] = (c >> 8) as u8;
    h[11] = c as u8;
    h
}

/// Our own fragmenter: `cuts` = (offset, len) pieces of `payload` (the IP payload). MF is set
/// on every piece that does not end at the end of the datagram.
pub fn fragment(id: u16, proto: u8, src: [u8; 4], dst: [u8; 4], payload: &[u8], cuts: &[(usize, usize)]) -> Vec<Vec<u8>> {
    cuts.iter()
        .map(|&(off, len)| {
            let mf = off + len < payload.len();
            let mut p = ipv4_header(id, mf, off, proto, src, dst, len, 64).to_vec();
            p.extend_from_slice(&payload[off..off + len]);
            p
        })
        .collect()
}

/// The same IPv4 packet with `n` octets (multiple of 4, <= 40) of options inserted after the
/// fixed header: NOP (1) octets, closed by End-of-Option-List (0) in the last one (RFC 791);
/// IHL, total length and header checksum adjusted.
pub fn with_options(pkt: &[u8], n: usize) -> Vec<u8> {
    assert!(n % 4 == 0 && n <= 40 && pkt.len() >= 20 && pkt[0] == 0x45);
    let mut h = pkt[..20].to_vec();
    h[0] = 0x40 | (5 + n / 4) as u8;
    let total = pkt.len() + n;
    h[2] = (total >> 8) as u8;
    h[3] = total as u8;
    h[10] = 0;
    h[11] = 0;
    let mut o = vec![1u8; n];
    if n > 0 {
        o[n - 1] = 0;
    }
    h.extend_from_slice(&o);
    let c = cksum_field(&[&h]);
    h[10] = (c >> 8) as u8;
    h[11] = c as u8;
    h.extend_from_slice(&pkt[20..]);
    h
}

/// cut `total` bytes into pieces of `piece` bytes (multiple of 8), last piece = remainder
pub fn even_cuts(total: usize, piece: usize) -> Vec<(usize, usize)> {
    assert!(piece % 8 == 0 && piece > 0);
    let mut v = vec![];
    let mut off = 0;
    while off < total {
        let l = piece.min(total - off);
        v.push((off, l));
        off += l;
    }
    v
}

/// UDP header + payload with the RFC 768 checksum (0 is transmitted as 0xffff)
pub fn udp_datagram(src: [u8; 4], dst: [u8; 4], sport: u16, dport: u16, payload: &[u8]) -> Vec<u8> {
    let len = 8 + payload.len();
    let mut d = vec![(sport >> 8) as u8, sport as u8, (dport >> 8) as u8, dport as u8, (len >> 8) as u8, len as u8, 0, 0];
    d.extend_from_slice(payload);
    let ph = [src[0], src[1], src[2], src[3], dst[0], dst[1], dst[2], dst[3], 0, PROTO_UDP, (len >> 8) as u8, len as u8];
    let mut c = cksum_field(&[&ph, &d]);
    if c == 0 {
        c = 0xffff;
    }
    d[6] = (c >> 8) as u8;
    d[7] = c as u8;
    d
}

pub fn udp_checksum_ok(src: [u8; 4], dst: [u8; 4], d: &[u8]) -> bool {
    let len = d.len();
    let ph = [src[0], src[1], src[2], src[3], dst[0], dst[1], dst[2], dst[3], 0, PROTO_UDP, (len >> 8) as u8, len as u8];
    wc::rfc1071_ok(&[&ph, d])
}

/// ICMPv4 echo message (ty 8 request / 0 reply)
pub fn icmp_echo(ty: u8, ident: u16, seq: u16, data: &[u8]) -> Vec<u8> {
    let mut d = vec![ty, 0, 0, 0, (ident >> 8) as u8, ident as u8, (seq >> 8) as u8, seq as u8];
    d.extend_from_slice(data);
    let c = cksum_field(&[&d]);
    d[2] = (c >> 8) as u8;
    d[3] = c as u8;
    d
}

pub fn eth_wrap(dst: [u8; 6], src: [u8; 6], ethertype: u16, payload: &[u8]) -> Vec<u8> {
    let mut f = Vec::with_capacity(14 + payload.len());
    f.extend_from_slice(&dst);
    f.extend_from_slice(&src);
    f.push((ethertype >> 8) as u8);
    f.push(ethertype as u8);
    f.extend_from_slice(payload);
    f
}

/// unsolicited ARP reply neighbour -> us (fills smoltcp's neighbor cache)
pub fn arp_reply_from(mac: [u8; 6], ip: [u8; 4]) -> Vec<u8> {
    let mut a = vec![0, 1, 8, 0, 6, 4, 0, 2];
    a.extend_from_slice(&mac);
    a.extend_from_slice(&ip);
    a.extend_from_slice(&OUR_MAC);
    a.extend_from_slice(&OUR_IP);
    eth_wrap(OUR_MAC, mac, 0x0806, &a)
}
pub fn arp_reply() -> Vec<u8> {
    arp_reply_from(PEER_MAC, PEER_IP)
}

/// inbound frame for the given medium, sent by the neighbour with hardware address `src_mac`
pub fn inbound_from(ethernet: bool, src_mac: [u8; 6], ip_packet: Vec<u8>) -> Vec<u8> {
    if ethernet {
        eth_wrap(OUR_MAC, src_mac, 0x0800, &ip_packet)
    } else {
        ip_packet
    }
}
/// inbound frame for the given medium (from the peer)
pub fn inbound(ethernet: bool, ip_packet: Vec<u8>) -> Vec<u8> {
    inbound_from(ethernet, PEER_MAC, ip_packet)
}

pub type Key = ([u8; 4], [u8; 4], u8, u16);

/// One IPv4 packet seen on the sender's device.
#[derive(Clone, Debug)]
pub struct Frag {
    pub key: Key,
    pub off: usize,
    pub mf: bool,
    pub df: bool,
    pub payload: Vec<u8>,
    pub hdr_cksum_ok: bool,
    /// length of the frame as handed to the device (incl. Ethernet header)
    pub frame_len: usize,
    /// link-layer destination (Medium::Ethernet only)
    pub eth_dst: Option<[u8; 6]>,
}

/// Parse a frame emitted by the stack. Err = not a well formed IPv4 frame for this medium.
pub fn parse_tx_frame(ethernet: bool, frame: &[u8]) -> Result<Frag, String> {
    let ip = if ethernet {
        if frame.len() < 14 {
            return Err(format!("Ethernet frame of {} bytes", frame.len()));
        }
        let et = ((frame[12] as u16) << 8) | frame[13] as u16;
        if et != 0x0800 {
            return Err(format!("ethertype {:#06x} (expected IPv4; neighbor was pre-resolved)", et));
        }
        if frame[6..12] != OUR_MAC {
            return Err(format!("Ethernet source {:02x?} is not our address", &frame[6..12]));
        }
        &frame[14..]
    } else {
        frame
    };
    let i = wc::parse_ip(ip)?;
    if i.version != 4 {
        return Err("not IPv4".into());
    }
    let a4 = |a: &wc::Addr| match a {
        wc::Addr::V4(x) => *x,
        _ => [0; 4],
    };
    Ok(Frag {
        key: (a4(&i.src), a4(&i.dst), i.proto, i.ident),
        off: i.frag_offset,
        mf: i.more_frags,
        df: i.dont_frag,
        payload: ip[i.payload_off..i.payload_off + i.payload_len].to_vec(),
        hdr_cksum_ok: i.header_checksum_ok,
        frame_len: frame.len(),
        eth_dst: if ethernet { Some([frame[0], frame[1], frame[2], frame[3], frame[4], frame[5]]) } else { None },
    })
}

pub fn group(frags: &[Frag]) -> BTreeMap<Key, Vec<Frag>> {
    let mut m: BTreeMap<Key, Vec<Frag>> = BTreeMap::new();
    for f in frags {
        m.entry(f.key).or_default().push(f.clone());
    }
    m
}

/// Independent reassembly of ONE group (same key). Ok(datagram payload) or Err((clause, cause,
/// text)) naming the first structural rule broken.
pub fn reassemble(frs: &[Frag]) -> Result<Vec<u8>, (&'static str, &'static str, String)> {
    let mut v: Vec<&Frag> = frs.iter().collect();
    v.sort_by_key(|f| (f.off, f.payload.len()));
    let mut out: Vec<u8> = vec![];
    for (n, f) in v.iter().enumerate() {
        let last = n + 1 == v.len();
        if f.off % 8 != 0 {
            // cannot happen with a 13-bit field in 8-byte units; kept for completeness
            return Err(("offset-align", "offset-not-multiple-of-8", format!("offset {}", f.off)));
        }
        if f.off > out.len() {
            return Err(("contiguous", "gap", format!("bytes {}..{} of the datagram never appear (next fragment starts at {})", out.len(), f.off, f.off)));
        }
        if f.off < out.len() {
            return Err(("contiguous", "overlap-or-duplicate", format!("fragment at offset {} len {} overlaps bytes already carried (up to {})", f.off, f.payload.len(), out.len())));
        }
        if !last && !f.mf {
            return Err(("mf-flag", "mf-clear-on-non-last", format!("fragment at offset {} has MF=0 but a fragment at offset {} follows", f.off, v[n + 1].off)));
        }
        if last && f.mf {
            return Err(("mf-flag", "mf-set-on-last", format!("fragment with the highest offset {} (len {}) has MF=1: the datagram never ends", f.off, f.payload.len())));
        }
        if !last && f.payload.len() % 8 != 0 {
            return Err(("offset-align", "non-last-length-not-multiple-of-8", format!("non-last fragment at {} has length {}", f.off, f.payload.len())));
        }
        if !last && f.payload.is_empty() {
            return Err(("contiguous", "empty-fragment", format!("empty non-last fragment at {}", f.off)));
        }
        if (f.mf || f.off != 0) && f.df {
            return Err(("mf-flag", "df-set-on-fragment", format!("fragment at {} has DF set", f.off)));
        }
        out.extend_from_slice(&f.payload);
    }
    Ok(out)
}

pub fn describe(f: &Frag) -> String {
    format!(
        "IPv4 {}.{}.{}.{}>{}.{}.{}.{} proto={} id={:#06x} off={} len={} MF={} DF={} hdrck={} frame={}B",
        f.key.0[0], f.key.0[1], f.key.0[2], f.key.0[3], f.key.1[0], f.key.1[1], f.key.1[2], f.key.1[3],
        f.key.2, f.key.3, f.off, f.payload.len(), f.mf as u8, f.df as u8, if f.hdr_cksum_ok { "ok" } else { "BAD" }, f.frame_len
    ) + &match f.eth_dst {
        Some(m) => format!(" ethdst={:02x}:{:02x}:{:02x}:{:02x}:{:02x}:{:02x}", m[0], m[1], m[2], m[3], m[4], m[5]),
        None => String::new(),
    }
}
