//! Sender side: the wire tracker (independent oracle over captured frames), the single-datagram
//! sweep S1 and the sequential-pair sweep S1b.

use super::wire::*;
use super::*;
use std::collections::BTreeMap;

#[derive(Clone, Copy, Debug, PartialEq, Eq, PartialOrd, Ord)]
pub(crate) enum Kind {
    Udp(u8),
    Raw,
    Reply,
}
impl Kind {
    pub fn class(&self) -> &'static str {
        match self {
            Kind::Reply => "ingress-reply",
            _ => "socket-datagram",
        }
    }
}

/// A datagram the stack accepted (or an echo reply it may decide to send): what must appear on
/// the wire, and what has appeared so far.
#[derive(Clone, Debug)]
pub(crate) struct Exp {
    pub kind: Kind,
    pub label: String,
    pub proto: u8,
    /// expected IP payload (UDP header+payload / raw payload / ICMP echo reply)
    pub image: Vec<u8>,
    /// an echo reply may legitimately be dropped as a whole
    pub optional: bool,
    /// IP destination (the peer, or the second neighbour B for replies to B)
    pub dst: [u8; 4],
    // --- progress
    pub key: Option<Key>,
    /// merged, sorted (start, end) byte ranges of the IP payload seen on the wire
    pub cov: Vec<(usize, usize)>,
    pub frags: Vec<Frag>,
    pub corrupt: bool,
    pub clobbered_by: Option<&'static str>,
}
impl Exp {
    pub fn new(kind: Kind, label: String, proto: u8, image: Vec<u8>, optional: bool) -> Exp {
        Exp { kind, label, proto, image, optional, dst: PEER_IP, key: None, cov: vec![], frags: vec![], corrupt: false, clobbered_by: None }
    }
    pub fn to(mut self, dst: [u8; 4]) -> Exp {
        self.dst = dst;
        self
    }
    pub fn complete(&self) -> bool {
        self.cov.len() == 1 && self.cov[0] == (0, self.image.len())
    }
    pub fn started(&self) -> bool {
        self.key.is_some()
    }
    fn overlaps(&self, a: usize, b: usize) -> bool {
        // zero-length payloads cannot overlap anything
        a < b && self.cov.iter().any(|&(s, e)| a < e && s < b)
    }
    fn add_cov(&mut self, a: usize, b: usize) {
        self.cov.push((a, b));
        self.cov.sort();
        let mut m: Vec<(usize, usize)> = vec![];
        for &(s, e) in &self.cov {
            match m.last_mut() {
                Some(l) if s <= l.1 => l.1 = l.1.max(e),
                _ => m.push((s, e)),
            }
        }
        self.cov = m;
    }
    /// does this fragment carry exactly the bytes of this datagram at its offset?
    /// Lenient: for UDP a zero checksum field ("no checksum", legal over IPv4) is accepted too.
    fn matches(&self, f: &Frag) -> bool {
        let (a, b) = (f.off, f.off + f.payload.len());
        if f.key.1 != self.dst || b > self.image.len() || f.mf != (b < self.image.len()) {
            return false;
        }
        if f.payload[..] == self.image[a..b] {
            return true;
        }
        if self.proto == PROTO_UDP && a == 0 && b >= 8 {
            let mut alt = self.image[a..b].to_vec();
            alt[6] = 0;
            alt[7] = 0;
            return f.payload[..] == alt[..];
        }
        false
    }
    /// (cause, text): which part of the datagram differs
    fn diff(&self, f: &Frag) -> (&'static str, String) {
        let (a, b) = (f.off, f.off + f.payload.len());
        if b > self.image.len() {
            return ("length", format!("fragment covers bytes {}..{} but the datagram has only {} bytes", a, b, self.image.len()));
        }
        if f.mf != (b < self.image.len()) {
            return (
                "mf-flag-vs-length",
                format!("fragment {}..{} of a {}-byte datagram has MF={}", a, b, self.image.len(), f.mf as u8),
            );
        }
        let i = (0..f.payload.len()).find(|&i| f.payload[i] != self.image[a + i]).unwrap_or(0);
        let pos = a + i;
        let cause = match self.proto {
            PROTO_UDP if pos < 4 => "udp-ports",
            PROTO_UDP if pos < 6 => "udp-length",
            PROTO_UDP if pos < 8 => "udp-checksum",
            PROTO_ICMP if pos < 2 => "icmp-type-code",
            PROTO_ICMP if pos < 4 => "icmp-checksum",
            PROTO_ICMP if pos < 8 => "icmp-echo-header",
            _ => "payload-bytes",
        };
        (
            cause,
            format!(
                "first difference at datagram byte {}: wire {:#04x}, expected {:#04x} (fragment offset {}, len {})",
                pos,
                f.payload[i],
                self.image[a + i],
                a,
                f.payload.len()
            ),
        )
    }
}

/// Incremental oracle over the frames captured on the sender's device.
pub(crate) struct Tracker {
    pub eth: bool,
    pub dev_mtu: usize,
    pub exps: Vec<Exp>,
    pub bind: BTreeMap<Key, usize>,
    pub frames: Vec<Vec<u8>>,
    pub machinery: Vec<String>,
    /// false when the device declared that IT computes the IPv4 header checksum on transmit
    /// (capability Rx / None): the field the stack leaves behind is then not judged
    pub judge_ip_cksum: bool,
}

impl Tracker {
    pub fn new(eth: bool, dev_mtu: usize) -> Tracker {
        Tracker { eth, dev_mtu, exps: vec![], bind: BTreeMap::new(), frames: vec![], machinery: vec![], judge_ip_cksum: true }
    }
    pub fn expect(&mut self, e: Exp) -> usize {
        self.exps.push(e);
        self.exps.len() - 1
    }
    /// Feed one captured frame; per-frame clauses are checked here.
    pub fn feed(&mut self, frame: &[u8], out: &mut Vec<Viol>) {
        self.frames.push(frame.to_vec());
        if frame.len() > self.dev_mtu {
            out.push(Viol::new(
                "C12/tx/fits-mtu/frame-exceeds-mtu",
                format!("frame of {} bytes handed to a device with MTU {}", frame.len(), self.dev_mtu),
            ));
        }
        let f = match parse_tx_frame(self.eth, frame) {
            Ok(f) => f,
            Err(e) => {
                if e.starts_with("ethertype") {
                    self.machinery.push(format!("unexpected non-IPv4 frame: {}", e));
                } else {
                    // includes: IPv4 total length field != bytes handed to the device
                    out.push(Viol::new("C12/tx/wellformed/unparsable-ipv4-frame", format!("{} :: {}", e, hex(frame))));
                }
                return;
            }
        };
        if self.judge_ip_cksum && !f.hdr_cksum_ok {
            out.push(Viol::new("C12/tx/header-checksum/bad", format!("IPv4 header checksum wrong: {}", describe(&f))));
        }
        if f.key.0 != OUR_IP || mac_of(f.key.1).is_none() {
            out.push(Viol::new("C12/tx/identical/addresses", format!("unexpected addresses: {}", describe(&f))));
            return;
        }
        // Link layer (Ethernet): every IPv4 frame, first fragment or later one, must be addressed
        // to the hardware address of the neighbour that owns its IP destination (both neighbours
        // are on-link and pre-resolved, so the next hop IS the destination). A fragment that
        // leaves towards another station is lost for the receiver of the datagram although the
        // IP packet itself is flawless.
        if let (Some(got), Some(want)) = (f.eth_dst, mac_of(f.key.1)) {
            if got != want {
                out.push(Viol::new(
                    "C12/tx/lost/fragment-sent-to-wrong-hardware-address",
                    format!("{}: the IP destination is owned by {:02x?}; {}", describe(&f), want, if f.mf || f.off != 0 { "this fragment never reaches the station that reassembles the datagram" } else { "this datagram never reaches its destination" }),
                ));
            }
        }
        if (f.mf || f.off != 0) && f.df {
            out.push(Viol::new("C12/tx/mf-flag/df-set-on-fragment", describe(&f)));
        }
        let (a, b) = (f.off, f.off + f.payload.len());
        // An unfragmented packet (MF=0, offset 0) is a whole datagram by itself: its
        // identification carries no meaning (RFC 6864; smoltcp emits id 0 + DF for all of them),
        // so it is never grouped with other packets by id.
        let atomic = !f.mf && f.off == 0;
        if atomic {
            let cand = self.exps.iter().position(|e| e.key.is_none() && e.proto == f.key.2 && e.matches(&f));
            match cand {
                Some(ei) => {
                    let e = &mut self.exps[ei];
                    e.key = Some(f.key);
                    e.add_cov(a, b);
                    e.frags.push(f);
                }
                None => {
                    // same length as an outstanding datagram of this protocol => corrupted copy of it
                    let near = self.exps.iter().position(|e| e.key.is_none() && e.proto == f.key.2 && e.dst == f.key.1 && e.image.len() == b);
                    match near {
                        Some(ei) => {
                            let e = &mut self.exps[ei];
                            let (cause, text) = e.diff(&f);
                            e.key = Some(f.key);
                            e.corrupt = true;
                            out.push(Viol::new(format!("C12/tx/identical/{}", cause), format!("{} ({}): {}", e.label, describe(&f), text)));
                            e.frags.push(f);
                        }
                        None => out.push(Viol::new(
                            "C12/tx/once/frame-of-no-outstanding-datagram",
                            format!("{} (unfragmented) belongs to no datagram that is still outstanding (duplicate of a completed one, or never accepted); payload {}", describe(&f), hex(&f.payload[..f.payload.len().min(32)])),
                        )),
                    }
                }
            }
            return;
        }
        if let Some(&ei) = self.bind.get(&f.key) {
            // continuation of a datagram already on the wire
            let e = &mut self.exps[ei];
            if e.overlaps(a, b) || (e.complete() && a == b) {
                out.push(Viol::new(
                    "C12/tx/once/fragment-duplicated-or-overlapping",
                    format!("{}: bytes {}..{} of {} were already transmitted (coverage {:?})", describe(&f), a, b, e.label, e.cov),
                ));
                e.frags.push(f);
                return;
            }
            if !e.matches(&f) {
                let (cause, text) = e.diff(&f);
                // a fragment under the id of datagram X that does not carry X's bytes: is it
                // another accepted datagram's content (mixing) or plain corruption?
                let foreign = self.exps.iter().enumerate().find(|(j, o)| *j != ei && o.proto == f.key.2 && o.matches(&f)).map(|(_, o)| o.label.clone());
                let e = &mut self.exps[ei];
                e.corrupt = true;
                match foreign {
                    Some(l) => out.push(Viol::new(
                        "C12/tx/mixed/fragment-of-other-datagram-under-same-id",
                        format!("{} carries bytes of {} under the id of {}", describe(&f), l, e.label),
                    )),
                    None => out.push(Viol::new(format!("C12/tx/identical/{}", cause), format!("{} ({}): {}", e.label, describe(&f), text))),
                }
                e.frags.push(f);
                return;
            }
            e.add_cov(a, b);
            e.frags.push(f);
            return;
        }
        // a new id: must be (a fragment of) a datagram not yet seen on the wire
        let cand = self.exps.iter().position(|e| e.key.is_none() && e.proto == f.key.2 && e.matches(&f));
        let (ei, exact) = match cand {
            Some(i) => (i, true),
            None => match self.exps.iter().position(|e| e.key.is_none() && e.proto == f.key.2 && e.dst == f.key.1) {
                Some(i) => (i, false),
                None => {
                    out.push(Viol::new(
                        "C12/tx/once/frame-of-no-outstanding-datagram",
                        format!("{} belongs to no datagram that is still outstanding (duplicate of a completed one, or never accepted); payload {}", describe(&f), hex(&f.payload[..f.payload.len().min(32)])),
                    ));
                    return;
                }
            },
        };
        let class = self.exps[ei].kind.class();
        if f.mf {
            // a new datagram enters the stack's fragmenter: remember who interrupted whom
            for (j, o) in self.exps.iter_mut().enumerate() {
                if j != ei && o.started() && !o.complete() && o.clobbered_by.is_none() {
                    o.clobbered_by = Some(class);
                }
            }
        }
        self.bind.insert(f.key, ei);
        let e = &mut self.exps[ei];
        e.key = Some(f.key);
        if exact {
            e.add_cov(a, b);
        } else {
            let (cause, text) = e.diff(&f);
            e.corrupt = true;
            out.push(Viol::new(format!("C12/tx/identical/{}", cause), format!("{} ({}): {}", e.label, describe(&f), text)));
        }
        e.frags.push(f);
    }

    /// datagrams that still owe bytes to the wire: accepted (or started) and not complete
    pub fn outstanding(&self) -> Vec<usize> {
        (0..self.exps.len()).filter(|&i| {
            let e = &self.exps[i];
            !e.corrupt && !e.complete() && (e.started() || !e.optional)
        }).collect()
    }

    /// End-of-run clauses, to be called at quiescence (device accepting, polled until nothing
    /// more happens).
    pub fn finish(&mut self, out: &mut Vec<Viol>) {
        for e in &self.exps {
            if e.corrupt {
                continue; // already reported
            }
            if e.complete() {
                // second opinion: standalone reassembly of the whole group
                match reassemble(&e.frags) {
                    Ok(d) => {
                        let mut ok = d == e.image;
                        if !ok && e.proto == PROTO_UDP && d.len() == e.image.len() && d.len() >= 8 {
                            let mut alt = e.image.clone();
                            alt[6] = 0;
                            alt[7] = 0;
                            ok = d == alt;
                        }
                        if !ok {
                            out.push(Viol::new("C12/tx/identical/reassembled-differs", format!("{}: reassembled datagram differs from the original", e.label)));
                        }
                    }
                    Err((clause, cause, text)) => out.push(Viol::new(format!("C12/tx/{}/{}", clause, cause), format!("{}: {}", e.label, text))),
                }
                continue;
            }
            if e.started() {
                let cause = match e.clobbered_by {
                    Some("ingress-reply") => "tail-lost-after-ingress-reply-started",
                    Some(_) => "tail-lost-after-socket-datagram-started",
                    None => "tail-never-transmitted",
                };
                out.push(Viol::new(
                    format!("C12/tx/complete/{}", cause),
                    format!(
                        "{} ({} bytes): only bytes {:?} appeared on the wire ({} fragment(s), id {:#06x}); at quiescence the rest was never transmitted",
                        e.label,
                        e.image.len(),
                        e.cov,
                        e.frags.len(),
                        e.key.unwrap().3
                    ),
                ));
            } else if !e.optional {
                out.push(Viol::new(
                    "C12/tx/complete/accepted-never-transmitted",
                    format!("{} ({} bytes) was accepted by send() but nothing of it ever appeared on the wire", e.label, e.image.len()),
                ));
            }
        }
    }

    pub fn describe_frames(&self) -> Vec<String> {
        self.frames
            .iter()
            .map(|fr| match parse_tx_frame(self.eth, fr) {
                Ok(f) => describe(&f),
                Err(e) => format!("<{}> {}", e, hex(fr)),
            })
            .collect()
    }
}

// ---------------------------------------------------------------------------------------
// scenarios: a list of datagrams, each run to quiescence before the next one
// ---------------------------------------------------------------------------------------

#[derive(Clone, Copy, Debug, PartialEq, Eq)]
pub(crate) enum Step {
    /// UDP payload length
    Udp(usize),
    /// raw IP payload length
    Raw(usize),
    /// inbound echo request with this ICMP length (header+data >= 8)
    Echo(usize),
    /// configuration pseudo-step, only as the first step: the interface's IPv4 identification
    /// counter starts at this value (instead of wherever the default seed puts it)
    IdStart(u16),
    /// inbound echo request (ICMP length) from the second neighbour B (10.0.0.3 / 02:..:03);
    /// the reply goes to B
    EchoB(usize),
    /// configuration pseudo-step: the NEXT datagram step is followed by exactly this many polls
    /// instead of polling to quiescence, so that its remaining fragments are still pending in
    /// the stack when the step after it happens
    Hold(u16),
    /// configuration pseudo-step (leading): the device declares checksum capabilities variant
    /// CSUM_VARIANTS[i]
    Csum(u8),
    /// configuration pseudo-step (leading): how the application drives the interface.
    /// bit 0: poll ONLY when the device has received something or `poll_at` names a deadline
    /// (sleep until then; `None` = sleep forever); bit 1: the device accepts one frame per poll
    Drive(u8),
}
impl Step {
    fn to_json(self) -> Value {
        match self {
            Step::Udp(n) => json!(["udp", n]),
            Step::Raw(n) => json!(["raw", n]),
            Step::Echo(n) => json!(["echo", n]),
            Step::IdStart(v) => json!(["id-start", v]),
            Step::EchoB(n) => json!(["echo-b", n]),
            Step::Hold(k) => json!(["hold", k]),
            Step::Csum(i) => json!(["csum", i]),
            Step::Drive(d) => json!(["drive", d]),
        }
    }
    fn from_json(v: &Value) -> Option<Step> {
        let n = v[1].as_u64()? as usize;
        match v[0].as_str()? {
            "udp" => Some(Step::Udp(n)),
            "raw" => Some(Step::Raw(n)),
            "echo" => Some(Step::Echo(n)),
            "id-start" => Some(Step::IdStart(n as u16)),
            "echo-b" => Some(Step::EchoB(n)),
            "hold" => Some(Step::Hold(n as u16)),
            "csum" => Some(Step::Csum(n as u8)),
            "drive" => Some(Step::Drive(n as u8)),
            _ => None,
        }
    }
    /// total IP length of the datagram the stack has to emit
    fn ip_len(self) -> usize {
        match self {
            Step::Udp(n) => 28 + n,
            Step::Raw(n) | Step::Echo(n) | Step::EchoB(n) => 20 + n,
            Step::IdStart(_) | Step::Hold(_) | Step::Csum(_) | Step::Drive(_) => 0,
        }
    }
}

pub(crate) struct ScenarioResult {
    pub viols: Vec<Viol>,
    pub machinery: Vec<String>,
    pub frames: Vec<String>,
    pub n_frames: usize,
    pub polls: u64,
    /// per step: "sent", "refused", "dropped-whole", "reply-absent"
    pub outcomes: Vec<&'static str>,
    pub udp_zero_cksum: usize,
}

/// Run the steps on a fresh interface. After each step the interface is polled until poll_at is
/// None and nothing more comes out.
pub(crate) fn run_scenario(eth: bool, ip_mtu: usize, steps: &[Step]) -> ScenarioResult {
    let mut viols = vec![];
    let id_start = steps.iter().find_map(|s| if let Step::IdStart(v) = s { Some(*v) } else { None });
    let csum = steps.iter().find_map(|s| if let Step::Csum(i) = s { Some(*i) } else { None }).unwrap_or(0);
    let mut net = match Net::new_full(eth, ip_mtu, id_start, csum) {
        Ok(n) => n,
        Err(e) => {
            return ScenarioResult { viols, machinery: vec![e], frames: vec![], n_frames: 0, polls: 0, outcomes: vec![], udp_zero_cksum: 0 }
        }
    };
    let hu = net.add_udp(UDP_PORT0, 1, 64, 2, 4096);
    let hr = net.add_raw(1, 64, 2, 4096);
    let mut tr = Tracker::new(eth, net.dev_mtu());
    let caps = csum_caps(csum);
    tr.judge_ip_cksum = stack_computes_on_tx(&caps.ipv4);
    let fragbuf = smoltcp::config::FRAGMENTATION_BUFFER_SIZE;
    let mut outcomes = vec![];
    let mut hold: Option<u16> = None;
    let drive = Drive::from_bits(steps.iter().find_map(|s| if let Step::Drive(d) = s { Some(*d) } else { None }).unwrap_or(0));
    let mut clock = now();
    let settle = |net: &mut Net, tr: &mut Tracker, viols: &mut Vec<Viol>, clock: &mut Instant| settle_drive(net, tr, viols, drive, clock);
    for (si, st) in steps.iter().enumerate() {
        let salt = 1 + si as u32;
        let must_fit = st.ip_len() <= ip_mtu || st.ip_len() <= fragbuf;
        let mut accepted = true;
        let ei = match *st {
            Step::IdStart(_) | Step::Csum(_) | Step::Drive(_) => {
                outcomes.push("config");
                continue;
            }
            Step::Hold(k) => {
                hold = Some(k);
                outcomes.push("config");
                continue;
            }
            Step::EchoB(n) => {
                let data = pattern(n - 8, salt);
                let img = net.inject_echo_request_from(PEER_B_IP, PEER_B_MAC, 0x7000 + si as u16, 0x4242, si as u16, &data);
                tr.expect(Exp::new(Kind::Reply, format!("#{} echo reply to B icmp len {}", si, n), PROTO_ICMP, img, true).to(PEER_B_IP))
            }
            Step::Udp(n) => {
                let p = pattern(n, salt);
                accepted = net.udp_send(hu, &p).is_ok();
                let img = udp_datagram(OUR_IP, PEER_IP, UDP_PORT0, PEER_PORT, &p);
                debug_assert!(udp_checksum_ok(OUR_IP, PEER_IP, &img));
                tr.expect(Exp::new(Kind::Udp(0), format!("#{} udp payload {}", si, n), PROTO_UDP, img, false))
            }
            Step::Raw(n) => {
                let p = pattern(n, salt);
                accepted = net.raw_send(hr, &p).is_ok();
                tr.expect(Exp::new(Kind::Raw, format!("#{} raw payload {}", si, n), PROTO_RAW, p, false))
            }
            Step::Echo(n) => {
                let data = pattern(n - 8, salt);
                let img = net.inject_echo_request(0x7000 + si as u16, 0x4242, si as u16, &data);
                // lenient: C12 does not oblige the stack to answer; nothing or the exact reply
                tr.expect(Exp::new(Kind::Reply, format!("#{} echo reply icmp len {}", si, n), PROTO_ICMP, img, true))
            }
        };
        if !accepted {
            // send() refused the datagram: nothing may appear
            tr.exps[ei].optional = true;
        }
        if !must_fit {
            // larger than the MTU and than the fragmentation buffer: the stack cannot send it;
            // lenient: either nothing on the wire or (however it manages) the complete datagram
            tr.exps[ei].optional = true;
        }
        let held = hold.take();
        match held {
            Some(k) => {
                // exactly k polls: whatever the stack has not sent by then stays pending
                for _ in 0..k {
                    net.poll();
                    for (_, f) in net.dev.take_tx() {
                        tr.feed(&f, &mut viols);
                    }
                }
            }
            None => {
                if !settle(&mut net, &mut tr, &mut viols, &mut clock) {
                    // not C12's business (C13), but the completeness verdict below would be unfounded
                    tr.machinery.push(format!("no quiescence after 400 polls in step {:?}", st));
                }
            }
        }
        let e = &tr.exps[ei];
        outcomes.push(if !accepted {
            "refused-by-send"
        } else if e.started() {
            "on-wire"
        } else if matches!(st, Step::Echo(_) | Step::EchoB(_)) {
            "reply-absent"
        } else {
            "dropped-whole"
        });
        if !accepted && e.started() {
            viols.push(Viol::new("C12/tx/once/refused-datagram-on-wire", format!("{}: send() returned an error but the datagram was transmitted", e.label)));
        }
        if held.is_none() && !must_fit && e.started() && !e.complete() && !e.corrupt {
            viols.push(Viol::new(
                "C12/tx/oversize/partial-on-wire",
                format!("{}: {} bytes exceed MTU {} and the {}-byte fragmentation buffer, yet part of it ({:?}) was transmitted", e.label, st.ip_len(), ip_mtu, fragbuf, e.cov),
            ));
            tr.exps[ei].corrupt = true; // do not report the same thing as tail-never-transmitted
        }
    }
    // final quiescence (a no-op unless the last datagram step was held)
    if !settle(&mut net, &mut tr, &mut viols, &mut clock) {
        tr.machinery.push("no quiescence after 400 polls at the end of the scenario".into());
    }
    tr.finish(&mut viols);
    let udp_zero = tr
        .exps
        .iter()
        .filter(|e| e.proto == PROTO_UDP && e.complete())
        .filter(|e| e.frags.iter().any(|f| f.off == 0 && f.payload.len() >= 8 && f.payload[6] == 0 && f.payload[7] == 0))
        .count();
    ScenarioResult {
        viols,
        machinery: tr.machinery.clone(),
        frames: tr.describe_frames(),
        n_frames: tr.frames.len(),
        polls: net.polls,
        outcomes,
        udp_zero_cksum: udp_zero,
    }
}

/// How the application drives the interface while a scenario settles.
#[derive(Clone, Copy, Debug, PartialEq, Eq)]
pub(crate) struct Drive {
    /// poll only on ingress or when `poll_at` says so (deadline None = stop); otherwise poll
    /// unconditionally until nothing comes out any more
    pub follow: bool,
    /// the device accepts one frame per poll (transmit budget re-armed to 1 before every poll)
    pub one_frame_per_poll: bool,
}
impl Drive {
    pub fn from_bits(b: u8) -> Drive {
        Drive { follow: b & 1 != 0, one_frame_per_poll: b & 2 != 0 }
    }
}

fn poll_and_capture(net: &mut Net, tr: &mut Tracker, viols: &mut Vec<Viol>, drive: Drive, t: Instant) -> bool {
    if drive.one_frame_per_poll {
        net.dev.tx_budget = Some(1);
    }
    net.poll_t(t);
    let fr = net.dev.take_tx();
    let got = !fr.is_empty();
    for (_, f) in fr {
        tr.feed(&f, viols);
    }
    got
}

/// Bring the interface to rest. Returns false if it does not come to rest (machinery).
///
/// Unconditional discipline: poll until a poll produced nothing, nothing is queued inbound and
/// `poll_at` is None.
///
/// poll_at-following discipline (an application that sleeps until told otherwise): poll when
/// the device has received something; otherwise ask `poll_at`: None = sleep forever = stop;
/// Some(t) = sleep until t (the clock moves to t if that is in the future), then poll. When it
/// stops, everything the stack accepted must be completely on the wire. If something is missing
/// and unconditional polling afterwards DOES bring it out, the stack was sitting on fragments
/// without asking to be polled: `C12/tx/complete/stalls-when-following-poll-at`. (If it stays
/// missing, the usual completeness clauses report it at the end of the scenario.)
pub(crate) fn settle_drive(net: &mut Net, tr: &mut Tracker, viols: &mut Vec<Viol>, drive: Drive, clock: &mut Instant) -> bool {
    let unconditional = |net: &mut Net, tr: &mut Tracker, viols: &mut Vec<Viol>, clock: &mut Instant| -> bool {
        for _ in 0..2000 {
            let got = poll_and_capture(net, tr, viols, drive, *clock);
            if !got && net.dev.rx.is_empty() && net.iface.poll_at(*clock, &net.sockets).is_none() {
                return true;
            }
        }
        false
    };
    if !drive.follow {
        return unconditional(net, tr, viols, clock);
    }
    let mut stopped = false;
    for _ in 0..2000 {
        if net.dev.rx.is_empty() {
            match net.iface.poll_at(*clock, &net.sockets) {
                None => {
                    stopped = true;
                    break;
                }
                Some(t) => {
                    if t > *clock {
                        *clock = t;
                    }
                }
            }
        }
        poll_and_capture(net, tr, viols, drive, *clock);
    }
    if !stopped {
        return false;
    }
    let owing = tr.outstanding();
    if !owing.is_empty() {
        let before: Vec<String> = owing.iter().map(|&i| format!("{} ({} bytes): on the wire {:?}", tr.exps[i].label, tr.exps[i].image.len(), tr.exps[i].cov)).collect();
        if !unconditional(net, tr, viols, clock) {
            return false;
        }
        let recovered: Vec<&String> = owing.iter().zip(before.iter()).filter(|(&i, _)| tr.exps[i].complete()).map(|(_, b)| b).collect();
        if !recovered.is_empty() {
            viols.push(Viol::new(
                "C12/tx/complete/stalls-when-following-poll-at",
                format!(
                    "poll_at returned None (nothing queued inbound) while the stack still held untransmitted fragments: {}; polling anyway afterwards brought the rest out{}",
                    recovered.iter().map(|s| s.as_str()).collect::<Vec<_>>().join("; "),
                    if drive.one_frame_per_poll { " (device accepts one frame per poll)" } else { "" }
                ),
            ));
        }
    }
    true
}

/// `run_scenario` with every call into smoltcp isolated: a panic becomes the localised violation
/// `C12/panic/<part>/<site>`; the caller continues with the remaining cases.
pub(crate) fn run_scenario_caught(part: &str, eth: bool, ip_mtu: usize, steps: &[Step]) -> ScenarioResult {
    match std::panic::catch_unwind(std::panic::AssertUnwindSafe(|| run_scenario(eth, ip_mtu, steps))) {
        Ok(r) => r,
        Err(e) => ScenarioResult {
            viols: vec![Viol::new(
                format!("C12/panic/{}/{}", part, stable_site(&panic_site())),
                format!("panic inside the stack while sending/polling: {} at {}", panic_msg(e), last_panic_loc()),
            )],
            machinery: vec![],
            frames: vec![],
            n_frames: 0,
            polls: 0,
            outcomes: steps.iter().map(|_| "panic").collect(),
            udp_zero_cksum: 0,
        },
    }
}

fn scenario_json(part: &str, eth: bool, ip_mtu: usize, steps: &[Step]) -> Value {
    json!({"part": part, "medium": medium_name(eth), "ip_mtu": ip_mtu, "steps": steps.iter().map(|s| s.to_json()).collect::<Vec<_>>()})
}

/// Run many scenarios in parallel, fold deterministically (in domain order).
fn sweep(rep: &mut Report, part: &str, cases: &[(bool, usize, Vec<Step>)]) -> (BTreeMap<String, u64>, u64, u64, u64) {
    use rayon::prelude::*;
    let res: Vec<ScenarioResult> = cases.par_iter().map(|(eth, mtu, steps)| run_scenario_caught(part, *eth, *mtu, steps)).collect();
    let mut outcomes: BTreeMap<String, u64> = BTreeMap::new();
    let (mut frames, mut polls, mut zero) = (0u64, 0u64, 0u64);
    for (c, r) in cases.iter().zip(res.iter()) {
        for (st, o) in c.2.iter().zip(r.outcomes.iter()) {
            let nf = if st.ip_len() <= c.1 { "unfragmented" } else { "fragmented" };
            *outcomes.entry(format!("{}/{}", nf, o)).or_insert(0) += 1;
        }
        frames += r.n_frames as u64;
        polls += r.polls;
        zero += r.udp_zero_cksum as u64;
        for m in &r.machinery {
            if rep.machinery_errors.len() < 5 {
                rep.machinery_errors.push(format!("{} {:?}: {}", part, c, m));
            }
        }
        for v in &r.viols {
            rep.violation(v.sig.clone(), format!("[{} {} mtu {} {:?}] {}", part, medium_name(c.0), c.1, c.2, v.detail), scenario_json(part, c.0, c.1, &c.2));
        }
    }
    (outcomes, frames, polls, zero)
}

pub(crate) fn run_s1(rep: &mut Report, tier: Tier) {
    let fragbuf = smoltcp::config::FRAGMENTATION_BUFFER_SIZE;
    let max_payload = fragbuf.saturating_sub(28);
    let mtus: Vec<usize> = match tier {
        Tier::Quick => vec![68, 76, 100, 576, 1500],
        Tier::Thorough => vec![68, 69, 75, 76, 100, 576, 577, 1280, 1500],
    };
    // beyond the fragmentation buffer: must be dropped as a whole when it does not fit the MTU
    let beyond: Vec<usize> = vec![max_payload + 1, max_payload + 2, max_payload + 8, max_payload + 9, fragbuf, 2000, 3000];
    let mut cases: Vec<(bool, usize, Vec<Step>)> = vec![];
    let mut per_mtu = serde_json::Map::new();
    for eth in [false, true] {
        for &mtu in &mtus {
            let piece = (mtu - 20) / 8 * 8;
            let lens: Vec<usize> = if tier == Tier::Thorough || mtu == 100 || mtu == 576 {
                // every length up to the fragmentation buffer
                (0..=max_payload).collect()
            } else {
                // boundary lengths around k * fragment size (IP payload = 8 + n)
                let mut v = vec![0usize, 1, 7, 8, 9, max_payload - 1, max_payload];
                let mut k = 1;
                while k * piece <= max_payload + 8 + 2 {
                    for d in [-9i64, -8, -7, -2, -1, 0, 1, 2, 7, 8, 9] {
                        let ip_payload = k as i64 * piece as i64 + d;
                        let n = ip_payload - 8;
                        if n >= 0 && n as usize <= max_payload {
                            v.push(n as usize);
                        }
                    }
                    k += 1;
                }
                // and around the MTU itself
                for d in [-2i64, -1, 0, 1, 2] {
                    let n = mtu as i64 - 28 + d;
                    if n >= 0 && n as usize <= max_payload {
                        v.push(n as usize);
                    }
                }
                v.sort();
                v.dedup();
                v
            };
            // boundary lengths for the non-default checksum capability variants (quick tier)
            let mut bl = vec![0usize, 1, 7, 8, 9, max_payload - 1, max_payload];
            for k in 1..=(max_payload + 8) / piece {
                for d in [-8i64, -1, 0, 1, 8] {
                    let n = (k * piece) as i64 + d - 8;
                    if n >= 0 && n as usize <= max_payload {
                        bl.push(n as usize);
                    }
                }
            }
            bl.sort();
            bl.dedup();
            let other = if tier == Tier::Thorough { lens.clone() } else { bl };
            per_mtu.insert(
                format!("{}/{}", medium_name(eth), mtu),
                json!({"lengths": lens.len(), "lengths_per_non_default_checksum_variant": other.len(), "beyond_buffer": beyond.len(), "fragment_payload": piece}),
            );
            for &n in lens.iter().chain(beyond.iter()) {
                cases.push((eth, mtu, vec![Step::Udp(n)]));
            }
            for c in 1..CSUM_VARIANTS.len() as u8 {
                for &n in other.iter().chain(beyond.iter()) {
                    cases.push((eth, mtu, vec![Step::Csum(c), Step::Udp(n)]));
                }
            }
        }
    }
    let (outcomes, frames, polls, zero) = sweep(rep, "s1", &cases);
    rep.add_count("states", cases.len() as u64);
    rep.add_count("transitions", cases.len() as u64);
    rep.add_count("evaluations", cases.len() as u64);
    rep.add_count("real_code_steps", polls);
    let nontrivial = outcomes.iter().filter(|(k, _)| k.starts_with("fragmented/on-wire")).map(|(_, v)| *v).sum::<u64>();
    rep.add_count("distinct_nontrivial", nontrivial);
    rep.cov(
        "s1",
        json!({"what": "one UDP datagram per fresh interface, polled until poll_at is None and nothing more comes out",
            "domain": Value::Object(per_mtu), "datagrams": cases.len(), "frames_checked": frames, "polls": polls,
            "outcomes": outcomes, "udp_checksum_zero_accepted_leniently": zero,
            "beyond_buffer_udp_payload_lengths": beyond, "checksum_capability_variants": CSUM_VARIANTS,
            "fragmented_and_complete_on_wire": nontrivial}),
    );
    // samples
    for (eth, mtu, n) in [(false, 100usize, 200usize), (true, 576, 1472)] {
        let r = run_scenario_caught("s1", eth, mtu, &[Step::Udp(n)]);
        rep.samples.push(json!({"part": "s1", "medium": medium_name(eth), "ip_mtu": mtu, "udp_payload": n, "frames": r.frames, "verdict": if r.viols.is_empty() { "ok" } else { "violation" }}));
    }
}

pub(crate) fn run_s1b(rep: &mut Report, tier: Tier) {
    // IP payload lengths (UDP: header included; raw: payload; echo: ICMP length)
    let mtu = 100usize;
    let lens: Vec<usize> = match tier {
        Tier::Quick => vec![18, 81, 108, 161, 208, 400, 1480],
        Tier::Thorough => vec![8, 18, 80, 81, 88, 108, 160, 161, 208, 240, 400, 808, 1479, 1480],
    };
    let mk = |k: u8, l: usize| match k {
        0 => Step::Udp(l - 8),
        1 => Step::Raw(l),
        _ => Step::Echo(l),
    };
    let mut cases = vec![];
    for eth in [false, true] {
        for k1 in 0..3u8 {
            for &l1 in &lens {
                for k2 in 0..3u8 {
                    for &l2 in &lens {
                        for c in 0..CSUM_VARIANTS.len() as u8 {
                            cases.push((eth, mtu, if c == 0 { vec![mk(k1, l1), mk(k2, l2)] } else { vec![Step::Csum(c), mk(k1, l1), mk(k2, l2)] }));
                        }
                    }
                }
            }
        }
    }
    let (outcomes, frames, polls, _) = sweep(rep, "s1b", &cases);
    rep.add_count("states", cases.len() as u64);
    rep.add_count("transitions", cases.len() as u64);
    rep.add_count("evaluations", cases.len() as u64);
    rep.add_count("real_code_steps", polls);
    rep.cov(
        "s1b",
        json!({"what": "two datagrams one after the other on one interface, each polled to quiescence; kinds udp / raw / inbound echo request (reply is ingress-triggered)",
            "domain": {"media": ["ip", "ethernet"], "ip_mtu": mtu, "kinds": ["udp", "raw", "echo"], "ip_payload_lengths": lens, "checksum_capability_variants": CSUM_VARIANTS},
            "pairs": cases.len(), "frames_checked": frames, "polls": polls, "outcomes_per_datagram": outcomes}),
    );
}

/// S1c: the identification counter around its wrap-around. Three datagrams one after the
/// other on an interface whose counter starts at 0xfffd / 0xfffe / 0xffff: the tracker binds
/// every (src, dst, protocol, identification) to one datagram for the whole scenario, so two
/// different fragmented datagrams under one identification are reported as
/// `C12/tx/once/fragment-duplicated-or-overlapping` or `C12/tx/mixed/...`.
pub(crate) fn run_s1c(rep: &mut Report, tier: Tier) {
    let mtu = 100usize;
    let lens: Vec<usize> = match tier {
        Tier::Quick => vec![108, 208],
        Tier::Thorough => vec![81, 108, 208, 400],
    };
    let starts = [0xfffdu16, 0xfffe, 0xffff];
    let mk = |k: u8, l: usize| match k {
        0 => Step::Udp(l - 8),
        1 => Step::Raw(l),
        _ => Step::Echo(l),
    };
    let opts: Vec<Step> = (0..3u8).flat_map(|k| lens.iter().map(move |&l| (k, l))).map(|(k, l)| mk(k, l)).collect();
    let mut cases = vec![];
    for eth in [false, true] {
        for &s in &starts {
            for &a in &opts {
                for &b in &opts {
                    for &c in &opts {
                        cases.push((eth, mtu, vec![Step::IdStart(s), a, b, c]));
                    }
                }
            }
        }
    }
    let (outcomes, frames, polls, _) = sweep(rep, "s1c", &cases);
    rep.add_count("states", cases.len() as u64);
    rep.add_count("transitions", cases.len() as u64);
    rep.add_count("evaluations", cases.len() as u64);
    rep.add_count("real_code_steps", polls);
    rep.cov(
        "s1c",
        json!({"what": "three datagrams one after the other on an interface whose IPv4 identification counter starts just below its wrap-around (Config::random_seed chosen by inverting the PCG32, start value verified through the verif_digest hook); every (src,dst,protocol,id) may name one datagram only",
            "domain": {"media": ["ip", "ethernet"], "ip_mtu": mtu, "id_start": starts, "kinds": ["udp", "raw", "echo"], "ip_payload_lengths": lens},
            "triples": cases.len(), "frames_checked": frames, "polls": polls, "outcomes_per_datagram": outcomes}),
    );
}

/// S1d: an ingress-triggered reply arrives while fragments of a socket datagram are still
/// pending in the stack. D1 (udp / raw, >= 3 fragments, to the peer) is followed by exactly 1 or 2
/// polls, then an echo request arrives from the peer or from the second neighbour B (reply
/// unfragmented, 2 or 3 fragments), then everything is polled to quiescence. D1 must be complete,
/// byte-identical and -- on Ethernet -- every one of its fragments addressed to the peer's
/// hardware address; the reply is absent as a whole or complete and addressed to its requester.
pub(crate) fn run_s1d(rep: &mut Report, tier: Tier) {
    let mtu = 100usize;
    let d1: Vec<usize> = match tier {
        Tier::Quick => vec![208, 400],
        Tier::Thorough => vec![161, 208, 400, 808, 1480],
    };
    let echo: Vec<usize> = match tier {
        Tier::Quick => vec![18, 108, 208],
        Tier::Thorough => vec![18, 80, 81, 108, 208, 400],
    };
    let mut cases = vec![];
    for eth in [false, true] {
        for k1 in 0..2u8 {
            for &l1 in &d1 {
                for polls in 1..=2u16 {
                    for from_b in [false, true] {
                        for &l2 in &echo {
                            let first = if k1 == 0 { Step::Udp(l1 - 8) } else { Step::Raw(l1) };
                            let second = if from_b { Step::EchoB(l2) } else { Step::Echo(l2) };
                            cases.push((eth, mtu, vec![Step::Hold(polls), first, second]));
                        }
                    }
                }
            }
        }
    }
    let (outcomes, frames, polls, _) = sweep(rep, "s1d", &cases);
    rep.add_count("states", cases.len() as u64);
    rep.add_count("transitions", cases.len() as u64);
    rep.add_count("evaluations", cases.len() as u64);
    rep.add_count("real_code_steps", polls);
    rep.cov(
        "s1d",
        json!({"what": "socket datagram D1 to the peer (>= 3 fragments) polled exactly 1 or 2 times, then an inbound echo request from the peer or from a second pre-resolved neighbour B (10.0.0.3), then polled to quiescence; on Ethernet the link-layer destination of every frame must be the hardware address of the neighbour owning its IP destination",
            "domain": {"media": ["ip", "ethernet"], "ip_mtu": mtu, "d1_kinds": ["udp", "raw"], "d1_ip_payload_lengths": d1, "polls_before_request": [1, 2], "requester": ["peer", "B"], "echo_icmp_lengths": echo},
            "cases": cases.len(), "frames_checked": frames, "polls": polls, "outcomes_per_datagram": outcomes}),
    );
}

/// S1e: the poll_at-following application (see `settle_drive`). Single datagrams and ordered
/// pairs, socket-originated (udp, raw) and ingress-triggered (echo reply), on an unlimited device
/// and on a device that accepts one frame per poll.
pub(crate) fn run_s1e(rep: &mut Report, tier: Tier) {
    let fragbuf = smoltcp::config::FRAGMENTATION_BUFFER_SIZE;
    let mtus: Vec<usize> = if tier == Tier::Thorough { vec![68, 100, 576, 1500] } else { vec![68, 100, 576] };
    let mut cases = vec![];
    let mut singles = 0u64;
    for eth in [false, true] {
        for &mtu in &mtus {
            let piece = (mtu - 20) / 8 * 8;
            // IP payload lengths: 1, 2, 3, 4 fragments (and their boundaries), the largest that fits the buffer
            let mut lens: Vec<usize> = vec![18];
            for k in 1..=4usize {
                for d in [-1i64, 0, 1, 8] {
                    let l = (k * piece) as i64 + d;
                    if l >= 9 && (l as usize) + 20 <= fragbuf {
                        lens.push(l as usize);
                    }
                }
            }
            lens.push(fragbuf - 20);
            if tier == Tier::Thorough {
                lens.extend((9..=fragbuf - 20).step_by(37));
            }
            lens.sort();
            lens.dedup();
            for dev in [1u8, 3u8] {
                for &l in &lens {
                    for st in [Step::Udp(l - 8), Step::Raw(l), Step::Echo(l)] {
                        cases.push((eth, mtu, vec![Step::Drive(dev), st]));
                        singles += 1;
                    }
                }
            }
        }
        // ordered pairs at MTU 100
        let pl: Vec<usize> = if tier == Tier::Thorough { vec![18, 81, 108, 161, 208, 400, 1480] } else { vec![18, 108, 208, 400] };
        let mk = |k: u8, l: usize| match k {
            0 => Step::Udp(l - 8),
            1 => Step::Raw(l),
            _ => Step::Echo(l),
        };
        for dev in [1u8, 3u8] {
            for k1 in 0..3u8 {
                for &l1 in &pl {
                    for k2 in 0..3u8 {
                        for &l2 in &pl {
                            cases.push((eth, 100, vec![Step::Drive(dev), mk(k1, l1), mk(k2, l2)]));
                        }
                    }
                }
            }
        }
    }
    let (outcomes, frames, polls, _) = sweep(rep, "s1e", &cases);
    rep.add_count("states", cases.len() as u64);
    rep.add_count("transitions", cases.len() as u64);
    rep.add_count("evaluations", cases.len() as u64);
    rep.add_count("real_code_steps", polls);
    rep.cov(
        "s1e",
        json!({"what": "the application polls ONLY when the device has received a frame or poll_at names a deadline (None = it sleeps forever); when it stops, every accepted datagram (and every started echo reply) must be completely on the wire; if it is not but unconditional polling brings the rest out: C12/tx/complete/stalls-when-following-poll-at",
            "domain": {"media": ["ip", "ethernet"], "ip_mtus": mtus, "devices": ["unlimited", "one frame per poll"], "kinds": ["udp", "raw", "echo (ingress-triggered reply)"],
                "single_datagrams": singles, "ordered_pairs_at_mtu_100": cases.len() as u64 - singles},
            "cases": cases.len(), "frames_checked": frames, "polls": polls, "outcomes_per_datagram": outcomes}),
    );
}

pub(crate) fn replay(r: &Value) -> i32 {
    let eth = r["medium"].as_str() == Some("ethernet");
    let mtu = r["ip_mtu"].as_u64().unwrap_or(0) as usize;
    let steps: Option<Vec<Step>> = r["steps"].as_array().map(|a| a.iter().filter_map(Step::from_json).collect());
    let Some(steps) = steps else {
        eprintln!("MACHINERY ERROR: bad steps");
        return 2;
    };
    println!("scenario: medium={} ip_mtu={} steps={:?}", medium_name(eth), mtu, steps);
    let res = run_scenario_caught(r["part"].as_str().unwrap_or("s1"), eth, mtu, &steps);
    for (i, f) in res.frames.iter().enumerate() {
        println!("  tx[{}] {}", i, f);
    }
    println!("outcomes: {:?}", res.outcomes);
    for m in &res.machinery {
        eprintln!("MACHINERY ERROR: {}", m);
    }
    if !res.machinery.is_empty() {
        return 2;
    }
    if res.viols.is_empty() {
        println!("no violation on replay");
        0
    } else {
        for v in &res.viols {
            println!("violation: {} :: {}", v.sig, v.detail);
        }
        1
    }
}
